"""Runner shared by every property check.

A property module (props/cNN.py) provides

    ID, LEVEL, RULE, ASSUMPTIONS, DESIGN_REF
    shards(tier)            -> list of JSON-able shard descriptors (canonical, simplest first)
    run_shard(shard, tier)  -> Result   (executed in a worker process)
    replay(case)            -> list of violation dicts for that one case (plain function call)

The runner distributes shards over a fork()ed worker pool (forked once, not per execution),
merges the results, matches violations against the committed register
(/verif/known_findings.json), writes replay files and the evidence file and prints the
interface lines.  VERIF_SEED only permutes the order in which shards are handed out.
"""
import hashlib
import json
import multiprocessing
import os
import random
import sys
import time
import traceback

VERIF = os.path.dirname(os.path.dirname(os.path.abspath(__file__)))
# Where evidence/ and replay/ are written; runs against a scratch tree (seeded changes) set VERIF_OUT so that the
# committed evidence of the real tree is not overwritten.
OUT = os.environ.get('VERIF_OUT', VERIF)
MAX_VIOLATIONS_PER_SHARD = 40
MAX_OUTCOMES = 400000
MAX_DISTINCT = 6000000


def h64(obj) -> int:
    """Deterministic 64 bit hash of a JSON-able / repr-able object."""
    if not isinstance(obj, (bytes, bytearray)):
        obj = repr(obj).encode('utf8', 'backslashreplace')
    return int.from_bytes(hashlib.blake2b(obj, digest_size=8).digest(), 'big')


class Result:
    """What one shard produced."""

    def __init__(self):
        self.evaluations = 0
        self.nontrivial = set()      # 64 bit hashes of distinct non-trivial case descriptors
        self.nontrivial_overflow = 0  # counted but not stored (only when a generator guarantees distinctness)
        self.outcomes = set()        # hashes of distinct observed outcomes
        self.violations = []         # dicts: sig, case, msg
        self._vkeys = set()
        self.violation_count = 0
        self.samples = []
        self.states = 0
        self.transitions = 0
        self.traces = 0
        self.counters = {}
        self.frontier_closed = None  # for searches: True if every shard's frontier emptied

    # -- recording -----------------------------------------------------------------------
    def case(self, key, nontrivial=True, outcome=None, sample=None):
        """Record one evaluated case.  key: hashable descriptor (distinctness is measured on it)."""
        self.evaluations += 1
        if nontrivial:
            if len(self.nontrivial) < MAX_DISTINCT:
                self.nontrivial.add(key if isinstance(key, int) else h64(key))
            else:
                self.nontrivial_overflow += 1
        if outcome is not None and len(self.outcomes) < MAX_OUTCOMES:
            self.outcomes.add(outcome if isinstance(outcome, int) else h64(outcome))
        if sample is not None and len(self.samples) < 2:
            self.samples.append(sample)

    def count(self, name, n=1):
        self.counters[name] = self.counters.get(name, 0) + n

    def violate(self, sig, case, msg):
        """sig: small dict classifying the violation (used for register matching and dedup);
        case: JSON-able descriptor replayable by the property's replay(); msg: text."""
        self.violation_count += 1
        k = json.dumps(sig, sort_keys=True, default=str)
        v = {'sig': sig, 'case': case, 'msg': str(msg)[:2000]}
        if k in self._vkeys:
            for i, mine in enumerate(self.violations):
                if json.dumps(mine['sig'], sort_keys=True, default=str) == k:
                    if _case_size(v) < _case_size(mine):
                        self.violations[i] = v
                    break
            return
        if len(self.violations) >= MAX_VIOLATIONS_PER_SHARD:
            return
        self._vkeys.add(k)
        self.violations.append(v)

    def merge(self, other):
        self.evaluations += other.evaluations
        self.nontrivial |= other.nontrivial
        self.nontrivial_overflow += other.nontrivial_overflow
        if len(self.outcomes) < MAX_OUTCOMES:
            self.outcomes |= other.outcomes
        self.violation_count += other.violation_count
        for v in other.violations:
            k = json.dumps(v['sig'], sort_keys=True, default=str)
            if k not in self._vkeys:
                self._vkeys.add(k)
                self.violations.append(v)
            else:   # keep the smallest case per signature, so the report does not depend on arrival order
                for i, mine in enumerate(self.violations):
                    if json.dumps(mine['sig'], sort_keys=True, default=str) == k:
                        if _case_size(v) < _case_size(mine):
                            self.violations[i] = v
                        break
        self.samples.extend(other.samples[:2])
        if len(self.samples) > 64:
            self.samples = sorted(self.samples, key=lambda c: json.dumps(c, sort_keys=True, default=str))[:32]
        self.states += other.states
        self.transitions += other.transitions
        self.traces += other.traces
        for k, v in other.counters.items():
            self.counters[k] = self.counters.get(k, 0) + v
        if other.frontier_closed is not None:
            self.frontier_closed = other.frontier_closed if self.frontier_closed is None \
                else (self.frontier_closed and other.frontier_closed)


def _case_size(v):
    j = json.dumps(v['case'], sort_keys=True, default=str)
    return (len(j), j)


# ---------------------------------------------------------------------------------------
# register
# ---------------------------------------------------------------------------------------
def load_register():
    path = os.path.join(VERIF, 'known_findings.json')
    if not os.path.exists(path):
        return []
    with open(path) as f:
        return json.load(f).get('findings', [])


def _match_value(want, got):
    if isinstance(want, list):
        return got in want
    return want == got


def match_known(register, prop_id, sig):
    """Return the 'known' register entry whose predicate matches this violation signature."""
    for ent in register:
        if ent.get('status') != 'known':
            continue
        props = ent.get('properties') or [ent.get('property')]
        if prop_id not in props:
            continue
        m = ent.get('match', {})
        if m and all(k in sig and _match_value(v, sig[k]) for k, v in m.items()):
            return ent
    return None


# ---------------------------------------------------------------------------------------
# pool
# ---------------------------------------------------------------------------------------
_MOD = None
_TIER = None


def _worker(shard):
    try:
        t0 = time.time()
        r = _MOD.run_shard(shard, _TIER)
        r.counters['shard_seconds_max'] = 0  # placeholder, replaced below
        return ('ok', shard, r, time.time() - t0)
    except BaseException:  # a harness error is never a property violation
        return ('err', shard, traceback.format_exc(), 0.0)


def run_property(mod, tier='quick', seed=0, jobs=None, only_shards=None):
    global _MOD, _TIER
    _MOD, _TIER = mod, tier
    t0 = time.time()
    jobs = jobs or int(os.environ.get('VERIF_JOBS', '0')) or min(16, os.cpu_count() or 4)
    if getattr(mod, 'NEEDS_EXT', False):
        from mc import seams
        seams.install_ext()
    if hasattr(mod, 'prepare'):
        mod.prepare(tier)
    shards = list(mod.shards(tier))
    if only_shards is not None:
        shards = [shards[i] for i in only_shards]
    order = list(range(len(shards)))
    random.Random(seed).shuffle(order)
    total = Result()
    errors = []
    slowest = 0.0
    if jobs == 1 or len(shards) <= 1:
        it = map(_worker, (shards[i] for i in order))
        pool = None
    else:
        ctx = multiprocessing.get_context('fork')
        pool = ctx.Pool(min(jobs, len(shards)))
        it = pool.imap_unordered(_worker, (shards[i] for i in order), chunksize=1)
    try:
        for status, shard, payload, secs in it:
            if status == 'err':
                errors.append((shard, payload))
                continue
            slowest = max(slowest, secs)
            total.merge(payload)
    finally:
        if pool is not None:
            pool.close()
            pool.join()
        _sweep_scratch()
    total.counters.pop('shard_seconds_max', None)
    wall = time.time() - t0
    return finish(mod, tier, seed, total, errors, wall, len(shards), slowest)


def _sweep_scratch():
    """Workers of the pool leave without running exit handlers: remove the per-process scratch files (c<NN>-<pid>...) of
    processes that no longer exist.  Files of checks running at the same time belong to live processes and are left alone."""
    import re
    import shutil
    from mc import seams
    try:
        names = os.listdir(seams.SCRATCH)
    except OSError:
        return
    for name in names:
        # exactly the names the checks give their per-process files (nothing made by tempfile.mkdtemp, whose random part may begin with digits)
        m = re.match(r'^(?:c0[12]-(\d+)\.dlis|c05-(\d+)-(?:in|out)\.lis|c09-(\d+)(?:\.las)?)$', name)
        if not m:
            continue
        pid = int(next(g for g in m.groups() if g))
        if pid == os.getpid():
            continue
        try:
            os.kill(pid, 0)
            continue            # alive (or not ours to judge)
        except ProcessLookupError:
            pass
        except OSError:
            continue
        path = os.path.join(seams.SCRATCH, name)
        try:
            if os.path.isdir(path) and not os.path.islink(path):
                shutil.rmtree(path, ignore_errors=True)
            else:
                os.remove(path)
        except OSError:
            pass


def finish(mod, tier, seed, total, errors, wall, nshards, slowest):
    pid = mod.ID
    register = load_register()
    total.violations.sort(key=lambda v: json.dumps(v['sig'], sort_keys=True, default=str))
    total.samples = sorted(total.samples, key=lambda c: json.dumps(c, sort_keys=True, default=str))
    known_lines = {}
    unknown = []
    for v in total.violations:
        ent = match_known(register, pid, v['sig'])
        if ent is not None:
            known_lines.setdefault(ent['id'], [ent, 0])
            known_lines[ent['id']][1] += 1
        else:
            unknown.append(v)
    out = []
    for fid, (ent, n) in sorted(known_lines.items()):
        out.append('KNOWN-FINDING: property=%s %s: %s [%d distinct signatures this run]' % (pid, fid, ent['what'], n))
    replay_dir = os.path.join(OUT, 'replay')
    os.makedirs(replay_dir, exist_ok=True)
    for name in os.listdir(replay_dir):
        if name.startswith(pid + '-'):
            os.remove(os.path.join(replay_dir, name))
    for i, v in enumerate(unknown[:int(os.environ.get('VERIF_MAX_REPORT', '10'))]):
        path = os.path.join(replay_dir, '%s-%02d.json' % (pid, i))
        with open(path, 'w') as f:
            json.dump({'property': pid, 'case': v['case'], 'sig': v['sig'], 'msg': v['msg']}, f, indent=1, default=str)
        out.append('VIOLATION property=%s replay=%s' % (pid, path))
        out.append('  ' + v['msg'].replace('\n', '\n  ')[:1200])
    for shard, tb in errors[:3]:
        out.append('HARNESS-ERROR property=%s shard=%r\n%s' % (pid, shard, tb))
    distinct_nontrivial = len(total.nontrivial) + total.nontrivial_overflow
    outcomes = len(total.outcomes)
    vacuous = (outcomes < 2 and not getattr(mod, 'SINGLE_OUTCOME_OK', False))
    if vacuous and not unknown and not errors:
        out.append('HARNESS-ERROR property=%s vacuous exploration: %d distinct outcomes from %d evaluations'
                   % (pid, outcomes, total.evaluations))
    coverage = {
        'evaluations': total.evaluations,
        'distinct_nontrivial': distinct_nontrivial,
        'rule': mod.RULE,
        'samples': total.samples[:6] or [None],
        'exhaustive': not errors,
        'distinct_outcomes': outcomes,
        'shards': nshards,
        'slowest_shard_s': round(slowest, 2),
        'violation_instances': total.violation_count,
        'violation_signatures_known': sum(n for _, n in known_lines.values()),
        'violation_signatures_unlisted': len(unknown),
        'known_findings_seen': sorted(known_lines),
        'counters': dict(sorted(total.counters.items())),
        'bounds': getattr(mod, 'BOUNDS', {}).get(tier, ''),
    }
    if mod.LEVEL == 'model_checking':
        coverage['states'] = total.states
        coverage['transitions'] = total.transitions
        coverage['traces_validated_against_impl'] = total.traces
        coverage['frontier_closed_before_depth_bound'] = total.frontier_closed
    evidence = {
        'property_id': pid,
        'tier': tier,
        'seed': seed,
        'level': mod.LEVEL,
        'coverage': coverage,
        'assumptions': list(getattr(mod, 'ASSUMPTIONS', [])),
        'wall_s': round(wall, 2),
        'violations': len(unknown),
    }
    os.makedirs(os.path.join(OUT, 'evidence'), exist_ok=True)
    with open(os.path.join(OUT, 'evidence', pid + '.json'), 'w') as f:
        json.dump(evidence, f, indent=1, default=str)
        f.write('\n')
    print('%s tier=%s seed=%d shards=%d evaluations=%d distinct_nontrivial=%d outcomes=%d states=%d transitions=%d '
          'violations(unlisted)=%d known=%s wall=%.1fs'
          % (pid, tier, seed, nshards, total.evaluations, distinct_nontrivial, outcomes, total.states,
             total.transitions, len(unknown), sorted(known_lines), wall))
    if total.counters:
        print('  counters: ' + ', '.join('%s=%s' % kv for kv in sorted(total.counters.items())))
    for line in out:
        print(line)
    sys.stdout.flush()
    if unknown:
        return 1
    if errors or vacuous:
        return 2
    return 0


def run_replay(mod, path):
    with open(path) as f:
        doc = json.load(f)
    case = doc['case'] if 'case' in doc else doc
    if getattr(mod, 'NEEDS_EXT', False):
        from mc import seams
        seams.install_ext()
    vs = mod.replay(case)
    register = load_register()
    rc = 0
    for v in vs:
        ent = match_known(register, mod.ID, v['sig'])
        if ent is not None:
            print('KNOWN-FINDING: property=%s %s: %s' % (mod.ID, ent['id'], ent['what']))
        else:
            print('VIOLATION property=%s replay=%s' % (mod.ID, path))
            print('  ' + str(v['msg'])[:2000])
            rc = 1
    if not vs:
        print('%s replay %s: property holds on this case' % (mod.ID, path))
    return rc
