"""Seams: which tree is under test, compiled extensions rebuilt from source, counting file objects."""
import hashlib
import importlib
import importlib.util
import io
import os
import shutil
import subprocess
import sys

REPO = os.environ.get('VERIF_REPO', '/repo')
SCRATCH = os.environ.get('VERIF_SCRATCH', '/var/tmp/td-verif')

EXT_SOURCES = [
    'src/TotalDepth/LIS/core/src/cython/cRepCode.pyx',
    'src/TotalDepth/LIS/core/src/cython/cFrameSet.pyx',
    'src/TotalDepth/LIS/core/src/cp/cpLISRepCode.cpp',
    'src/TotalDepth/LIS/core/src/cp/cpLISRepCode.h',
    'src/TotalDepth/LIS/core/src/cpp/LISRepCode.cpp',
    'src/TotalDepth/LIS/core/src/cpp/LISRepCode.h',
]

_SETUP = '''
from setuptools import Extension, setup
from Cython.Build import cythonize
exts = cythonize([
    Extension("cRepCode", sources=["cRepCode.pyx"]),
    Extension("cFrameSet", sources=["cFrameSet.pyx"]),
], language_level=3, quiet=True) + [
    Extension("cpRepCode", sources=["cpLISRepCode.cpp", "LISRepCode.cpp"],
              extra_compile_args=["-I.", "-std=c++14"]),
]
setup(name="tdext", ext_modules=exts, script_args=["-q", "build_ext", "--inplace"])
'''


def use_repo():
    """Make `import TotalDepth` resolve to $VERIF_REPO/src (wins over the editable-install finder)."""
    src = os.path.join(REPO, 'src')
    if sys.path[0] != src:
        if src in sys.path:
            sys.path.remove(src)
        sys.path.insert(0, src)
    os.environ.setdefault('PYTHONDONTWRITEBYTECODE', '1')
    sys.dont_write_bytecode = True
    import logging
    logging.disable(logging.CRITICAL)   # the library logs warnings on valid-but-unusual input; not part of any oracle
    return src


def _sources_hash():
    h = hashlib.sha256()
    for rel in EXT_SOURCES:
        with open(os.path.join(REPO, rel), 'rb') as f:
            h.update(rel.encode())
            h.update(f.read())
    h.update(sys.version.encode())
    return h.hexdigest()[:20]


def build_ext(verbose=False):
    """Compile cRepCode, cFrameSet (Cython) and cpRepCode (C++) from the *current* sources of the tree
    under test into a scratch directory outside /repo and /verif; returns that directory.
    The in-tree .so files are git-ignored, already-built binaries and would hide source edits."""
    digest = _sources_hash()
    root = os.path.join(SCRATCH, 'ext')
    out = os.path.join(root, digest)
    stamp = os.path.join(out, 'BUILD_OK')
    if os.path.exists(stamp):
        return out
    os.makedirs(root, exist_ok=True)
    import time
    for name in os.listdir(root):  # stale builds of other source states are deleted (not ones a concurrent run may be using)
        path = os.path.join(root, name)
        try:
            if name != digest and time.time() - os.path.getmtime(path) > 6 * 3600:
                shutil.rmtree(path, ignore_errors=True)
        except OSError:
            pass
    tmp = out + '.tmp%d' % os.getpid()
    shutil.rmtree(tmp, ignore_errors=True)
    os.makedirs(tmp)
    for rel in EXT_SOURCES:
        shutil.copy(os.path.join(REPO, rel), tmp)
    with open(os.path.join(tmp, 'setup_ext.py'), 'w') as f:
        f.write(_SETUP)
    env = dict(os.environ)
    env.pop('PYTHONPATH', None)
    p = subprocess.run([sys.executable, 'setup_ext.py'], cwd=tmp, env=env,
                       stdout=subprocess.PIPE, stderr=subprocess.STDOUT, text=True)
    if p.returncode != 0:
        sys.stderr.write(p.stdout[-4000:])
        raise RuntimeError('extension build failed (harness error, not a violation)')
    shutil.rmtree(os.path.join(tmp, 'build'), ignore_errors=True)
    open(os.path.join(tmp, 'BUILD_OK'), 'w').close()
    try:
        os.rename(tmp, out)
    except OSError:  # another process won the race
        shutil.rmtree(tmp, ignore_errors=True)
    return out


def install_ext():
    """Build and alias the freshly built extensions under TotalDepth.LIS.core.* before RepCode is imported."""
    use_repo()
    out = build_ext()
    import TotalDepth.LIS.core  # noqa  (package only; does not import the extensions)
    mods = {}
    for name in ('cRepCode', 'cFrameSet', 'cpRepCode'):
        full = 'TotalDepth.LIS.core.' + name
        path = [os.path.join(out, f) for f in os.listdir(out) if f.startswith(name + '.') and f.endswith('.so')][0]
        spec = importlib.util.spec_from_file_location(full, path)
        mod = importlib.util.module_from_spec(spec)
        sys.modules[full] = mod
        spec.loader.exec_module(mod)
        setattr(sys.modules['TotalDepth.LIS.core'], name, mod)
        mods[name] = mod
    return mods


def pin_times(path):
    """Give a scratch file that was just rewritten a fixed modification and access time: successive contents of one path
    then differ in their bytes only (and often not in their size), so an answer remembered per (path, size, time stamp)
    instead of per content shows up like one remembered per path."""
    os.utime(path, (946684800, 946684800))


class BudgetExceeded(Exception):
    pass


class CountingBytesIO(io.BytesIO):
    """BytesIO that logs every read as (offset, returned length) and every seek, with an operation budget."""

    def __init__(self, data=b'', budget=None):
        super().__init__(data)
        self.reads = []
        self.seeks = 0
        self.ops = 0
        self.budget = budget
        self.size = len(data)

    def _tick(self):
        self.ops += 1
        if self.budget is not None and self.ops > self.budget:
            raise BudgetExceeded('operation budget %d exceeded' % self.budget)

    def read(self, n=-1):
        self._tick()
        pos = self.tell()
        by = super().read(n)
        self.reads.append((pos, len(by)))
        return by

    def readline(self, n=-1):
        self._tick()
        pos = self.tell()
        by = super().readline(n)
        self.reads.append((pos, len(by)))
        return by

    def seek(self, pos, whence=0):
        self._tick()
        self.seeks += 1
        return super().seek(pos, whence)

    def reset_log(self):
        self.reads = []
        self.seeks = 0
