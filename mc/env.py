"""E3 - environment enumeration: a virtual process pool whose task-to-worker assignment the explorer owns,
set partitions (= schedules), and helpers to run a function in a freshly forked interpreter.

Every worker is a real, long-lived process forked from the caller (the same start method as the library's
multiprocessing.Pool on Linux).  The explorer decides which worker executes which task; a worker runs its
tasks one at a time, in submission order.  What this does not own is the instruction-level interleaving of two
tasks that run at the same instant; that only matters when two tasks touch the same file, which the C12 check
covers separately by enumerating output-name collisions.
"""
import os
import pickle
import struct
import sys
import traceback


def set_partitions(n, max_blocks):
    """All set partitions of range(n) into at most max_blocks blocks, as restricted growth strings
    (a[i] = block of task i, a[0] = 0, a[i] <= 1 + max(a[:i])); canonical order, simplest first."""
    def rec(prefix, mx):
        if len(prefix) == n:
            yield list(prefix)
            return
        for b in range(min(mx + 1, max_blocks - 1) + 1):
            yield from rec(prefix + [b], max(mx, b))
    if n == 0:
        yield []
        return
    yield from rec([0], 0)


def _write_msg(fd, obj):
    data = pickle.dumps(obj)
    os.write(fd, struct.pack('>Q', len(data)))
    off = 0
    while off < len(data):
        off += os.write(fd, data[off:off + 65536])


def _read_exact(fd, n):
    chunks = []
    while n:
        b = os.read(fd, min(n, 65536))
        if not b:
            raise EOFError('worker closed the pipe')
        chunks.append(b)
        n -= len(b)
    return b''.join(chunks)


def _read_msg(fd):
    n = struct.unpack('>Q', _read_exact(fd, 8))[0]
    return pickle.loads(_read_exact(fd, n))


def run_forked(fn, *args):
    """Run fn(*args) in a forked child (fresh copy of this interpreter's state), return its result.
    An exception in the child is re-raised here as RuntimeError with the child's traceback."""
    r, w = os.pipe()
    pid = os.fork()
    if pid == 0:
        code = 0
        try:
            os.close(r)
            try:
                out = ('ok', fn(*args))
            except BaseException:
                out = ('err', traceback.format_exc())
            _write_msg(w, out)
        except BaseException:
            code = 1
        finally:
            os._exit(code)
    os.close(w)
    try:
        status, payload = _read_msg(r)
    finally:
        os.close(r)
        os.waitpid(pid, 0)
    if status == 'err':
        raise RuntimeError('forked child failed:\n' + payload)
    return payload


class _Worker:
    def __init__(self):
        self.to_child_r, self.to_child_w = os.pipe()
        self.from_child_r, self.from_child_w = os.pipe()
        self.pid = os.fork()
        if self.pid == 0:
            try:
                os.close(self.to_child_w)
                os.close(self.from_child_r)
                while True:
                    try:
                        msg = _read_msg(self.to_child_r)
                    except EOFError:
                        break
                    if msg is None:
                        break
                    func, args = msg
                    try:
                        out = ('ok', func(*args))
                    except BaseException as err:  # the real pool re-raises in get(): transport it
                        out = ('exc', err if _picklable(err) else RuntimeError(repr(err)))
                    _write_msg(self.from_child_w, out)
            finally:
                os._exit(0)
        os.close(self.to_child_r)
        os.close(self.from_child_w)

    def run(self, func, args):
        _write_msg(self.to_child_w, (func, args))       # arguments are pickled, as the real pool does
        return _read_msg(self.from_child_r)

    def close(self):
        try:
            _write_msg(self.to_child_w, None)
        except OSError:
            pass
        os.close(self.to_child_w)
        os.close(self.from_child_r)
        os.waitpid(self.pid, 0)


def _picklable(obj):
    try:
        pickle.dumps(obj)
        return True
    except Exception:  # noqa
        return False


class _Async:
    def __init__(self, pool, index):
        self.pool = pool
        self.index = index

    def get(self, timeout=None):
        self.pool._run_all()
        status, payload = self.pool.results[self.index]
        if status == 'exc':
            raise payload
        return payload


class _Ready:
    def __init__(self, value):
        self._v = value

    def get(self, timeout=None):
        return self._v

    def wait(self, timeout=None):
        pass

    def ready(self):
        return True

    def successful(self):
        return True


class VirtualPool:
    """Drop-in for multiprocessing.Pool(processes=W) as used by the batch converter (apply_async + get).
    `assignment` maps task index -> worker index (a restricted growth string from set_partitions)."""
    assignment = None          # set by the explorer before the library creates the pool
    log = None                 # filled with (processes asked for, number of tasks)

    def __init__(self, processes=None):
        self.processes = processes
        self.tasks = []
        self.results = None

    def apply_async(self, func, args=()):
        self.tasks.append((func, tuple(args)))
        return _Async(self, len(self.tasks) - 1)

    # -- the map family, with multiprocessing.Pool's chunking rules (Pool._map_async / MapResult) -------------------
    def _map(self, func, iterable, chunksize, star):
        items = list(iterable)
        if chunksize is None:
            chunksize, extra = divmod(len(items), max(1, (self.processes or os.cpu_count() or 1)) * 4)
            if extra:
                chunksize += 1
        if len(items) == 0:
            chunksize = 0
        if chunksize <= 0:
            # Pool._get_tasks yields no batch and MapResult is born ready: a list of None, nothing is executed
            return [None] * len(items)
        first = len(self.tasks)
        for it in items:
            self.tasks.append((func, tuple(it) if star else (it,)))
        self.results = None
        self._run_all()
        return [self._value(i) for i in range(first, first + len(items))]

    def _value(self, i):
        status, payload = self.results[i]
        if status == 'exc':
            raise payload
        return payload

    def map(self, func, iterable, chunksize=None):
        return self._map(func, iterable, chunksize, False)

    def starmap(self, func, iterable, chunksize=None):
        return self._map(func, iterable, chunksize, True)

    def imap(self, func, iterable, chunksize=1):
        if chunksize < 1:
            raise ValueError('Chunksize must be 1+, not {0:n}'.format(chunksize))
        return iter(self._map(func, iterable, chunksize, False))

    imap_unordered = imap

    def map_async(self, func, iterable, chunksize=None):
        return _Ready(self._map(func, iterable, chunksize, False))

    def starmap_async(self, func, iterable, chunksize=None):
        return _Ready(self._map(func, iterable, chunksize, True))

    def _run_all(self):
        if self.results is not None:
            return
        assign = VirtualPool.assignment
        if assign is None:
            raise RuntimeError('no schedule given for %d tasks' % len(self.tasks))
        if len(assign) != len(self.tasks):
            # the library built another task list than the explorer predicted (that is for the oracle to judge, e.g. a file
            # without a result): keep the given placement for the tasks there are, further tasks go to worker 0
            assign = (list(assign) + [0] * len(self.tasks))[:len(self.tasks)]
        VirtualPool.log = (self.processes, len(self.tasks))
        nworkers = max(assign) + 1 if assign else 0
        workers = [_Worker() for _ in range(nworkers)]      # forked now, like Pool() forks at construction
        self.results = [None] * len(self.tasks)
        try:
            for w in range(nworkers):
                for i, (func, args) in enumerate(self.tasks):
                    if assign[i] == w:
                        self.results[i] = workers[w].run(func, args)
        finally:
            for w in workers:
                w.close()

    def close(self):
        pass

    def join(self):
        pass

    def terminate(self):
        pass

    def __enter__(self):
        return self

    def __exit__(self, *a):
        return False
