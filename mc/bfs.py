"""E2 - explicit-state breadth-first search whose transition function is the real method call.

A *system* is a pair (real object, reference model) created fresh by `make()`.  A state is the operation
history that reaches it: live objects are rebuilt by replaying the history on a fresh system (they rarely
copy).  States are deduplicated by `canon(system)`, which must contain every implementation field the next
transitions can depend on (over-fine is safe, too coarse is not).

    make()                  -> system
    ops(system)             -> iterable of JSON-able operation descriptors enabled in this state
    step(system, op, check) -> list of (sig, msg) violations found while applying op (check=False while replaying
                               a prefix: the prefix was checked when it was first explored)
    canon(system)           -> hashable
"""
import collections
import os

_HERE = os.path.dirname(os.path.dirname(os.path.abspath(__file__)))


def library_raised(err):
    """True when the exception was raised by (or below) code of the library under test rather than by the harness: the
    innermost frame that belongs either to /verif or to the TotalDepth package is a TotalDepth one."""
    tb = err.__traceback__
    last = None
    while tb is not None:
        fn = tb.tb_frame.f_code.co_filename
        if fn.startswith(_HERE + os.sep):
            last = 'harness'
        elif os.sep + 'TotalDepth' + os.sep in fn:
            last = 'library'
        tb = tb.tb_next
    return last == 'library'


def make_or_violation(make, res, case_base, what='building the system on a conformant input'):
    """make(), or None after recording a violation when the library (not the harness) raised."""
    try:
        return make()
    except Exception as err:  # noqa
        if not library_raised(err):
            raise
        case = dict(case_base)
        case['history'] = []
        res.violate({'kind': 'construction_raises', 'exc': type(err).__name__}, case, '%s raised %s: %s' % (what, type(err).__name__, err))
        return None


def search(make, ops, step, canon, max_depth, res, case_base, max_states=200000, sample_every=0):
    """Runs the search, records counts and violations into `res` (mc.run.Result).
    case_base: dict copied into every replay descriptor, the history is added under 'history'.
    Returns (states, transitions, closed)."""
    sys0 = make_or_violation(make, res, case_base)
    if sys0 is None:
        return 0, 0, False
    seen = {canon(sys0)}
    frontier = collections.deque([[]])
    states = 1
    transitions = 0
    closed = True
    while frontier:
        hist = frontier.popleft()
        system = make()
        for op in hist:
            step(system, op, False)
        enabled = list(ops(system))
        for op in enabled:
            system = make()
            for prev in hist:
                step(system, prev, False)
            bad = step(system, op, True)
            transitions += 1
            for sig, msg in bad:
                case = dict(case_base)
                case['history'] = hist + [op]
                res.violate(sig, case, 'after history %r: %s' % (hist + [op], msg))
            if bad:
                continue  # do not expand a state reached through a violation
            k = canon(system)
            if k not in seen:
                if len(hist) + 1 >= max_depth or states >= max_states:
                    closed = False       # a new state at the depth bound: not expanded
                    seen.add(k)
                    states += 1
                    continue
                seen.add(k)
                states += 1
                frontier.append(hist + [op])
    res.states += states
    res.transitions += transitions
    res.traces += transitions      # every explored history was executed against the implementation
    res.frontier_closed = closed if res.frontier_closed is None else (res.frontier_closed and closed)
    return states, transitions, closed


def replay_history(make, step, history):
    """Plain replay of one history with checking at every step (no explorer)."""
    try:
        system = make()
    except Exception as err:  # noqa
        if not library_raised(err):
            raise
        return [({'kind': 'construction_raises', 'exc': type(err).__name__},
                 'building the system on a conformant input raised %s: %s' % (type(err).__name__, err))]
    bad = []
    for op in history:
        bad.extend(step(system, op, True))
    return bad


_SIMPLE = (int, float, str, bytes, bool, type(None))


def generic_state(obj, depth=2, skip=()):
    """A hashable picture of *every* instance attribute of obj (recursively to `depth` for plain objects), so that a field
    the checker's author did not know about - e.g. a cache added by a later change - still distinguishes states.
    File objects, callables and large buffers are represented by their type (and length) only."""
    out = []
    d = getattr(obj, '__dict__', None)
    if d is None:
        return (type(obj).__name__,)
    for name in sorted(d):
        if name in skip:
            continue
        v = d[name]
        if isinstance(v, _SIMPLE):
            out.append((name, v if not isinstance(v, (bytes, str)) or len(v) < 64 else (len(v), hash(v))))
        elif isinstance(v, (list, tuple)) and len(v) < 32 and all(isinstance(x, _SIMPLE) for x in v):
            out.append((name, tuple(v)))
        elif isinstance(v, dict) and len(v) < 64:
            out.append((name, tuple(sorted((repr(k)[:80], repr(val)[:120]) for k, val in v.items()))))
        elif isinstance(v, (bytearray, memoryview)):
            out.append((name, ('buf', len(v), hash(bytes(v)))))
        elif hasattr(v, 'read') and hasattr(v, 'seek'):
            out.append((name, 'file'))
        elif depth > 0 and hasattr(v, '__dict__') and not callable(v):
            out.append((name, generic_state(v, depth - 1, skip)))
        else:
            out.append((name, type(v).__name__))
    return tuple(out)
