"""A format specification composed from an entry block set and a list of channel
blocks must decode to those entry blocks and to the X axis channel followed by
exactly the channels that were given - also when the same entry block set and the
same channel list are used for a second specification (main pass, then repeat
pass).
Exit 0 if the property holds, 1 (with a message) if not."""
import io
import sys

from TotalDepth.LIS.core import File, LisGen, LogiRec, PhysRec

EB = LogiRec.EntryBlock


def decode(ld):
    pr = PhysRec.PR_PRH_LEN_FORMAT.pack(PhysRec.PR_PRH_LENGTH + len(ld)) \
        + PhysRec.PR_PRH_ATTR_FORMAT.pack(0) + bytes(ld)
    f = File.FileRead(theFile=io.BytesIO(pr), theFileId='demo', keepGoing=False)
    return LogiRec.LrDFSRRead(f)


def describe(d):
    return (d.mnem, d.units, d.size, d.samples(0), d.repCode, d.bursts(0), d.subChannels)


def main():
    ebs = LogiRec.EntryBlockSet()
    ebs.setEntryBlock(EB(LogiRec.EB_TYPE_UP_DOWN_FLAG, 1, 66, 255))
    ebs.setEntryBlock(EB(LogiRec.EB_TYPE_FRAME_SPACE, 4, 68, 0.5))
    ebs.setEntryBlock(EB(LogiRec.EB_TYPE_FRAME_SPACE_UNITS, 4, 65, b'FEET'))
    ebs.setEntryBlock(EB(LogiRec.EB_TYPE_MAX_FRAMES_PER_REC, 1, 66, 7))    # odd total: padded
    # Direct X (recording mode 0, the default): the composer supplies the DEPT channel.
    specs = (
        LisGen.ChannelSpec(b'GR  ', b'ServID', b'ServOrdN', b'GAPI', 45310011, 256, 4, 1, 68),
        LisGen.ChannelSpec(b'SUPR', b'ServID', b'ServOrdN', b'MV  ', 45310011, 256, 16, 2, 68),
        LisGen.ChannelSpec(b'CNT ', b'ServID', b'ServOrdN', b'    ', 45310011, 256, 2, 1, 79),
    )
    channels = [LisGen.Channel(s, LisGen.ChValsConst()) for s in specs]
    expected = [(b'DEPT', b'FEET', 4, 1, 68, 1, 1)] + [
        (b'GR  ', b'GAPI', 4, 1, 68, 1, 1),
        (b'SUPR', b'MV  ', 16, 2, 68, 2, 1),
        (b'CNT ', b'    ', 2, 1, 79, 1, 1),
    ]
    bad = 0
    for what, xStart in (('main pass', 1000.0), ('repeat pass', 500.0)):
        gen = LisGen.LogPassGen(ebs, channels, xStart=xStart, xRepCode=68, xNoise=None)
        dfsr = decode(gen.lrBytesDFSR())
        got = [describe(d) for d in dfsr.dsbBlocks]
        if got != expected:
            print('FAIL ({:s}): decoded channels differ from the composed ones'.format(what))
            print(' expected:', expected)
            print(' got:     ', got)
            bad = 1
        for i in range(1, 17):
            if i != 10 and dfsr.ebs[i] != ebs[i]:
                print('FAIL ({:s}): entry block {:d}: {!r:s} != {!r:s}'.format(what, i, dfsr.ebs[i], ebs[i]))
                bad = 1
        if dfsr.ebs.lisSize() % 2 or dfsr.ebs[0].size != 1:
            print('FAIL ({:s}): entry block set not padded to even length'.format(what))
            bad = 1
    if not bad:
        print('OK: both format specifications decode to what was composed')
    return bad


if __name__ == '__main__':
    sys.exit(main())
