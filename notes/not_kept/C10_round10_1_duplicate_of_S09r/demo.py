"""A frame array is written as LAS, read back, and the curve names are asked for more than once.
Between the two questions the caller sorts the list it was given (to print an alphabetical listing).
Exit 0 when the LAS reads back as the same log every time it is asked, 1 otherwise."""
import io
import sys

import numpy as np

from TotalDepth.LAS.core import LASRead, WriteLAS
from TotalDepth.common import LogPass, Slice

CHANNELS = (('DEPT', 'FEET'), ('TENS', 'LBS'), ('GR', 'GAPI'), ('CALI', 'IN'))
FRAMES = 5

frame_array = LogPass.FrameArray('IDENT', 'demo')
for name, units in CHANNELS:
    frame_array.append(LogPass.FrameChannel(name, name, units, (1,), np.float64))
frame_array.init_arrays(FRAMES)
for f in range(FRAMES):
    for c, (name, _units) in enumerate(CHANNELS):
        frame_array[name][f] = 1000.0 + f * 0.5 + c * 10.25

out = io.StringIO()
out.write('~Version Information Section\nVERS. 2.0 : CWLS Log ASCII Standard - VERSION 2.0\nWRAP. NO : One Line per depth step\n')
WriteLAS.write_curve_and_array_section_to_las(frame_array, FRAMES, 'first', Slice.Slice(), set(), 16, '.3f', out)

las = LASRead.LASRead(io.StringIO(out.getvalue()), 'demo')
errors = []


def check(label):
    names_units = list(zip(las['C'].mnemonics(), las['C'].units()))
    if names_units != list(CHANNELS):
        errors.append(f'{label}: curve section gives {names_units} expected {list(CHANNELS)}')
    read = [(ch.ident, ch.units) for ch in las.frame_array.channels]
    if read != list(CHANNELS):
        errors.append(f'{label}: frame array gives {read} expected {list(CHANNELS)}')
    if las.number_of_frames() != FRAMES:
        errors.append(f'{label}: {las.number_of_frames()} frames expected {FRAMES}')
    for name, _units in CHANNELS:
        for f in range(FRAMES):
            if abs(las.frame_array[name].array[f][0] - frame_array[name].array[f][0]) > 0.0005:
                errors.append(f'{label}: {name}[{f}] differs')


check('first look')
# An application prints the curves alphabetically, sorting the list that it was given.
listing = las['C'].mnemonics()
listing.sort()
check('after the caller sorted its own list')

if errors:
    print('\n'.join(errors))
    sys.exit(1)
print('OK')
sys.exit(0)
