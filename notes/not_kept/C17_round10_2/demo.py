"""C17 demo 2: LIS unit conversion must give the same answer whatever the numeric type of the
value: bool, int, float, numpy floating and numpy integer scalars (True == 1,
numpy.int64(3) == 3 == 3.0).  Round trip and conversion via a third unit are checked for each
type in the LIS TIME category (and LENG / TEMP for good measure).
Exit 0 if all agree with the plain float conversion, exit 1 otherwise.
"""
import sys
import warnings

import numpy as np

from TotalDepth.LIS.core import Units

TYPES = (bool, int, float, np.float64, np.float32, np.int64, np.int32, np.int16, np.uint16, np.uint8)
# (value, from, to, third unit)
CASES = (
    (1, b'HR  ', b'S   ', b'MN  '),
    (10, b'HR  ', b'MN  ', b'S   '),
    (200, b'HR  ', b'MS  ', b'D   '),
    (30000, b'D   ', b'HR  ', b'MN  '),
    (30000, b'D   ', b'S   ', b'HR  '),
    (2 ** 52, b'HR  ', b'D   ', b'S   '),
    (2 ** 52, b'D   ', b'HR  ', b'S   '),
    (12, b'FEET', b'INCH', b'M   '),
    (100, b'DEGC', b'DEGF', b'DEGK'),
)


def close(a, b, rel):
    return abs(float(a) - float(b)) <= rel * max(1.0, abs(float(a)), abs(float(b)))


def main() -> int:
    warnings.simplefilter('ignore')
    failures = []
    for value, u_from, u_to, u_via in CASES:
        expected = Units.convert(float(value), u_from, u_to)
        for typ in TYPES:
            try:
                v = typ(value)
                if v != value:
                    continue
            except (OverflowError, ValueError):
                continue  # The value does not fit this type.
            rel = 1e-6 if typ is np.float32 else 1e-12
            name = f'{typ.__name__}({value}) {u_from} -> {u_to}'
            try:
                direct = Units.convert(v, u_from, u_to)
                via = Units.convert(Units.convert(v, u_from, u_via), u_via, u_to)
                back = Units.convert(direct, u_to, u_from)
            except Exception as err:
                failures.append(f'{name}: raised {type(err).__name__}: {err}')
                continue
            if not close(direct, expected, rel):
                failures.append(f'{name}: gave {direct} but the float conversion gives {expected}')
            if not close(via, direct, rel):
                failures.append(f'{name}: direct {direct} but via {u_via} {via}')
            if not close(back, value, rel):
                failures.append(f'{name}: there and back gave {back}')
    if failures:
        print(f'FAIL: {len(failures)} violations, first few:')
        for f in failures[:8]:
            print('  ', f)
        return 1
    print('OK')
    return 0


if __name__ == '__main__':
    sys.exit(main())
