"""C08 demo 1: a format specification survives encode then decode - every channel keeps its
size, samples, representation code and the bursts derived from them, whatever was decoded before.

Two format specifications are written and decoded one after the other in the same process.
The second one has a channel of the same size and samples as a channel of the first, but with
a narrower representation code (16 bit integers rather than 32 bit floats)."""
import sys

from TotalDepth.LIS.core import LogiRec, LisGen

RC_WIDTH = {66: 1, 79: 2, 73: 4, 68: 4}


def encode(entry_blocks, channels):
    ebs = LogiRec.EntryBlockSet()
    for eb in entry_blocks:
        ebs.setEntryBlock(eb)
    b = bytearray([LogiRec.LR_TYPE_DATA_FORMAT, 0])
    b.extend(ebs.lisBytes())
    for ch in channels:
        b.extend(LisGen.ChannelSpec(*ch).dsbBytes)
    return ebs, bytes(b)


def decode(b):
    return LogiRec.LrDFSRRead(LisGen.retFileFromBytes(bytes(LisGen.retSinglePr(b))))


def check(label, entry_blocks, channels):
    errors = []
    ebs, b = encode(entry_blocks, channels)
    dfsr = decode(b)
    for i in range(1, 17):
        if tuple(dfsr.ebs[i]) != tuple(ebs[i]):
            errors.append('{}: entry block {} is {} was {}'.format(label, i, tuple(dfsr.ebs[i]), tuple(ebs[i])))
    if len(dfsr.dsbBlocks) != len(channels):
        errors.append('{}: {} channels decoded, {} written'.format(label, len(dfsr.dsbBlocks), len(channels)))
    for dsb, (name, _sid, _sord, units, _api, _fno, size, sa, rc) in zip(dfsr.dsbBlocks, channels):
        got = (dsb.mnem, dsb.units, dsb.size, dsb.samples(0), dsb.repCode, dsb.subChannels, dsb.bursts(0))
        exp = (name, units, size, sa, rc, 1, size // (RC_WIDTH[rc] * sa))
        if got != exp:
            errors.append('{}: channel {} (mnem, units, size, samples, rc, subchannels, bursts) is {} expected {}'.format(
                label, name, got, exp))
    return errors


def main():
    errors = []
    # First format specification: a depth channel and one 32 bit float channel of four bytes.
    errors += check(
        'DFSR 1',
        [LogiRec.EntryBlock(LogiRec.EB_TYPE_FRAME_SPACE, 4, 68, 0.5),
         LogiRec.EntryBlock(LogiRec.EB_TYPE_FRAME_SPACE_UNITS, 4, 65, b'FEET')],
        [(b'DEPT', b'ServID', b'ServOrdN', b'FEET', 45310011, 256, 4, 1, 68),
         (b'GR  ', b'ServID', b'ServOrdN', b'GAPI', 45310011, 256, 4, 1, 68)],
    )
    # Second format specification: four bytes per frame again but as two 16 bit integers (two bursts),
    # and eight bytes that are two samples of two 16 bit integers.
    errors += check(
        'DFSR 2',
        [LogiRec.EntryBlock(LogiRec.EB_TYPE_FRAME_SPACE, 1, 66, 60),
         LogiRec.EntryBlock(LogiRec.EB_TYPE_FRAME_SPACE_UNITS, 4, 65, b'.1IN'),
         LogiRec.EntryBlock(LogiRec.EB_TYPE_UP_DOWN_FLAG, 1, 66, 255)],
        [(b'DEPT', b'ServID', b'ServOrdN', b'.1IN', 45310011, 256, 4, 1, 73),
         (b'CNTS', b'ServID', b'ServOrdN', b'CPS ', 45310011, 256, 4, 1, 79),
         (b'WF16', b'ServID', b'ServOrdN', b'MV  ', 45310011, 256, 8, 2, 79)],
    )
    for e in errors:
        print(e)
    if errors:
        print('FAIL: format specification did not survive encode then decode')
        return 1
    print('OK')
    return 0


if __name__ == '__main__':
    sys.exit(main())
