"""C18 demo 1: the LAS HTML summary of a LAS file that has a user defined section.

A LAS file may carry sections other than ~V ~W ~C ~P ~O ~A (here "~Tops" and "~Zones").
LASRead keeps their lines verbatim and LASToHTML must write every line, unchanged, into a
well-formed XHTML document.  Exit 0 if it does, 1 otherwise.
"""
import os
import sys
import tempfile
import xml.parsers.expat

from TotalDepth.LAS import LASToHTML

TOPS = ['BASE <CHALK> & "MARL" 1234.5', "TOP 'LIAS' > 2000 < 2100 ; a&b"]
ZONES = ['Z1. m 100 : <upper> & "lower"', 'Z2 -- not a data line --']

LAS = """~Version Information Section
VERS.            2.0 : CWLS Log ASCII Standard - VERSION 2.0
WRAP.            NO  : One line per depth step
~Well Information Section
STRT.M        100.0 : START DEPTH
STOP.M        101.0 : STOP DEPTH
STEP.M          0.5 : STEP
NULL.       -999.25 : NULL VALUE
WELL.   A<&>"' WELL : WELL
~Curve Information Section
DEPT.M              : Depth
GR  .GAPI           : Gamma <ray> & "more"
~Other Information Section
Free text with <markup> & 'quotes'
~Tops
{tops}
~Zones
{zones}
~A
100.0 10.0
100.5 11.0
101.0 12.0
""".format(tops='\n'.join(TOPS), zones='\n'.join(ZONES))


def text_of(document: str):
    """Parse with expat (undefined entities such as &nbsp; are tolerated because of the DOCTYPE).
    Returns the list of text runs, one per element content."""
    runs = []
    parser = xml.parsers.expat.ParserCreate()
    parser.buffer_text = True
    parser.CharacterDataHandler = runs.append
    # Element handlers so that the buffered text is flushed at every element boundary.
    parser.StartElementHandler = lambda name, attrs: None
    parser.EndElementHandler = lambda name: None
    parser.Parse(document, True)
    return runs


def main() -> int:
    with tempfile.TemporaryDirectory() as tmp:
        path_las = os.path.join(tmp, 'user_section.las')
        path_html = os.path.join(tmp, 'user_section.las.html')
        with open(path_las, 'w') as f:
            f.write(LAS)
        try:
            LASToHTML.las_file_to_html(path_las, path_html, 'LAS2.0', False, False, None)
        except Exception as err:
            print(f'FAIL: las_file_to_html() raised {err!r} for a LAS file with user defined sections')
            return 1
        with open(path_html) as f:
            document = f.read()
    try:
        runs = text_of(document)
    except xml.parsers.expat.ExpatError as err:
        print(f'FAIL: HTML is not well-formed: {err}')
        return 1
    for line in TOPS + ZONES + ["Free text with <markup> & 'quotes'", 'Gamma <ray> & "more"']:
        if line not in runs:
            print(f'FAIL: line {line!r} of the LAS file is not in the HTML summary unchanged')
            return 1
    print('OK: user defined sections are in the HTML summary, document is well-formed')
    return 0


if __name__ == '__main__':
    sys.exit(main())
