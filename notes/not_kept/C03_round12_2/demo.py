"""Every EFLR of a logical file is presented as a table. A second CHANNEL set in a logical file makes
LogicalFile.add_eflr() raise ExceptionLogicalFileAdd (it can not be used for the log pass); a caller that
indexes record by record, catches that and carries on must still find that record's table - and its
neighbours - in LogicalFile.eflrs, in file order."""
import io
import logging
import sys
from TotalDepth.RP66V1.core import Index, LogicalFile
from TotalDepth.RP66V1.core.LogicalRecord import EFLR

logging.disable(logging.CRITICAL)


def ident(b):
    return bytes([len(b)]) + b


def eflr_bytes(set_type, obj_name, value):
    return (b'\xf0' + ident(set_type) + b'\x34' + ident(b'VAL') + b'\x13'
            + b'\x70' + b'\x01\x00' + ident(obj_name) + b'\x21' + ident(value))


def segment(lr_type, payload):
    attrs = 0x80  # EFLR, single segment
    if len(payload) % 2:
        attrs |= 0x01  # has padding: one pad byte holding the pad count
        payload += b'\x01'
    return (len(payload) + 4).to_bytes(2, 'big') + bytes([attrs, lr_type]) + payload


def visible_record(seg):
    return (len(seg) + 4).to_bytes(2, 'big') + b'\xff\x01' + seg


records = [
    (0, eflr_bytes(b'FILE-HEADER', b'FH', b'hd')),
    (1, eflr_bytes(b'ORIGIN', b'OR', b'ori')),
    (3, eflr_bytes(b'CHANNEL', b'C1', b'one1')),
    (3, eflr_bytes(b'CHANNEL', b'C2', b'two2')),
    (5, eflr_bytes(b'PARAMETER', b'P1', b'par')),
]
sul = b'   1' + b'V1.00' + b'RECORD' + b' 8192' + b'ID'.ljust(60)
assert len(sul) == 80
data = sul + b''.join(visible_record(segment(t, p)) for t, p in records)

# Index record by record as LogicalIndex.__enter__ does, but tolerating records that can not be 'used'.
logical_files = []
raised = 0
with Index.LogicalRecordIndex(io.BytesIO(data)) as lr_index:
    for i in range(len(lr_index)):
        fld = lr_index.get_file_logical_data(i, 0, -1)
        eflr = EFLR.ExplicitlyFormattedLogicalRecord(fld.lr_type, fld.logical_data)
        if not logical_files or logical_files[-1].is_next(eflr):
            logical_files.append(LogicalFile.LogicalFile(lr_index, fld, eflr))
        else:
            try:
                logical_files[-1].add_eflr(fld, eflr)
            except LogicalFile.ExceptionLogicalFileAdd:
                raised += 1

errors = []
if len(logical_files) != 1:
    errors.append(f'{len(logical_files)} logical files, expected 1')
else:
    got = [(p.eflr.set.type, p.eflr.objects[0].name.I, p.eflr.objects[0][b'VAL'].value)
           for p in logical_files[0].eflrs]
    exp = [(b'FILE-HEADER', b'FH', [b'hd']), (b'ORIGIN', b'OR', [b'ori']), (b'CHANNEL', b'C1', [b'one1']),
           (b'CHANNEL', b'C2', [b'two2']), (b'PARAMETER', b'P1', [b'par'])]
    if got != exp:
        errors.append(f'tables of the logical file ({raised} add_eflr() call(s) raised):\n    got      {got}\n    expected {exp}')
if errors:
    print('PROPERTY VIOLATED:', *errors, sep='\n  ')
    sys.exit(1)
print('OK')
sys.exit(0)
