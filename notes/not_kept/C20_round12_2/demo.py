"""A DAT file must be identified as 'DAT' whatever its data content: here the same file with the
UTIM (Unix time, seconds) of the first row positive, zero and negative (a time before 1970)."""
import io, logging, sys
logging.disable(logging.CRITICAL)
from TotalDepth.util import bin_file_type

TEMPLATE = (
    'UTIM Unix Time sec\n'
    'DATE Date ddmmyy\n'
    'TIME Time hhmmss\n'
    'WAC Wits Activity Code unitless\n'
    'BDIA Bit Diameter inch\n'
    'UTIM        DATE    TIME        WAC BDIA\n'
    '{utim}  {date} {time}    0   8.50\n'
    '{utim2}  {date} {time}    0   8.50\n'
)
bad = 0
for utim, utim2, date, tm in (
        ('1165665534', '1165665554', '09Dec06', '11-58-54'),
        ('0', '20', '01Jan70', '00-00-00'),
        ('-86400', '-86380', '31Dec69', '00-00-00'),
        ('-20', '0', '31Dec69', '23-59-40'),
):
    by = TEMPLATE.format(utim=utim, utim2=utim2, date=date, time=tm).encode('ascii')
    fobj = io.BytesIO(by)
    result = bin_file_type.binary_file_type(fobj)
    if result != 'DAT':
        print(f'DAT file with first UTIM {utim} identified as {result!r}, expected "DAT"')
        bad += 1
    if fobj.tell() != 0:
        print('stream not at start'); bad += 1
sys.exit(1 if bad else 0)
