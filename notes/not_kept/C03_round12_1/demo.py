"""A repeated object that differs from the earlier one only in its UNITS must replace it
(DuplicateObjectStrategy.REPLACE_IF_DIFFERENT): the table must show the units that were encoded last."""
import logging
import sys
from TotalDepth.RP66V1.core.File import LogicalData
from TotalDepth.RP66V1.core.LogicalRecord import EFLR
from TotalDepth.RP66V1.core.LogicalRecord.Duplicates import DuplicateObjectStrategy

logging.disable(logging.CRITICAL)


def ident(b):
    return bytes([len(b)]) + b


def obj(units, value):
    # Object 'A' (origin 1, copy 0) with one attribute giving its own units and value.
    return b'\x70' + b'\x01\x00' + ident(b'A') + b'\x23' + ident(units) + ident(value)


data = (
    b'\xf0' + ident(b'PARAMETER')                    # Set, type only
    + b'\x36' + ident(b'VAL') + b'\x13' + ident(b'm')  # Template: label, rep code IDENT, units 'm'
    + obj(b'ft', b'x')
    + obj(b'm', b'x')                                # same object again, only the units differ
)


class Table(EFLR.ExplicitlyFormattedLogicalRecord):
    DUPE_OBJECT_STRATEGY = DuplicateObjectStrategy.REPLACE_IF_DIFFERENT
    DUPE_OBJECT_LOGGER = staticmethod(lambda *a, **k: None)


table = Table(5, LogicalData(data))
errors = []
if len(table) != 1:
    errors.append(f'expected 1 row, got {len(table)}')
else:
    cell = table[0][b'VAL']
    if (cell.count, cell.rep_code, cell.units, cell.value) != (1, 19, b'm', [b'x']):
        errors.append(f'cell is C={cell.count} R={cell.rep_code} U={cell.units} V={cell.value},'
                      f' expected C=1 R=19 U=b"m" V=[b"x"] (the later, different object)')
if errors:
    print('PROPERTY VIOLATED:', *errors, sep='\n  ')
    sys.exit(1)
print('OK')
sys.exit(0)
