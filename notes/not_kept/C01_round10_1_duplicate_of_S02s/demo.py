"""
Sequential read of an RP66V1 file where the caller peeks at the first bytes of each
Logical Record (FileRead.get_file_logical_data(position, 0, n)) between steps of the
sequential iteration.  The records yielded must be exactly the records written.
Exit 0: property holds.  Exit 1: violated.
"""
import io
import sys

from TotalDepth.RP66V1.core import File


def segment(payload: bytes, is_eflr: bool, lr_type: int, first: bool, last: bool) -> bytes:
    attr = (0x80 if is_eflr else 0) | (0 if first else 0x40) | (0 if last else 0x20)
    body = payload
    pad = 0
    while (4 + len(body) + pad) < 16 or (4 + len(body) + pad) % 2:
        pad += 1
    if pad:
        attr |= 0x01
        body = body + bytes([pad]) * pad
    return File.two_bytes_big_endian(4 + len(body)) + bytes([attr, lr_type]) + body


def build(records, seg_payload: int, vr_length: int, max_record_length: int = 8192) -> bytes:
    """records: list of (is_eflr, lr_type, payload).  Each payload is cut into seg_payload sized pieces and the segments
    are packed greedily into Visible Records no longer than vr_length."""
    segments = []
    for is_eflr, lr_type, payload in records:
        pieces = [payload[i:i + seg_payload] for i in range(0, len(payload), seg_payload)] or [b'']
        for p, piece in enumerate(pieces):
            segments.append(segment(piece, is_eflr, lr_type, p == 0, p == len(pieces) - 1))
    sul = File.create_storage_unit_label(1, b'V1.00', max_record_length, b'%-60s' % b'Default Storage Set')
    out = bytearray(sul.as_bytes())
    vr = bytearray()
    for seg in segments + [None]:
        if seg is None or 4 + len(vr) + len(seg) > vr_length:
            if vr:
                out += File.two_bytes_big_endian(4 + len(vr)) + b'\xff\x01' + vr
            vr = bytearray()
        if seg is not None:
            vr += seg
    return bytes(out)


def main() -> int:
    records = [
        (True, 0, bytes(range(40))),                            # one segment
        (True, 1, bytes(i % 251 for i in range(300))),          # several segments, several Visible Records
        (False, 0, bytes(i % 7 for i in range(90))),            # two segments
        (False, 0, b'\x01\x02\x03'),                            # one short segment
        (True, 3, bytes(i % 13 for i in range(500))),
        (False, 1, b'last'),
    ]
    file_bytes = build(records, seg_payload=60, vr_length=160)
    result = 0
    for peek in (2, 4):
        got = []
        try:
            with File.FileRead(io.BytesIO(file_bytes)) as fr:
                for fld in fr.iter_logical_records():
                    got.append((fld.lr_is_eflr, fld.lr_type, fld.logical_data.bytes))
                    # Peek at the first few bytes of the record just read, by random access.
                    head = fr.get_file_logical_data(fld.position, 0, peek)
                    if head.logical_data.bytes != fld.logical_data.bytes[:peek]:
                        print(f'peek={peek}: wrong peek {head.logical_data.bytes!r}')
                        result = 1
        except Exception as err:
            print(f'peek={peek}: sequential read raised {err!r} after {len(got)} of {len(records)} records')
            result = 1
        if got != records:
            print(f'peek={peek}: got {len(got)} records, expected {len(records)};'
                  f' first difference at {next((i for i, (a, b) in enumerate(zip(got, records)) if a != b), min(len(got), len(records)))}')
            result = 1
    # Same thing with the position iterator: full read then a partial read of each record.
    got = []
    try:
        with File.FileRead(io.BytesIO(file_bytes)) as fr:
            for pos_desc in fr.iter_logical_record_positions():
                fld = fr.get_file_logical_data(pos_desc.position)
                got.append((fld.lr_is_eflr, fld.lr_type, fld.logical_data.bytes))
                fr.get_file_logical_data(pos_desc.position, 1, 3)
    except Exception as err:
        print(f'positions: raised {err!r} after {len(got)} of {len(records)} records')
        result = 1
    if got != records:
        print(f'positions: got {len(got)} records, expected {len(records)}')
        result = 1
    print('FAIL' if result else 'OK')
    return result


if __name__ == '__main__':
    sys.exit(main())
