"""LIS table: round trip, transitivity and EngVal agreement must hold for every finite value,
including values that happen to equal well-log sentinels such as -999.25 (e.g. a depth of -999.25 ft)."""
import math
import sys

from TotalDepth.LIS.core import Units, EngVal

VALUES = [0.0, 1.0, -1.0, 32.0, -273.15, -999.0, -999.25, -999.5, 999.25, 9999.25, 1e-3, 12345.678]
TRIPLES = [
    (b'FEET', b'M   ', b'INCH'),
    (b'M   ', b'FEET', b'.1IN'),
    (b'DEGC', b'DEGF', b'DEGK'),
    (b'DEGF', b'DEGC', b'DEGR'),
]


def close(a, b):
    return math.isclose(a, b, rel_tol=1e-9, abs_tol=1e-9)


fails = []
for a, b, c in TRIPLES:
    mult_ab = Units.convert(1.0, a, b) - Units.convert(0.0, a, b)  # Slope of a->b
    off_ab = Units.convert(0.0, a, b)
    for v in VALUES:
        direct = Units.convert(v, a, b)
        # Affine law taken from two other points
        expect = v * mult_ab + off_ab
        if not close(direct, expect):
            fails.append(f'convert({v}, {a}, {b}) = {direct!r}, expected {expect!r}')
        back = Units.convert(direct, b, a)
        if not close(back, v):
            fails.append(f'round trip {v} {a}->{b}->{a} gives {back!r}')
        via = Units.convert(Units.convert(v, a, c), c, b)
        if not close(via, direct):
            fails.append(f'{v} {a}->{c}->{b} gives {via!r} but direct {a}->{b} gives {direct!r}')
        ev = EngVal.EngVal(v, a)
        if not close(ev.getInUnits(b), expect):
            fails.append(f'EngVal({v}, {a}).getInUnits({b}) = {ev.getInUnits(b)!r}, expected {expect!r}')

if fails:
    print('PROPERTY VIOLATED:')
    for f in fails:
        print('  ', f)
    sys.exit(1)
print('OK')
sys.exit(0)
