"""C20 demo 1: a valid LAS file whose '~V' section line is indented must still be identified as LAS.

Exit 0 when the property holds, 1 when it is violated.
"""
import io
import os
import sys
import tempfile

from TotalDepth.LAS.core import LASRead
from TotalDepth.util import bin_file_type

LAS_BODY = """{indent}~Version Information Section
 VERS.           {vers}   :   CWLS LOG ASCII STANDARD - VERSION {vers}
 WRAP.           NO    :   One line per depth step
~Well Information Section
#MNEM.UNIT       VALUE/NAME           DESCRIPTION
 STRT.M          1000.0000            :START DEPTH
 STOP.M          1001.0000            :STOP DEPTH
 STEP.M             0.5000            :STEP
 NULL.           -999.2500            :NULL VALUE
 WELL.           DEMO                 :WELL
~Curve Information Section
 DEPT.M                               :Depth
 GR  .GAPI                            :Gamma
~A  DEPT     GR
 1000.0   10.0
 1000.5   11.0
 1001.0   12.0
"""

failures = []


def check(title: str, text: str, expected: str) -> None:
    data = text.encode('ascii')
    # The file must be a LAS file that the library's own reader accepts.
    las = LASRead.LASRead(io.StringIO(text), title)
    if las.number_of_frames() != 3:
        failures.append(f'{title}: not a readable LAS file, frames={las.number_of_frames()}')
        return
    # By file object.
    fobj = io.BytesIO(data)
    result = bin_file_type.binary_file_type(fobj)
    if result != expected:
        failures.append(f'{title}: binary_file_type() gave {result!r} expected {expected!r}')
    if fobj.tell() != 0 or fobj.read() != data:
        failures.append(f'{title}: file not left readable from the start')
    # By path, as the batch tools do it (LASToHTML ignores anything not in LAS_BINARY_FILE_TYPES).
    with tempfile.TemporaryDirectory() as tmp:
        path = os.path.join(tmp, 'demo.las')
        with open(path, 'wb') as f:
            f.write(data)
        result = bin_file_type.binary_file_type_from_path(path)
    if result != expected:
        failures.append(f'{title}: binary_file_type_from_path() gave {result!r} expected {expected!r}')
    elif result not in bin_file_type.LAS_BINARY_FILE_TYPES:
        failures.append(f'{title}: {result!r} is not in LAS_BINARY_FILE_TYPES, the batch tool would ignore the file')


for vers, expected in (('2.0', 'LAS2.0'), ('1.2', 'LAS1.2')):
    for name, indent in (('no indent', ''), ('one blank', ' '), ('four blanks', '    '), ('TAB', '\t')):
        for eol_name, eol in (('LF', '\n'), ('CR LF', '\r\n')):
            text = LAS_BODY.format(indent=indent, vers=vers).replace('\n', eol)
            check(f'LAS {vers}, "~V" line with {name}, {eol_name}', text, expected)
    # Leading blank line and leading comment with the indented section line.
    text = '\n# A comment\n' + LAS_BODY.format(indent='  ', vers=vers)
    check(f'LAS {vers}, blank line, comment, then indented "~V" line', text, expected)

if failures:
    print('PROPERTY VIOLATED:')
    for failure in failures:
        print('  ' + failure)
    sys.exit(1)
print('OK: every LAS layout was identified as LAS.')
sys.exit(0)
