"""A caller that edits the list returned by indices() must not change what the selector says afterwards.

For every selector and length: take the index list, use it up the way a caller might (pop the indices off one by one,
or append a sentinel), then ask the same selector again.  The second answer must still be the right one and must still
agree with count(), first() and gen_indices().
"""
import sys

from TotalDepth.common import Slice

N = 9


def expected_sample(size, n):
    return [i * n // min(size, n) for i in range(min(size, n))] if n else []


def check(selector, n, expected, what):
    errors = []
    first_answer = selector.indices(n)
    if first_answer != expected:
        errors.append(f'{what} n={n}: indices() {first_answer} != {expected}')
    # The caller consumes its own list.
    while first_answer:
        first_answer.pop()
    first_answer.append(-1)
    again = selector.indices(n)
    generated = list(selector.gen_indices(n))
    count = selector.count(n)
    if again != expected:
        errors.append(f'{what} n={n}: after the caller edited its list indices() gives {again} not {expected}')
    if generated != expected:
        errors.append(f'{what} n={n}: gen_indices() gives {generated} not {expected}')
    if count != len(again) or count != len(expected):
        errors.append(f'{what} n={n}: count() {count} but indices() has {len(again)}, expected {len(expected)}')
    if expected and selector.first(n) != expected[0]:
        errors.append(f'{what} n={n}: first() {selector.first(n)} but the first index is {expected[0]}')
    return errors


def main():
    errors = []
    for n in range(N + 1):
        for size in range(1, N + 3):
            errors.extend(check(Slice.Sample(size), n, expected_sample(size, n), f'Sample({size})'))
        values = [None] + list(range(-N, N + 1))
        for start in values:
            for stop in values:
                for step in [None] + list(range(1, N + 1)):
                    errors.extend(
                        check(Slice.Slice(start, stop, step), n, list(range(n))[start:stop:step],
                              f'Slice({start},{stop},{step})')
                    )
    for error in errors[:8]:
        print(error)
    if errors:
        print(f'FAIL: {len(errors)} disagreement(s)')
        return 1
    print('OK')
    return 0


if __name__ == '__main__':
    sys.exit(main())
