"""A BIT log pass whose second data block has a length that can not be shared out between the
channels: the reader warns, drops that block and the rest of the file, and completes the pass with
what it has.  The frame count and the computed X axis must match the values actually recorded per
channel (here 4 frames), also when the caller catches the error himself and carries on."""
import io
import logging
import struct
import sys

from TotalDepth.BIT import ReadBIT

logging.disable(logging.CRITICAL)
CHANNELS = ['AAAA', 'BBBB', 'CCCC']
START, STOP, STEP = 1000.0, 900.0, 0.5


def header() -> bytes:
    b = b'\x00\x02\x00\x00' + b'D' * 72 + b'\x00\x0a\x00\x18\x00' + b' ' * 75 + b'\x00\x12\x00\x0b\x00\x06  '
    b += struct.pack('>HH', len(CHANNELS), 0)
    b += ''.join(CHANNELS).encode('ascii') + b'    ' * (20 - len(CHANNELS))
    for v in (START, STOP, STEP, 0.0, 16.0):
        b += ReadBIT.float_to_bytes(v)
    b += b'TAIL1234'
    assert len(b) == 276
    return b


def block(frames: int, base: float) -> bytes:
    """Channel-major block."""
    return b''.join(
        ReadBIT.float_to_bytes(base + 100.0 * c + f) for c in range(len(CHANNELS)) for f in range(frames)
    )


def tif_file(payloads) -> bytes:
    """payloads: list of (tif_type, bytes)."""
    out, prev, tell = b'', 0, 0
    for typ, payload in payloads:
        nxt = tell + 12 + len(payload)
        out += struct.pack('<3L', typ, prev, nxt) + payload
        prev, tell = tell, nxt
    return out


def check(what, bfa, expected_frames, errors):
    lengths = [ch.array.shape[0] for ch in bfa.frame_array.channels]
    names = [ch.ident for ch in bfa.frame_array.channels]
    if names != ['X   '] + CHANNELS:
        errors.append(f'{what}: channel names {names}')
    if bfa.frame_count != expected_frames:
        errors.append(f'{what}: frame_count {bfa.frame_count} but {expected_frames} values were recorded per channel')
    if lengths != [expected_frames] * len(lengths):
        errors.append(f'{what}: array lengths (X first) {lengths}, expected all {expected_frames}')
    x = bfa.frame_array.channels[0].array.reshape(-1)
    for i in range(min(len(x), expected_frames)):
        if abs(x[i] - (START - i * STEP)) > 1e-3:
            errors.append(f'{what}: X[{i}] = {x[i]}')
    for c in range(len(CHANNELS)):
        arr = bfa.frame_array.channels[c + 1].array.reshape(-1)
        for f in range(min(len(arr), 4)):
            if abs(arr[f] - (1.0 + 100.0 * c + f)) > 1e-3:
                errors.append(f'{what}: channel {c} frame {f} is {arr[f]}')


def main() -> int:
    errors = []
    good, good_2 = block(4, 1.0), block(2, 7.0)
    bad = block(4, 50.0) + b'\x41\x10'  # 50 bytes: not divisible by three channels
    # 1. Through the file reader.
    data = tif_file([(0, header()), (0, good), (0, bad), (0, good_2), (1, b''), (1, b'')])
    passes = ReadBIT.create_bit_frame_array_from_file(io.BytesIO(data))
    if len(passes) != 1:
        errors.append(f'file: {len(passes)} passes')
    else:
        check('file', passes[0], 4, errors)
    # 2. By hand, the caller catches the error and carries on with the next block.
    bfa = ReadBIT.BITFrameArray('0', ReadBIT.TifMarkedBytes(0, ReadBIT.TifType.DATA, header()))
    bfa.add_block(good)
    try:
        bfa.add_block(bad)
        errors.append('by hand: bad block accepted')
    except ReadBIT.ExceptionTotalDepthBITDataBlocks:
        pass
    bfa.add_block(good_2)
    bfa.complete()
    check('by hand', bfa, 6, errors)
    for e in errors:
        print('PROPERTY VIOLATED:', e)
    return 1 if errors else 0


if __name__ == '__main__':
    sys.exit(main())
