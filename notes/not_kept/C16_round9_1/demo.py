"""LIS frame index (RLEType01) built from (record position, frames in record, first X) triples
must map every frame number to its record and offset, and report the total frame count,
whatever numeric type the (strictly increasing) record positions have."""
import sys
import traceback

from TotalDepth.LIS.core import Rle


def check(label, triples, *rle_args, convert=lambda p: p):
    """Build the index and compare tellLrForFrame()/totalFrames() with a brute force model."""
    try:
        index = Rle.RLEType01(b'FEET', *rle_args)
        for pos, frames, x in triples:
            index.add(pos, frames, x)
        expected = [(convert(pos), off) for pos, frames, _x in triples for off in range(frames)]
        if index.totalFrames() != len(expected):
            return ['{}: totalFrames() {} != {}'.format(label, index.totalFrames(), len(expected))]
        errors = []
        for f, exp in enumerate(expected):
            got = index.tellLrForFrame(f)
            if got != exp:
                errors.append('{}: frame {} -> {} expected {}'.format(label, f, got, exp))
        return errors
    except Exception:
        return ['{}: index could not be built / queried:\n{}'.format(label, traceback.format_exc())]


def main():
    # Records 128 bytes apart, 4 frames each, then an irregular record with 2 frames.
    base = [(0, 4, 100.0), (128, 4, 102.0), (256, 4, 104.0), (1000, 2, 106.0), (1064, 2, 107.0)]
    errors = []
    # Plain integer positions.
    errors += check('int positions', base)
    # Integer positions, stored as floats by the conversion function (as in the library's own tests).
    errors += check('int positions, function=float', base, float)
    # Positions that arrive as (integral) floats, e.g. from an array of offsets.
    as_float = [(float(p), n, x) for p, n, x in base]
    errors += check('float positions', as_float)
    # The same, normalised back to int by the conversion function.
    errors += check('float positions, function=int', as_float, int, convert=int)
    if errors:
        print('PROPERTY VIOLATED')
        for e in errors:
            print(e)
        return 1
    print('OK')
    return 0


if __name__ == '__main__':
    sys.exit(main())
