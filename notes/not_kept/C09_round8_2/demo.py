"""The same log written with the NULL value as a float (-999.0) and as an integer (-999), wrapped and unwrapped.
Every reading must give the same channels: all the data values, unparseable ones replaced by the null value,
and the null valued entries of the non-index channels marked absent (masked)."""
import io
import logging
import sys

import numpy as np

from TotalDepth.LAS.core import LASRead

CURVES = [('DEPT', 'M'), ('GR', 'GAPI'), ('DT', 'US/F')]
# As written in the data section; 'n/a' can not be parsed and reads as the null value.
DATA = [['1000.0', '45.5', '-999'], ['1000.5', 'n/a', '121.5'], ['1001.0', '47.25', '122.0']]
NULL = -999.0
EXPECTED = [[NULL if v == 'n/a' else float(v) for v in frame] for frame in DATA]


def las_text(null_text, wrap):
    text = '~Version\n VERS.   2.0 : CWLS LOG ASCII STANDARD\n WRAP.   %s : wrap mode\n' % ('YES' if wrap else 'NO')
    text += '~Well\n STRT.M  1000.0 : START\n STOP.M  1001.0 : STOP\n STEP.M  0.5 : STEP\n'
    text += ' NULL.   %s : NULL VALUE\n' % null_text
    text += '~Curve\n' + ''.join(f' {m} .{u}   : {m.lower()}\n' for m, u in CURVES)
    text += '~A\n'
    for frame in DATA:
        text += (frame[0] + '\n' + ' '.join(frame[1:]) + '\n') if wrap else ('  '.join(frame) + '\n')
    return text


def main():
    logging.disable(logging.WARNING)
    errors = []
    for null_text in ('-999.0', '-999'):
        for wrap in (False, True):
            where = f'NULL written as {null_text!r}, wrap={wrap}'
            las = LASRead.LASRead(io.StringIO(las_text(null_text, wrap)), 'demo')
            if las.null_value != NULL:
                errors.append(f'{where}: null value is {las.null_value!r}')
            for c in range(len(CURVES)):
                array = las.frame_array[c].array
                values = [float(v) for v in np.ma.getdata(array)[:, 0]]
                expected = [frame[c] for frame in EXPECTED]
                if values != expected:
                    errors.append(f'{where}: channel {c} values {values} not {expected}')
                mask = [bool(v) for v in np.ma.getmaskarray(array)[:, 0]]
                expected_mask = [c > 0 and v == NULL for v in expected]
                if mask != expected_mask:
                    errors.append(f'{where}: channel {c} absent entries {mask} not {expected_mask}')
    for error in errors:
        print(error)
    print('FAIL' if errors else 'OK')
    return 1 if errors else 0


if __name__ == '__main__':
    sys.exit(main())
