"""LAS round trip of a frame array that holds NaN and +/-infinity (as logs with absent or saturated readings do).
Exit 0 when the LAS reads back as the same log, 1 otherwise."""
import io
import logging
import sys

import numpy as np

from TotalDepth.LAS.core import WriteLAS, LASRead
from TotalDepth.common import LogPass, Slice

DECIMALS = 3
SPECIALS = [float('nan'), float('inf'), float('-inf'), 12.3456, -0.0, 9.9996, 1e-320]


def make_frame_array():
    fa = LogPass.FrameArray('IDENT', 'Specials')
    fa.append(LogPass.FrameChannel('DEPT', 'Depth', 'M', (1,), np.float64))
    fa.append(LogPass.FrameChannel('GR', 'Gamma', 'GAPI', (1,), np.float64))
    fa.append(LogPass.FrameChannel('RHOB', 'Density', 'G/C3', (2,), np.float32))
    fa.init_arrays(len(SPECIALS))
    for f, v in enumerate(SPECIALS):
        fa['DEPT'][f] = 1000.0 + f / 2
        fa['GR'][f] = v
        fa['RHOB'][f] = [v, v]
    return fa


def same(src, got):
    if np.isnan(src):
        return bool(np.isnan(got))
    if np.isinf(src):
        return src == got
    return abs(float(src) - float(got)) <= 0.5 * 10 ** -DECIMALS


def main():
    logging.disable(logging.CRITICAL)
    fa = make_frame_array()
    errors = []
    for raise_on_error in (True, False):
        for method in sorted(WriteLAS.ARRAY_REDUCTIONS):
            out = io.StringIO()
            WriteLAS.write_las_header('specials.dlis', 0, 'demo', '0.0', [], out)
            WriteLAS.write_curve_and_array_section_to_las(
                fa, len(fa.x_axis), method, Slice.Slice(), set(), 16, f'.{DECIMALS}f', out)
            las = LASRead.LASRead(io.StringIO(out.getvalue()), 'demo', raise_on_error=raise_on_error)
            back = las.frame_array
            names = [(c.ident, c.units) for c in back.channels]
            if names != [('DEPT', 'M'), ('GR', 'GAPI'), ('RHOB', 'G/C3')]:
                errors.append(f'{method}: channels read back as {names}')
            if las.number_of_frames() != len(SPECIALS):
                errors.append(f'{method}: {las.number_of_frames()} frames read back, wrote {len(SPECIALS)}')
                continue
            for channel in fa.channels:
                for f in range(len(SPECIALS)):
                    with np.errstate(all='ignore'):
                        src = WriteLAS.array_reduce(channel.array[f], method)
                    got = np.ma.getdata(back[channel.ident].array)[f].flatten()[0]
                    if not same(src, got):
                        errors.append(
                            f'raise_on_error={raise_on_error} {method}: {channel.ident} frame {f}:'
                            f' wrote {src!r}, read back {got!r}'
                        )
    for e in errors[:12]:
        print('PROPERTY VIOLATED:', e)
    if errors:
        print(f'{len(errors)} difference(s) between the frame array written and the LAS read back')
        return 1
    print('OK: NaN and infinities survive the LAS round trip')
    return 0


if __name__ == '__main__':
    sys.exit(main())
