"""readLrBytes(theSize, theLd): 'If theLd is not None it is extended and returned'.
A caller that accumulates a logical record into its own bytearray by a split of
sized reads must find the whole record in that bytearray."""
import io, sys
from TotalDepth.LIS.core import PhysRec

LRS = [bytes(range(50)), bytes(range(200, 233))]
f = io.BytesIO()
w = PhysRec.PhysRecWrite(f, 'demo', hasTif=True, thePrLen=16,
                         thePrt=PhysRec.PhysRecTail(hasRecNum=True, fileNum=3, hasCheckSum=True))
tells = [w.writeLr(lr) for lr in LRS]
w.tif.close(w.stream)
r = PhysRec.PhysRecRead(io.BytesIO(f.getvalue()), 'demo')
ok = True
for t, lr in reversed(list(zip(tells, LRS))):
    r.seekLr(t)
    # Control: immutable accumulator, use the return value
    acc = r.readLrBytes(7, b'')
    acc = r.readLrBytes(-1, acc)
    if acc != lr:
        print('bytes accumulator: got', acc); ok = False
    r.seekLr(t)
    buf = bytearray()
    ret = r.readLrBytes(5, buf)
    r.skipLrBytes(3)
    ret2 = r.readLrBytes(-1, buf)
    exp = lr[:5] + lr[8:]
    if bytes(buf) != exp or ret is not buf or ret2 is not buf:
        print('bytearray accumulator at 0x%x: expected %d bytes in the buffer, got %d: %r' % (t, len(exp), len(buf), bytes(buf)))
        ok = False
sys.exit(0 if ok else 1)
