"""C14 - DAT mud-log files parse to their declared channels and values.

Bounded exhaustive enumeration of DAT texts produced from a content model (models/dat_ref.py) and of
every single-line corruption of them, run through DAT_parser.parse_file / can_parse_file (and parse_path
for a slice of the valid texts) and judged by an independent reference reader.
"""
import datetime
import io
import itertools
import json
import os
import re
import shutil
import tempfile

from mc.run import Result
from models import dat_ref

ID = 'C14'
LEVEL = 'exploration'
ENGINE = 'E1 small-scope enumerator'
TECHNIQUE = ('bounded exhaustive enumeration of generated DAT texts and of all their single-line corruptions, '
             'each parsed by the real DAT_parser and compared with an independent reference reader')
DESIGN_REF = 'DESIGN.md section 4, C14; section 5, F22'
SINGLE_OUTCOME_OK = False
BOUNDS = {
    'quick': 'UTIM/DATE/TIME + 1..3 further channels (WAC, HVMX, PIT1): every declaration order x 4 separator styles x every '
             'header (UTIM DATE TIME + every ordered non-empty subset) with one row; 2 orders x every header x 0..3 rows x all 12 '
             'date forms (12, 144, 144 combinations for 1, 2, 3 rows); corruptions: 24 (k=1), 12 (k=2), 6 (k=3) declaration '
             'orders x 3 separator styles x every header x 0..3 rows x every single-line corruption of every line; '
             'part dates: one-row texts over years 1955..2050 (every two digit year but 51..54) x 12 months x days {1, 9, 28, 29, 30, last} '
             'x 2 spellings x padded / unpadded day (quick: a third of the interior, all of years 00, 50, 55, 99 and of first / last days)',
    'thorough': 'as quick with a second channel pool (ROP, ECDW, GAS), 3 rows in all 1728 date combinations, 4 separator styles '
                'and 24 / 120 / 60 declaration orders under corruption; part dates in full',
}
RULE = ('valid texts: product of declaration order, separator style, header subset/order, row count and date spelling as in '
        'the bounds, each once; corrupted texts: for every line of a base text each of delete, duplicate, blank, insert blank, '
        'drop each field, add a field at each position, replace each field by x, rename each header name to an undeclared '
        'one, replace each field of a data line (and each numeric word elsewhere) by a 20 digit number and by -5 / -2.5; '
        'non-trivial = has at least one data row (valid) / every corrupted text; outcome = verdict of the implementation '
        '(channels, frames, values or the class of error) together with the reference verdict')
ASSUMPTIONS = [
    'text is read through io.StringIO (parse_path only for a slice of the valid texts); lines end with a line feed (part rows: also carriage return + line feed)',
    'a corrupted text may always be refused with a DAT error; a returned result has to agree with the reference reading',
    'where the statement leaves a text open (blank lines among the declarations, malformed declaration lines, UTIM/DATE/TIME with other units, '
    'numbers before 1970, a header with no further name, no header at all) both refusal and a consistent result are accepted',
    'a blank line after the header is a data line without fields: it does not match the header and the text has to be refused',
    'descriptions are compared after whitespace normalisation',
    'can_parse_file: True is required for a valid text with at least one row, False for a text that has to be refused '
    'judging by everything up to the first line after the header; nothing else is required of it',
    'two digit years 00..50 (20yy) and 55..99 (19yy); 51..54 are left out (the 50/51 pivot is pinned by the unit tests for 50 and 55, not in between)',
]
LEVEL_TEXT = ('Every text of the stated small scope and every single-line corruption of the corruption bases is executed '
              'against the real parser; within that scope a wrong channel, description, unit, frame count, value, value type, '
              'an accepted malformed file or a foreign exception cannot be missed.')
LEVEL_NOTE = ('Bounded: at most 6 declarations, 3 data rows, one corruption per text; the reference reader '
              '(models/dat_ref.py) is trusted and is cross-checked against the producer on every valid text.')

BASE = [('UTIM', ['Unix', 'Time'], 'sec'), ('DATE', ['Date'], 'ddmmyy'), ('TIME', ['Time'], 'hhmmss')]
POOLS = [
    [('WAC', ['Wits', 'Activity', 'Code'], 'unitless'), ('HVMX', ['Heave'], 'm'), ('PIT1', ['Tank', 'Volume', 'Pit', '1'], 'm3')],
    [('ROP', ['ROP'], 'm/hr'), ('ECDW', ['ECD', 'at', 'Weakest', 'Depth'], 'g/cc'), ('GAS', ['Total', 'Gas'], '%')],
    # ordinary numeric channels that merely share their *units* with the three time columns: the statement types a
    # column by what it is (the Unix-time, date and time columns), the others are floats
    [('LAGT', ['Lag', 'Time'], 'sec'), ('DAYC', ['Day', 'Count'], 'ddmmyy'), ('TOFF', ['Time', 'Offset'], 'hhmmss')],
]
# pool 3: a rig that logs thousands of channels - the header and every data row are lines of more than 8192 / 16384 characters
POOLS.append([('C%04d' % i, ['Chan', str(i)], 'm') for i in range(3000)])
SEPS = [(' ', ' '), ('\t', ' '), ('  ', ' '), ('\t', '\t')]
FLOATS = [('0', 0.0), ('8.50', 8.5), ('3131.07', 3131.07), ('269999', 269999.0), ('0.7', 0.7), ('10.00', 10.0), ('1.1976', 1.1976),
          ('1e-05', 1e-05), ('-2.5', -2.5)]       # what repr() / %g write for small and for negative numbers
TIMES = [(11, 50, 17), (0, 0, 5), (23, 59, 59), (7, 8, 9)]
NDATE = 12
BIG = '99999999999999999999'
UNDECLARED = 'ZZ9'
RE_NUMERIC = re.compile(r'^[0-9]+(\.[0-9]+)?$')


# ---------------------------------------------------------------------------------------------
# case descriptor -> model
# ---------------------------------------------------------------------------------------------
def date_variant(v):
    """12 forms: spelling A/B x day (9, 09, 17) x century (2006, 1975); or an explicit [year, month, day, spelling, pad]."""
    if isinstance(v, (list, tuple)):
        return tuple(v)
    spelling = 'AB'[v % 2]
    form = (v // 2) % 3
    year, month = ((2006, 12), (1975, 2))[(v // 6) % 2]
    day, pad = ((9, False), (9, True), (17, True))[form]
    return year, month, day, spelling, pad


def build_model(case):
    pool = POOLS[case['pool']]
    table = {d[0]: d for d in BASE + pool}
    decls = [table[n] for n in case['decl']]
    others = [n for n in case['hdr'] if n not in ('UTIM', 'DATE', 'TIME')]
    rows = []
    for i, v in enumerate(case['dv']):
        year, month, day, spelling, pad = date_variant(v)
        h, m, s = TIMES[i % len(TIMES)]
        values = {}
        for c, name in enumerate(others):
            values[name] = FLOATS[(2 * i + 3 * c + (v if isinstance(v, int) else day)) % len(FLOATS)]
        row = {'when': datetime.datetime(year, month, day, h, m, s), 'date': (spelling, pad), 'values': values}
        if not isinstance(v, int):
            row['utim_when'] = datetime.datetime(2006, 12, 9, h, m, s)   # the Unix time column stays after 1970 whatever the date
        rows.append(row)
    return {'decls': decls, 'sep': SEPS[case['sep']], 'header': list(case['hdr']), 'rows': rows}


def headers(others):
    out = []
    for r in range(1, len(others) + 1):
        for sub in itertools.permutations(others, r):
            out.append(['UTIM', 'DATE', 'TIME'] + list(sub))
    full = ['UTIM', 'DATE', 'TIME'] + list(others)   # the full header in declared order first
    out.remove(full)
    return [full] + out


# ---------------------------------------------------------------------------------------------
# corruptions
# ---------------------------------------------------------------------------------------------
def tokens(line):
    parts = re.split(r'(\s+)', line)
    return parts[0::2], parts[1::2]


def untoken(toks, seps):
    out = []
    for i, t in enumerate(toks):
        out.append(t)
        if i < len(toks) - 1:
            out.append(seps[i])
    return ''.join(out)


def corruptions(lines, sections, model):
    """Every single-line corruption of the text, simplest first.  Each is a JSON-able list."""
    used = set(model['header'])
    unused = [d[0] for d in model['decls'] if d[0] not in used]
    out = []
    for L, (line, sec) in enumerate(zip(lines, sections)):
        toks, _ = tokens(line)
        n = len(toks)
        if sec == 'decl' and toks[0] in used:
            out.append(['deldecl', L])
        else:
            out.append(['del', L])
        out.append(['dup', L])
        out.append(['blank', L])
        out.append(['insblank', L])
        for i in range(n):
            out.append(['drop', L, i])
        if sec == 'data':
            adds = ['1']
        elif sec == 'decl':
            adds = ['x']
        else:
            adds = [UNDECLARED] + unused[:1] + [toks[-1]]
        for tok in adds:
            for p in range(n + 1):
                out.append(['add', L, p, tok])
        for i in range(n):
            out.append(['x', L, i])
        if sec == 'hdr':
            for i in range(n):
                out.append(['rename', L, i])
        for i in range(n):
            if sec == 'data' or RE_NUMERIC.match(toks[i]):
                out.append(['big', L, i])
                out.append(['neg', L, i, '-5'])
                out.append(['neg', L, i, '-2.5'])
            if sec == 'data':
                out.append(['neg', L, i, '12%'])        # not a number, and a format character for whoever builds the error text
    out.append(['insblank', len(lines)])
    return out


def apply_corruption(lines, cor, between):
    kind, L = cor[0], cor[1]
    lines = list(lines)
    if kind in ('del', 'deldecl'):
        del lines[L]
    elif kind == 'dup':
        lines.insert(L, lines[L])
    elif kind == 'blank':
        lines[L] = ''
    elif kind == 'insblank':
        lines.insert(L, '')
    else:
        toks, seps = tokens(lines[L])
        if kind == 'drop':
            i = cor[2]
            del toks[i]
            if seps:
                del seps[min(i, len(seps) - 1)]
        elif kind == 'add':
            p = cor[2]
            toks.insert(p, cor[3])
            seps.insert(min(p, len(seps)), between)
        elif kind == 'x':
            toks[cor[2]] = 'x'
        elif kind == 'rename':
            toks[cor[2]] = UNDECLARED
        elif kind == 'big':
            toks[cor[2]] = BIG
        elif kind == 'neg':
            toks[cor[2]] = cor[3]
        else:
            raise ValueError(cor)
        lines[L] = untoken(toks, seps)
    return lines


def case_text(case):
    """-> (text, model, expected-or-None)"""
    if 'text' in case:
        return case['text'], None, None
    model = build_model(case)
    lines, sections = dat_ref.produce_lines(model)
    if case.get('cor'):
        lines = apply_corruption(lines, case['cor'], model['sep'][0])
        return dat_ref.join_lines(lines), model, None
    text = dat_ref.join_lines(lines)
    if case.get('nofinal'):
        text = text[:-1]          # the last line is not terminated by a newline: still the same lines
    if case.get('crlf'):
        text = text.replace('\n', '\r\n')   # the same lines as a DOS / Windows tool writes them
    return text, model, dat_ref.expected(model)


# ---------------------------------------------------------------------------------------------
# observing the implementation
# ---------------------------------------------------------------------------------------------
def _kind_of(array):
    if array.dtype.kind == 'f':
        return 'float'
    if array.dtype.kind != 'O':
        return str(array.dtype)
    if array.size == 0:
        return 'object0'   # an empty object column: nothing to tell a datetime from a date
    kinds = set()
    for v in array.ravel().tolist():
        if type(v) is datetime.datetime:
            kinds.add('datetime')
        elif type(v) is datetime.date:
            kinds.add('date')
        elif type(v) is datetime.time:
            kinds.add('time')
        else:
            kinds.add(type(v).__name__)
    if not kinds:
        return 'object'
    return kinds.pop() if len(kinds) == 1 else '+'.join(sorted(kinds))


def extract(frame_array):
    obs = {'channels': [], 'kinds': [], 'columns': [], 'frames': [], 'shape_ok': True}
    for ch in frame_array.channels:
        obs['channels'].append((ch.ident, ch.long_name, ch.units))
        arr = ch.array
        obs['frames'].append(len(arr))
        if arr.ndim != 2 or arr.shape[1] != 1:
            obs['shape_ok'] = False
            obs['columns'].append([])
            obs['kinds'].append('shape%r' % (arr.shape,))
            continue
        obs['kinds'].append(_kind_of(arr))
        obs['columns'].append(arr[:, 0].tolist())
    return obs


def observe_parse(text, path=None):
    from TotalDepth.DAT import DAT_parser
    try:
        if path is None:
            fa = DAT_parser.parse_file(io.StringIO(text))
        else:
            fa = DAT_parser.parse_path(path)
    except DAT_parser.ExceptionDAT as err:
        return ('dat_error', type(err).__name__, str(err))
    except Exception as err:  # noqa - anything else is what the property forbids
        return ('exception', type(err).__name__, str(err))
    global _EARLIER
    now = extract(fa)
    changed = None
    if _EARLIER is not None and repr(extract(_EARLIER[0])) != _EARLIER[1]:
        changed = 'the frame array returned by an earlier parse reads differently after this parse: %s, when it was returned %s' % (
            repr(extract(_EARLIER[0]))[:300], _EARLIER[1][:300])
    _EARLIER = (fa, repr(now))      # a result the caller still holds
    if changed:
        return ('exception', 'EarlierResultChanged', changed)
    if path is not None:
        # a copy of the result (shallow, deep, through pickle - the library's tools pickle what they read) used like the original
        import copy
        import pickle
        for how, fn in (('copy.copy', copy.copy), ('copy.deepcopy', copy.deepcopy), ('pickle', lambda x: pickle.loads(pickle.dumps(x)))):
            try:
                twin = repr(extract(fn(fa)))
            except Exception as err:  # noqa
                return ('exception', 'CopyRaises', '%s of the parsed frame array: %s: %s' % (how, type(err).__name__, err))
            if twin != repr(now):
                return ('exception', 'CopyDiffers', '%s of the parsed frame array reads %s, the original %s' % (how, twin[:300], repr(now)[:300]))
    return ('ok', now)


_EARLIER = None


def observe_can(text):
    from TotalDepth.DAT import DAT_parser
    try:
        return ('ok', DAT_parser.can_parse_file(io.StringIO(text)))
    except Exception as err:  # noqa
        return ('exception', type(err).__name__, str(err))


def same_handle_history(text, first):
    from TotalDepth.DAT import DAT_parser
    f = io.StringIO(text)
    out = []
    try:
        DAT_parser.can_parse_file(f)
        a = extract(DAT_parser.parse_file(f))
        b = extract(DAT_parser.parse_file(f))
    except Exception as err:  # noqa
        return [({'kind': 'same_handle_history_raises', 'exc': type(err).__name__},
                 'can_parse_file(f), parse_file(f), parse_file(f) on one file object: %s: %s\ntext: %s' % (type(err).__name__, err, _show(text)))]
    for which, o in (('first', a), ('second', b)):
        if repr(o) != repr(first):
            out.append(({'kind': 'same_handle_history_differs'},
                        'the %s parse_file(f) after can_parse_file(f) on the same file object differs from a parse of a fresh one\ntext: %s' % (which, _show(text))))
            break
    return out


def _show(text):
    return repr(text if len(text) < 700 else text[:700] + '...')


# ---------------------------------------------------------------------------------------------
# the oracle for one text
# ---------------------------------------------------------------------------------------------
def judge(text, exp):
    """exp: expected(model) for an uncorrupted text, None for a corrupted one.
    Returns (bad, outcome): bad = [(sig, msg)], outcome = hashable digest of what was observed."""
    bad = []
    ref = dat_ref.ref_parse(text)
    obs = observe_parse(text)
    can = observe_can(text)
    if obs[0] == 'ok':
        o = obs[1]
        digest = ('ok', tuple(o['channels']), tuple(o['frames']), tuple(o['kinds']), repr(o['columns']))
    else:
        digest = obs[:2] + (re.sub(r'[0-9]+', '#', obs[2])[:60],)
    outcome = (digest, can[:2], ref.status, ref.why)

    if exp is not None:
        # producer and reader must agree before the implementation is judged (harness error otherwise)
        if not ref.certain or dat_ref.ref_as_expected(ref) != exp:
            raise AssertionError('reference reader and producer disagree on %r: %s' % (text, ref.summary()))
        if obs[0] == 'dat_error':
            bad.append(({'kind': 'valid_rejected'},
                        'parse_file refused a valid file with %s: %s\ntext: %s' % (obs[1], obs[2], _show(text))))
        elif obs[0] == 'exception':
            bad.append(({'kind': 'non_dat_exception', 'exc': obs[1], 'field': None},
                        'parse_file raised %s (%s) on a valid file\ntext: %s' % (obs[1], obs[2], _show(text))))
        else:
            for what, msg in dat_ref.compare_expected(obs[1], exp):
                bad.append(({'kind': 'misread', 'what': what, 'valid': True},
                            'parse_file of a valid file: %s\ntext: %s' % (msg, _show(text))))
        if can[0] == 'exception':
            bad.append(({'kind': 'non_dat_exception', 'exc': can[1], 'field': None},
                        'can_parse_file raised %s (%s) on a valid file\ntext: %s' % (can[1], can[2], _show(text))))
        elif exp['frames'] >= 1 and can[1] is not True:
            bad.append(({'kind': 'can_parse_false_on_valid'},
                        'can_parse_file returned %r for a valid file with %d rows\ntext: %s' % (can[1], exp['frames'], _show(text))))
        if obs[0] == 'ok':
            # one file object used the way a tool uses it: asked whether it can be parsed, parsed, and parsed again
            bad.extend(same_handle_history(text, obs[1]))
        return bad, outcome

    if ref.status == 'outside':
        return bad, outcome
    if obs[0] == 'exception':
        bad.append(({'kind': 'non_dat_exception', 'exc': obs[1], 'field': ref.field if ref.status == 'reject' else None},
                    'parse_file raised %s (%s): neither a DAT error nor a parse; reference: %s\ntext: %s'
                    % (obs[1], obs[2], ref.summary(), _show(text))))
    elif obs[0] == 'ok':
        o = obs[1]
        if ref.status == 'reject':
            bad.append(({'kind': 'accepted_invalid', 'why': ref.why},
                        'parse_file returned channels %r (%r frames) for a file that has to be refused: %s\ntext: %s'
                        % ([c[0] for c in o['channels']], o['frames'], ref.detail, _show(text))))
        elif ref.status == 'noheader':
            if o['channels']:
                bad.append(({'kind': 'accepted_invalid', 'why': 'no_header'},
                            'parse_file returned channels %r for a text with no header line\ntext: %s'
                            % ([c[0] for c in o['channels']], _show(text))))
        else:
            for what, msg in dat_ref.compare(o, ref):
                bad.append(({'kind': 'misread', 'what': what, 'valid': False},
                            'parse_file result disagrees with the (corrupted) text: %s; reference: %s\ntext: %s'
                            % (msg, ref.summary(), _show(text))))
    # discovery probe: sees the text up to the first line after the header
    if can[0] == 'ok' and can[1] is False:
        return bad, outcome
    ref1 = dat_ref.ref_parse(text, max_data_lines=1)
    if can[0] == 'exception':
        bad.append(({'kind': 'non_dat_exception', 'exc': can[1], 'field': ref1.field if ref1.status == 'reject' else None},
                    'can_parse_file raised %s (%s) instead of returning False; reference: %s\ntext: %s'
                    % (can[1], can[2], ref1.summary(), _show(text))))
    elif can[1] is True and ref1.status in ('reject', 'noheader'):
        bad.append(({'kind': 'can_parse_true_on_invalid', 'why': ref1.why},
                    'can_parse_file returned True for a file whose first lines have to be refused: %s\ntext: %s'
                    % (ref1.detail or ref1.why, _show(text))))
    elif can[1] not in (True, False):
        bad.append(({'kind': 'can_parse_not_bool'}, 'can_parse_file returned %r\ntext: %s' % (can[1], _show(text))))
    return bad, outcome


def judge_path(text, exp, directory):
    """parse_path on a file holding the text must give what parse_file gives / what the model says."""
    path = os.path.join(directory, 'c14_%d.dat' % os.getpid())
    with open(path, 'w', newline='') as f:
        f.write(text)
    try:
        obs = observe_parse(text, path=path)
    finally:
        os.remove(path)
    if obs[0] != 'ok':
        return [({'kind': 'parse_path_failed', 'exc': obs[1]},
                 'parse_path raised %s (%s) on a valid file\ntext: %s' % (obs[1], obs[2], _show(text)))]
    return [({'kind': 'misread', 'what': what, 'valid': True, 'via': 'parse_path'},
             'parse_path of a valid file: %s\ntext: %s' % (msg, _show(text)))
            for what, msg in dat_ref.compare_expected(obs[1], exp)]


# ---------------------------------------------------------------------------------------------
# enumeration
# ---------------------------------------------------------------------------------------------
def _pools(tier):
    return [0, 2] if tier == 'quick' else [0, 1, 2]


def _cor_orders(tier, k):
    nperm = len(list(itertools.permutations(range(3 + k))))
    if tier == 'quick':
        stride = {1: 1, 2: 10, 3: 120}[k]
    else:
        stride = {1: 1, 2: 1, 3: 12}[k]
    return list(range(0, nperm, stride))


def shards(tier):
    dat_ref.selftest()
    out = []
    for y0 in range(1955, 2051, 8):
        out.append({'part': 'dates', 'pool': 0, 'k': 1, 'years': [y for y in range(y0, min(y0 + 8, 2051))]})
    out.append({'part': 'wide', 'pool': 3, 'k': 0})
    for pool in _pools(tier):
        for k in (1, 2, 3):
            if pool == 2 and tier == 'quick' and k == 3:
                continue
            nperm = len(list(itertools.permutations(range(3 + k))))
            chunk = 60
            for lo in range(0, nperm, chunk):
                out.append({'part': 'orders', 'pool': pool, 'k': k, 'lo': lo, 'hi': min(nperm, lo + chunk)})
            for sep in range(len(SEPS)):
                out.append({'part': 'rows', 'pool': pool, 'k': k, 'sep': sep})
            if pool == 2 and tier == 'quick':
                continue
            orders = _cor_orders(tier, k)
            nsep = 3 if tier == 'quick' else 4
            if k == 3:
                for o in orders:
                    for sep in range(nsep):
                        out.append({'part': 'cor', 'pool': pool, 'k': k, 'orders': [o], 'seps': [sep]})
            elif k == 2:
                for o in orders:
                    out.append({'part': 'cor', 'pool': pool, 'k': k, 'orders': [o], 'seps': list(range(nsep))})
            else:
                for i in range(0, len(orders), 4):
                    out.append({'part': 'cor', 'pool': pool, 'k': k, 'orders': orders[i:i + 4], 'seps': list(range(nsep))})
    return out


def _names(pool, k):
    return [d[0] for d in BASE] + [d[0] for d in POOLS[pool][:k]]


def _dv_combos(n, tier):
    if n == 0:
        return [[]]
    if n == 1:
        return [[a] for a in range(NDATE)]
    if n == 2:
        return [[a, b] for a in range(NDATE) for b in range(NDATE)]
    if tier == 'quick':
        return [[a, b, (a + b + 1) % NDATE] for a in range(NDATE) for b in range(NDATE)]
    return [[a, b, c] for a in range(NDATE) for b in range(NDATE) for c in range(NDATE)]


def _run_valid(res, case, directory=None):
    text, model, exp = case_text(case)
    bad, outcome = judge(text, exp)
    if directory is not None:
        bad += judge_path(text, exp, directory)
        res.count('parse_path_texts')
    res.case(json.dumps(case, sort_keys=True), nontrivial=len(case['dv']) >= 1, outcome=outcome,
             sample=case if len(case['dv']) == 2 else None)
    res.count('valid_texts')
    for sig, msg in bad:
        res.violate(sig, case, msg)


def run_shard(shard, tier):
    res = Result()
    if shard['part'] == 'wide':
        # rows just below and above 8192 characters (1000-1400 channels of 5-7 characters) and far above (3000 channels)
        for k in (1000, 1150, 1200, 1250, 1400, 3000):
            wide = [d[0] for d in POOLS[3][:k]]
            for sep in (0, 1, 2):
                for extra in ({}, {'crlf': 1}):
                    _run_valid(res, dict({'pool': 3, 'decl': ['UTIM', 'DATE', 'TIME'] + wide, 'sep': sep, 'hdr': ['UTIM', 'DATE', 'TIME'] + wide, 'dv': [0, 5]}, **extra))
        return res
    pool, k = shard['pool'], shard['k']
    names = _names(pool, k)
    others = names[3:]
    perms = list(itertools.permutations(range(len(names))))
    hdrs = headers(others)
    if shard['part'] == 'orders':
        from mc import seams
        os.makedirs(seams.SCRATCH, exist_ok=True)
        directory = tempfile.mkdtemp(prefix='c14-', dir=seams.SCRATCH)
        try:
            for pi in range(shard['lo'], shard['hi']):
                decl = [names[i] for i in perms[pi]]
                for sep in range(len(SEPS)):
                    for hi, hdr in enumerate(hdrs):
                        case = {'pool': pool, 'decl': decl, 'sep': sep, 'hdr': hdr, 'dv': [(pi + hi + sep) % NDATE]}
                        if hi == 0:
                            case['path'] = True
                        _run_valid(res, case, directory if hi == 0 else None)
        finally:
            shutil.rmtree(directory, ignore_errors=True)
    elif shard['part'] == 'dates':
        # every calendar date form: each two digit year, each month, first / 28th / 29th / 30th / last day, both spellings
        import calendar
        for year in shard['years']:
            for month in range(1, 13):
                last = calendar.monthrange(year, month)[1]
                for day in sorted({1, 9, 28, 29, 30, last} - {d for d in (29, 30) if d > last}):
                    for spelling in 'AB':
                        for pad in ((False, True) if day < 10 else (True,)):
                            if tier == 'quick' and (month + day + year) % 3 and day not in (1, last) and year % 100 not in (0, 50, 55, 99):
                                continue
                            _run_valid(res, {'pool': pool, 'decl': list(names), 'sep': 0, 'hdr': hdrs[0],
                                             'dv': [[year, month, day, spelling, pad]]})
                            res.count('calendar_dates')
    elif shard['part'] == 'rows':
        from mc import seams
        os.makedirs(seams.SCRATCH, exist_ok=True)
        directory = tempfile.mkdtemp(prefix='c14-', dir=seams.SCRATCH)
        for decl in (list(names), list(reversed(names))):
            for hi, hdr in enumerate(hdrs):
                for n in range(0, 4):
                    for di, dv in enumerate(_dv_combos(n, tier)):
                        # the by-path twin of the parser on texts of 0, 1 and 2 rows (first header, first date form)
                        by_path = hi == 0 and di == 0 and n <= 2
                        _run_valid(res, dict({'pool': pool, 'decl': decl, 'sep': shard['sep'], 'hdr': hdr, 'dv': dv}, **({'path': True} if by_path else {})),
                                   directory if by_path else None)
                    for dv in _dv_combos(n, tier)[:2]:
                        _run_valid(res, {'pool': pool, 'decl': decl, 'sep': shard['sep'], 'hdr': hdr, 'dv': dv, 'nofinal': 1})
                        _run_valid(res, {'pool': pool, 'decl': decl, 'sep': shard['sep'], 'hdr': hdr, 'dv': dv, 'crlf': 1})
                        _run_valid(res, {'pool': pool, 'decl': decl, 'sep': shard['sep'], 'hdr': hdr, 'dv': dv, 'crlf': 1, 'nofinal': 1})
        shutil.rmtree(directory, ignore_errors=True)
    else:
        for pi in shard['orders']:
            decl = [names[i] for i in perms[pi]]
            for sep in shard['seps']:
                for hi, hdr in enumerate(hdrs):
                    for n in range(0, 4):
                        start = (pi + hi + sep + n) % NDATE
                        base = {'pool': pool, 'decl': decl, 'sep': sep, 'hdr': hdr,
                                'dv': [(start + 5 * i) % NDATE for i in range(n)]}
                        model = build_model(base)
                        lines, sections = dat_ref.produce_lines(model)
                        res.count('corruption_bases')
                        for cor in corruptions(lines, sections, model):
                            case = dict(base, cor=cor)
                            text = dat_ref.join_lines(apply_corruption(lines, cor, model['sep'][0]))
                            bad, outcome = judge(text, None)
                            res.case(json.dumps(case, sort_keys=True), nontrivial=True, outcome=outcome,
                                     sample=case if cor[0] == 'big' and n == 2 else None)
                            res.count('corrupted_texts')
                            res.count('cor_' + cor[0])
                            res.count('ref_' + outcome[2])
                            res.count('impl_' + outcome[0][0])
                            for sig, msg in bad:
                                res.violate(sig, case, msg + '\ncorruption: %r' % (cor,))
    return res


def replay(case):
    text, model, exp = case_text(case)
    bad, _ = judge(text, exp)
    if exp is not None and case.get('path'):
        from mc import seams
        os.makedirs(seams.SCRATCH, exist_ok=True)
        directory = tempfile.mkdtemp(prefix='c14-', dir=seams.SCRATCH)
        try:
            bad += judge_path(text, exp, directory)
        finally:
            shutil.rmtree(directory, ignore_errors=True)
    return [{'sig': sig, 'case': case, 'msg': msg} for sig, msg in bad]
