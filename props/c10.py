"""C10 - LAS written by TotalDepth reads back as the same log.  Exhaustive small-scope enumeration.

Subject: TotalDepth.LAS.core.WriteLAS.write_curve_section_to_las, write_array_section_header_to_las,
write_array_section_data_to_las (and the wrapper write_curve_and_array_section_to_las that the converters call)
applied to a TotalDepth.common.LogPass.FrameArray built here, cell by cell.

Oracle (all arithmetic in this file is exact: fractions.Fraction / decimal.Decimal on the values *we* stored):
  * the written text, wrapped in a minimal ~V and ~W section, is read back twice: by TotalDepth's LASRead and by an
    independent splitter (section lines by prefix, data rows split on white space, tokens read as exact decimals);
  * names, units, order, frame count;
  * every value within half a unit of the last *printed* decimal of the exact reduction of the source cell
    (+ the float rounding that a mean / even median in the channel's own float type may legitimately carry,
    + one float64 ulp for the value LASRead holds);
  * the curve section, the ~A heading and every data row list {first channel} U requested subset (empty = all);
  * the caller's `channels` set is not changed by any call (F20).
"""
import decimal
import io
import itertools
import logging
import math
import re
from fractions import Fraction

from mc.run import Result, h64

ID = 'C10'
LEVEL = 'exploration'
ENGINE = 'E1 small-scope enumerator'
TECHNIQUE = 'bounded exhaustive enumeration of frame arrays x write options; write -> read round trip through two readers against exact rational arithmetic'
DESIGN_REF = 'DESIGN.md section 4, C10 (+ domain note); section 5, F20'
SINGLE_OUTCOME_OK = False
LEVEL_TEXT = ('every frame array / option combination inside the stated bounds was written by the real writer and read back '
              'by the real reader and by an independent splitter; inside the bounds a violation cannot be missed except '
              'where the mean/median float-rounding allowance (a few ulp of the largest cell of the frame) hides it')
LEVEL_NOTE = ('trusted: numpy stores the values we assign and returns them through tolist(); Python decimal/fractions; '
              'nothing of TotalDepth is used to compute an expected value.  Small-scope: <= 3 channels, <= 3 frames, <= 4 values per frame')
BOUNDS = {
    'quick': 'family A (1 channel): 10 dtypes x 4 dims x every rotation of the value alphabet + an index ramp x frames {1,3} x 5 reductions '
             'x subsets {none, unknown} x 3 (width, format) pairs; family B (2 channels): 2 index specs x 40 (dtype, dims) x 2 rotations x 2 frames '
             'x 5 reductions x 6 subsets x 2 pairs; family C (3 channels): 1 index spec x 40 x 1 rotation x 2 frames x 5 reductions x 10 subsets; '
             'three name/unit schemes',
    'thorough': 'family A: 10 dtypes x 4 dims x every rotation + ramp x frames {1,2,3} x 5 reductions x subsets {none, index, unknown} x widths {16,8,1} '
                'x formats {.3f,.0f,.6f}; family B: 4 index specs x 40 x every 2nd rotation x frames {1,2,3} x 5 reductions x 6 subsets x 5 pairs; '
                'family C: 2 index specs x 40 x every 4th rotation x frames {1,2,3} x 5 reductions x 10 subsets x 3 pairs x 3 name schemes',
}
RULE = ('product of (channel specs, frames, reduction, subset, field width, float format, name scheme) per family, each tuple once; '
        'cases whose index channel is not distinct at the printed precision are outside the domain and skipped (counted); '
        'non-trivial = a subset is requested, or a channel has several values per frame, or a printed value is wider than the field; '
        'outcome = hash of the text the writer produced (or of the exception)')
ASSUMPTIONS = [
    'names, units and descriptions come from an alphabet a LAS header line can represent (no blank/dot/colon in names and units, no colon in descriptions, '
    'not numeric, not yes/no; the names TIME and DATE are used with ordinary units only, TIME.HHMMSS / DATE.D columns are outside the statement)',
    'index values are distinct at the printed precision (DESIGN domain note): LAS itself rejects a duplicate index',
    'integer values are bounded by |v| <= 2**53 (the reader holds float64)',
    'the precision is that of the token actually printed (integer channels are printed without decimals)',
    'a mean / even-count median is allowed (n+1) ulp of the largest cell of the frame in the channel\'s float type (float64 for integers): '
    'the statement does not ask for an exactly rounded mean',
    'an empty requested subset means all channels (documented convention of the writer)',
    'the ~A heading is read as the text after the two characters "~A" split on white space',
]

DTYPES = ['f8', 'f4', 'i4', 'i8', 'u1', 'i1', 'i2', 'u2', 'u4', 'u8']
DIMS = [(1,), (3,), (2, 2), (1, 3)]      # (1, 3): several values per frame behind a leading dimension of one
METHODS = ['first', 'mean', 'median', 'min', 'max']
WIDTHS = [16, 8, 1]
FORMATS = ['.3f', '.0f', '.6f']
FRAMES = [1, 2, 3]
UNKNOWN = 'ZZZ'
SCHEMES = [
    {'names': ['DEPT', 'GR', 'A1'], 'units': ['m', 'gAPI', ''], 'longs': ['Depth', 'Gamma Ray', 'Res. deep (a/b)']},
    {'names': ['TIME1', 'X_2', 'LONGNAME12'], 'units': ['FEET', 'US/F', '%'], 'longs': ['Elapsed time', 'x', 'Long-name 12']},
    # ordinary numeric channels that are merely *called* TIME and DATE (only TIME.HHMMSS and DATE.D are time / date columns)
    {'names': ['DEPT', 'TIME', 'DATE'], 'units': ['m', 'S', 'd'], 'longs': ['Depth', 'Elapsed time', 'Day count']},
    # the two units TotalDepth's LAS reader has a LAS-to-LIS translation for, on the index channel and elsewhere
    {'names': ['DEPT', 'TENS', 'WF'], 'units': ['F', 'F', 'mts'], 'longs': ['Depth', 'Tension', 'Wave']},
    {'names': ['DEPTH', 'WF', 'TENS'], 'units': ['mts', 'mts', 'F'], 'longs': ['Depth', 'Wave', 'Tension']},
    # lower and mixed case names: a name is text, not a keyword
    {'names': ['Dept', 'Gr', 'rhob'], 'units': ['m', 'gAPI', 'g/cm3'], 'longs': ['depth', 'gamma ray', 'bulk density']},
]
# index channel specs used when there is more than one channel (dtype, dims); pattern is always the ramp 'idx'
XSPECS = [('f8', (1,)), ('i4', (1,)), ('f4', (3,)), ('u2', (2, 2))]
PAIRS5 = [(16, '.3f'), (8, '.0f'), (1, '.6f'), (8, '.6f'), (1, '.3f')]

HEAD = ('~Version Information Section\n'
        'VERS.   2.0 : CWLS Log ASCII Standard - VERSION 2.0\n'
        'WRAP.   NO  : One line per depth step\n'
        '~Well Information Section\n'
        'STRT.m  0.0 : START\n'
        'STOP.m  0.0 : STOP\n'
        'STEP.m  0.0 : STEP\n'
        'NULL.   -999.25 : NULL\n')

TWO53 = 2 ** 53
RE_DECIMAL = re.compile(r'^[-+]?(\d+(\.\d*)?|\.\d+)([eE][-+]?\d+)?$')
_MANT = {'f4': 24, 'f8': 53}


# ---------------------------------------------------------------------------------------------
# source model
# ---------------------------------------------------------------------------------------------
def alphabet(dt):
    """Value alphabet of a dtype, simplest first, as Python numbers (floats are cast to the dtype when stored)."""
    import numpy as np
    if dt[0] == 'f':
        fi = np.finfo(np.dtype(dt))
        return [0.0, 1.5, -1.5, 1e-4, -1e-4, 123456.789, -123456.789, 1e15, -1e15,
                float(fi.max), float(fi.min), float(fi.tiny), -0.0,
                # neighbours of the LAS NULL value -999.25: values of the log, never absent ones
                -999.251, -999.245, -999.0]
    ii = np.iinfo(np.dtype(dt))
    lo, hi = max(int(ii.min), -TWO53), min(int(ii.max), TWO53)
    out = []
    for v in [0, 1, -1, 2, -2, 100, -100, 123456, -123457, 10 ** 15, -10 ** 15, hi, lo, hi - 1, lo + 1]:
        if lo <= v <= hi and v not in out:
            out.append(v)
    # 64 bit types: neighbours whose sum leaves the type although each value (and their mean) is exact in a double
    if dt == 'i8':
        out += [2 ** 62, 2 ** 62 + 1024, -2 ** 62, -2 ** 62 - 1024]
    elif dt == 'u8':
        out += [2 ** 63, 2 ** 63 + 2048]
    return out


def n_rot(dt):
    return len(alphabet(dt))


def cells_for(dt, dims, pat, frames):
    """Python numbers for each frame, C order: list (per frame) of list (count values)."""
    count = 1
    for d in dims:
        count *= d
    out = []
    if pat == 'idx':
        for i in range(frames):
            if dt[0] == 'f':
                out.append([1000.5 + 3.0 * i + 0.25 * j for j in range(count)])
            else:
                out.append([1 + 5 * i + j for j in range(count)])
        return out
    vals = alphabet(dt)
    assert count <= len(vals)
    for i in range(frames):
        out.append([vals[(pat + i * count + j) % len(vals)] for j in range(count)])
    return out


def build_frame_array(case):
    """Build the FrameArray of a case; return (frame_array, stored) with stored[ch][frame] = list of exact Fractions."""
    import numpy as np
    from TotalDepth.common import LogPass
    fa = LogPass.FrameArray('C10', 'generated frame array')
    frames = case['frames']
    stored = []
    for (dt, dims, pat), name, unit, long_name in zip(case['chs'], case['names'], case['units'], case['longs']):
        dims = tuple(dims)
        fa.append(LogPass.FrameChannel(name, long_name, unit, dims, np.dtype(dt)))
    fa.init_arrays(frames)
    for ch, (dt, dims, pat) in zip(fa.channels, case['chs']):
        dims = tuple(dims)
        cells = cells_for(dt, dims, pat, frames)
        arr = np.array(cells, dtype=np.dtype(dt)).reshape((frames,) + dims)
        ch.array[...] = arr
        back = ch.array.reshape(frames, -1).tolist()   # Python floats (exact value of the f4/f8) or Python ints
        stored.append([[Fraction(v) for v in row] for row in back])
        if dt[0] != 'f':
            assert back == cells, (back, cells)
    return fa, stored


def ulp_of(x, mant):
    """ulp of |x| (a Fraction) in a binary float format with `mant` significant bits (no subnormal handling needed: only ever an allowance)."""
    if x == 0:
        return Fraction(0)
    x = abs(x)
    e = x.numerator.bit_length() - x.denominator.bit_length()   # 2**(e-1) <= x < 2**(e+1)
    if Fraction(2) ** e > x:
        e -= 1                                                    # now 2**e <= x < 2**(e+1)
    return Fraction(2) ** (e - mant + 1)


def reduce_exact(vals, method, dt):
    """Exact reduction of one frame's cells and the rounding allowance of the method in the channel's float type."""
    n = len(vals)
    extra = Fraction(0)
    if method == 'first':
        r = vals[0]
    elif method == 'min':
        r = min(vals)
    elif method == 'max':
        r = max(vals)
    elif method == 'mean':
        r = sum(vals) / n
        if n > 1:
            extra = (n + 1) * ulp_of(max(abs(v) for v in vals), _MANT.get(dt, 53))
    elif method == 'median':
        s = sorted(vals)
        if n % 2:
            r = s[n // 2]
        else:
            r = (s[n // 2 - 1] + s[n // 2]) / 2
            extra = 3 * ulp_of(max(abs(s[n // 2 - 1]), abs(s[n // 2])), _MANT.get(dt, 53))
    else:
        raise AssertionError(method)
    return r, extra


def index_in_domain(case, exact):
    """DESIGN domain note: the index values must be distinct at the printed precision.  For every frame the set of multiples
    of the last printed unit that a correct writer may print (half a unit + rounding allowance either side) is computed;
    the sets of different frames must be disjoint."""
    if case['frames'] < 2:
        return True
    dt = case['chs'][0][0]
    unit = Fraction(1, 10 ** int(case['fmt'][1:-1])) if dt[0] == 'f' else Fraction(1)
    spans = []
    for r, extra in exact[0]:
        lo = math.ceil((r - unit / 2 - extra) / unit)
        hi = math.floor((r + unit / 2 + extra) / unit)
        spans.append((lo, hi))
    spans.sort()
    return all(a[1] < b[0] for a, b in zip(spans, spans[1:]))


def expected_channels(case):
    sub = case['subset']
    return [i for i, nm in enumerate(case['names']) if not sub or i == 0 or nm in sub]


# ---------------------------------------------------------------------------------------------
# independent reader
# ---------------------------------------------------------------------------------------------
def split_las(text):
    """Tiny LAS splitter.  Returns dict(curves=[(mnem, unit)], heading=[...] or None, rows=[[tok,...]]) or a string (why not)."""
    lines = text.split('\n')
    curves, heading, rows = [], None, []
    state = None
    seen_c = False
    for line in lines:
        s = line.strip()
        if not s or s.startswith('#'):
            continue
        if s.startswith('~'):
            if state == 'A':
                return 'section line after the ~A section: %r' % s
            state = s[1:2].upper()
            if state == 'C':
                seen_c = True
            if state == 'A':
                heading = s[2:].split()
            continue
        if state == 'C':
            dot = s.find('.')
            if dot < 0:
                return 'curve line without a dot: %r' % s
            mnem = s[:dot].strip()
            rest = s[dot + 1:]
            m = re.match(r'[^ :]*', rest)
            curves.append((mnem, m.group(0)))
        elif state == 'A':
            rows.append(s.split())
    if not seen_c:
        return 'no ~C section'
    if heading is None:
        return 'no ~A section'
    return {'curves': curves, 'heading': heading, 'rows': rows}


def token_value(tok):
    """(exact value, unit of the last printed digit) of a printed number, or None."""
    if not RE_DECIMAL.match(tok):
        return None
    d = decimal.Decimal(tok)
    if not d.is_finite():
        return None
    exp = d.as_tuple().exponent
    return Fraction(d), (Fraction(10) ** exp)


# ---------------------------------------------------------------------------------------------
# the oracle on one written text
# ---------------------------------------------------------------------------------------------
def judge_text(case, text, exact, label, heading_valid=True):
    """Compare one LAS text (curve section + ~A section as written by the library) with the source.
    Returns (list of (sig, msg), info dict)."""
    from TotalDepth.LAS.core import LASRead
    bad = []
    info = {'wide': False, 'cells': 0}
    exp_idx = expected_channels(case)
    exp_names = [case['names'][i] for i in exp_idx]
    exp_units = [case['units'][i] for i in exp_idx]
    frames = case['frames']
    fw = case['fw']
    method = case['method']

    def add(sig, msg):
        bad.append((sig, '[%s] %s' % (label, msg)))

    # ---- independent splitter
    sp = split_las(text)
    units_of_tokens = None
    if isinstance(sp, str):
        add({'kind': 'las_structure', 'why': sp.split(':')[0]}, sp)
    else:
        names = [c[0] for c in sp['curves']]
        if names != exp_names:
            add({'kind': 'channel_list', 'where': 'curve_section'},
                'curve section lists %r, expected first channel + requested = %r' % (names, exp_names))
        elif [c[1] for c in sp['curves']] != exp_units:
            add({'kind': 'units', 'via': 'splitter'}, 'curve section units %r, expected %r' % ([c[1] for c in sp['curves']], exp_units))
        if heading_valid and sp['heading'] != exp_names:
            add({'kind': 'channel_list', 'where': 'heading'}, '~A heading lists %r, expected %r' % (sp['heading'], exp_names))
        rows = sp['rows']
        if len(rows) != frames:
            add({'kind': 'frame_count', 'via': 'splitter'}, '%d data rows, expected %d frames' % (len(rows), frames))
        shape_ok = len(rows) == frames
        for r, toks in enumerate(rows):
            if any(len(t) > fw for t in toks):
                info['wide'] = True
            if len(toks) != len(exp_names):
                shape_ok = False
                if len(toks) < len(exp_names) and any(len(t) > fw for t in toks):
                    add({'kind': 'columns_fused'},
                        'data row %d has %d columns %r, expected %d (a value as wide as the field ran into its neighbour?)'
                        % (r, len(toks), toks[:4], len(exp_names)))
                else:
                    add({'kind': 'channel_list', 'where': 'data_rows', 'count': 'fewer' if len(toks) < len(exp_names) else 'more'},
                        'data row %d has %d columns %r, expected %d (%r)' % (r, len(toks), toks[:4], len(exp_names), exp_names))
        if shape_ok:
            units_of_tokens = []
            for r, toks in enumerate(rows):
                urow = []
                for c, tok in enumerate(toks):
                    ci = exp_idx[c]
                    dt = case['chs'][ci][0]
                    want, extra = exact[ci][r]
                    tv = token_value(tok)
                    info['cells'] += 1
                    if tv is None:
                        urow.append(None)
                        add({'kind': 'value_not_a_number', 'via': 'splitter', 'dtype': dt[0]},
                            'frame %d channel %s printed as %r' % (r, case['names'][ci], tok))
                        continue
                    got, unit = tv
                    urow.append(unit)
                    if abs(got - want) > unit / 2 + extra:
                        add({'kind': 'value', 'via': 'splitter', 'method': method, 'dtype': dt[0]},
                            'frame %d channel %s (%s %s): printed %s but the %s of the source cells is %s (allowed half a unit of %s + %s)'
                            % (r, case['names'][ci], dt, tuple(case['chs'][ci][1]), tok, method, _show(want), _show(unit), _show(extra)))
                units_of_tokens.append(urow)

    # ---- TotalDepth's reader
    full = HEAD + text
    try:
        las = LASRead.LASRead(io.StringIO(full), 'C10')
        fa = las.frame_array
    except Exception as err:  # noqa
        msg = str(err)
        why = 'duplicate_index' if 'Duplicate Xaxis' in msg else 'column_count' if 'columns but found' in msg else 'other'
        add({'kind': 'reader_rejects', 'error': type(err).__name__, 'why': why}, 'LASRead refuses the written text: %s: %s' % (type(err).__name__, msg[:300]))
        return bad, info
    if fa is None or len(fa) == 0:
        add({'kind': 'reader_no_frame_array'}, 'LASRead gives no frame array')
        return bad, info
    import numpy as np
    got_names = [c.ident for c in fa.channels]
    got_units = [c.units for c in fa.channels]
    if got_names != exp_names:
        add({'kind': 'names', 'via': 'LASRead'}, 'read back channel names %r, expected %r' % (got_names, exp_names))
    elif got_units != exp_units:
        add({'kind': 'units', 'via': 'LASRead'}, 'read back units %r, expected %r' % (got_units, exp_units))
    n_read = len(fa.x_axis.array)
    if n_read != frames or las.number_of_frames() != frames:
        add({'kind': 'frame_count', 'via': 'LASRead'}, 'read back %d frames, expected %d' % (n_read, frames))
    elif got_names == exp_names and units_of_tokens is not None:
        for c, ch in enumerate(fa.channels):
            ci = exp_idx[c]
            dt = case['chs'][ci][0]
            data = np.ma.getdata(ch.array).reshape(frames, -1)
            mask = np.ma.getmaskarray(ch.array).reshape(frames, -1)
            for r in range(frames):
                # a value is absent only when it *is* the file's NULL (-999.25 in every generated header)
                if mask[r][0] and not data[r][0] == -999.25:
                    add({'kind': 'value_masked', 'via': 'LASRead', 'dtype': dt[0]},
                        'frame %d channel %s read back as absent (masked) but holds %r, not the NULL value -999.25'
                        % (r, case['names'][ci], data[r][0]))
                unit = units_of_tokens[r][c]
                if unit is None:
                    continue
                try:
                    v = float(data[r][0])
                except (TypeError, ValueError):
                    add({'kind': 'value_not_a_number', 'via': 'LASRead', 'dtype': dt[0]},
                        'frame %d channel %s read back as %r, not a number' % (r, case['names'][ci], data[r][0]))
                    continue
                want, extra = exact[ci][r]
                if not math.isfinite(v):
                    add({'kind': 'value_not_a_number', 'via': 'LASRead', 'dtype': dt[0]}, 'frame %d channel %s read back as %r' % (r, case['names'][ci], v))
                    continue
                fv = Fraction(v)
                if abs(fv - want) > unit / 2 + extra + ulp_of(fv, 53):
                    add({'kind': 'value', 'via': 'LASRead', 'method': method, 'dtype': dt[0]},
                        'frame %d channel %s (%s %s): read back %r but the %s of the source cells is %s (allowed half a unit of %s + %s + 1 ulp)'
                        % (r, case['names'][ci], dt, tuple(case['chs'][ci][1]), v, method, _show(want), _show(unit), _show(extra)))
    return bad, info


def _show(fr):
    """Readable rendering of a Fraction."""
    if fr.denominator == 1:
        s = str(fr.numerator)
        return s if len(s) <= 24 else '%s...(%d digits)' % (s[:12], len(s))
    try:
        return '%.17g' % float(fr)
    except OverflowError:
        return str(fr)[:40]


def _raise_sig(function, err, case):
    cause = 'other'
    if isinstance(err, ValueError) and case['fw'] < 2 and 'format specifier' in str(err):
        cause = 'heading_width_below_zero'      # f'{ident:>{field_width - 2}}' with field_width < 2
    return {'kind': 'writer_raises', 'function': function, 'error': type(err).__name__, 'cause': cause}


# ---------------------------------------------------------------------------------------------
# one case
# ---------------------------------------------------------------------------------------------
def evaluate(case):
    """Run one case.  Returns (violations [(sig, msg)], outcome, flags dict).  flags['skipped'] = outside the domain."""
    from TotalDepth.LAS.core import WriteLAS
    from TotalDepth.common import Slice
    logging.disable(logging.WARNING)
    flags = {'skipped': False, 'wide': False, 'cells': 0, 'texts': 0}
    fa, stored = build_frame_array(case)
    method = case['method']
    exact = [[reduce_exact(cells, method, spec[0]) for cells in ch] for ch, spec in zip(stored, case['chs'])]
    if not index_in_domain(case, exact):
        flags['skipped'] = True
        return [], None, flags
    frames, fw, fmt = case['frames'], case['fw'], case['fmt']
    requested = set(case['subset'])
    bad = []

    def mutated(fn, arg):
        # Mutation of the caller's set is NOT part of C10's statement (the written sections stay consistent with each
        # other); it is what makes a batch depend on processing order, so it is decided by C12.  Here it is only counted.
        if arg != requested:
            flags['caller_set_mutated'] = True

    # (0) a batch that carries on after a refused write: a frame array one of whose channels was never loaded is given to the data
    # writer first (it refuses with ValueError, part way through a row); what is written afterwards must not carry anything of it
    try:
        from TotalDepth.common import LogPass as _LP
        import numpy as _np
        poison = _LP.FrameArray('P', 'refused')
        for nm in ('PX', 'PA', 'PB'):
            poison.append(_LP.FrameChannel(nm, nm, 'm', (1,), _np.dtype('f8')))
        poison.init_arrays(2)
        poison.channels[0].array[...] = [[1.0], [2.0]]
        poison.channels[1].array[...] = [[3.0], [4.0]]
        poison.channels[2].init_array(0)
        WriteLAS.write_array_section_data_to_las(poison, 'first', set(), 16, '.3f', io.StringIO())
    except Exception:  # noqa  (how this one is refused is not judged)
        pass
    # (1) the wrapper the converters call, one set object passed through (observe_at of the property)
    t1 = None
    arg = set(requested)
    out = io.StringIO()
    try:
        WriteLAS.write_curve_and_array_section_to_las(fa, frames, method, Slice.Slice(), arg, fw, fmt, out)
        t1 = out.getvalue()
    except Exception as err:  # noqa
        bad.append((_raise_sig('write_curve_and_array_section_to_las', err, case),
                    'write_curve_and_array_section_to_las raised %s: %s' % (type(err).__name__, str(err)[:200])))
    mutated('write_curve_and_array_section_to_las', arg)

    # (2) the three functions one by one, each with its own copy of the caller's set
    parts = []
    heading_valid = True
    complete = True
    calls = [
        ('write_curve_section_to_las', lambda a, o: WriteLAS.write_curve_section_to_las(fa, a, o)),
        ('write_array_section_header_to_las',
         lambda a, o: WriteLAS.write_array_section_header_to_las(fa, frames, method, Slice.Slice(), a, fw, o)),
        ('write_array_section_data_to_las',
         lambda a, o: WriteLAS.write_array_section_data_to_las(fa, method, a, fw, fmt, o)),
    ]
    for fn, call in calls:
        arg = set(requested)
        out = io.StringIO()
        try:
            call(arg, out)
            parts.append(out.getvalue())
        except Exception as err:  # noqa
            bad.append((_raise_sig(fn, err, case), '%s raised %s: %s' % (fn, type(err).__name__, str(err)[:200])))
            if fn == 'write_array_section_header_to_las':
                parts.append('~A\n')        # keep going: the data rows can still be judged without the heading
                heading_valid = False
            else:
                complete = False
        mutated(fn, arg)
    t2 = ''.join(parts) if complete else None

    if t1 is not None:
        b, info = judge_text(case, t1, exact, 'write_curve_and_array_section_to_las')
        bad.extend(b)
        flags['wide'] |= info['wide']
        flags['cells'] += info['cells']
        flags['texts'] += 1
    if t2 is not None and t2 != t1:
        b, info = judge_text(case, t2, exact, 'three writers called one by one', heading_valid)
        bad.extend(b)
        flags['wide'] |= info['wide']
        flags['cells'] += info['cells']
        flags['texts'] += 1
    # (3) the frame array is the caller's: after being written with one reduction it is written with 'first' as a fresh copy is
    if method != 'first' and any(len(spec[1]) > 1 or spec[1][0] > 1 for spec in case['chs']) and t1 is not None:
        texts = []
        for obj in (fa, build_frame_array(case)[0]):
            out = io.StringIO()
            try:
                WriteLAS.write_curve_and_array_section_to_las(obj, frames, 'first', Slice.Slice(), set(requested), fw, fmt, out)
                texts.append(out.getvalue())
            except Exception as err:  # noqa
                texts.append('%s: %s' % (type(err).__name__, err))
        if texts[0] != texts[1]:
            bad.append(({'kind': 'frame_array_changed_by_writing', 'method': method},
                        "after a write with reduction %r the same frame array written with 'first' differs from a fresh copy written with 'first':\n%s\n-- fresh:\n%s"
                        % (method, texts[0][-400:], texts[1][-400:])))
    outcome = h64((t1, t2 if t2 != t1 else None, [s['kind'] for s, _ in bad]))
    return bad, outcome, flags


# ---------------------------------------------------------------------------------------------
# enumeration
# ---------------------------------------------------------------------------------------------
def _subsets(names):
    """All subsets of the channel names (by size), then the unknown name alone and with the last channel."""
    out = []
    for k in range(len(names) + 1):
        for comb in itertools.combinations(names, k):
            out.append(list(comb))
    out.append([UNKNOWN])
    if len(names) > 1:
        out.append([names[-1], UNKNOWN])
    return out


def shards(tier):
    out = []
    for di in range(len(DTYPES)):
        for ki in range(len(DIMS)):
            out.append({'fam': 'A', 'dt': di, 'dims': ki})
    xs_b = range(2) if tier == 'quick' else range(4)
    for x in xs_b:
        for di in range(len(DTYPES)):
            for ki in range(len(DIMS)):
                out.append({'fam': 'B', 'x': x, 'dt': di, 'dims': ki})
    out.append({'fam': 'N'})
    xs_c = [2] if tier == 'quick' else [0, 3]
    for x in xs_c:
        for di in range(len(DTYPES)):
            for ki in range(len(DIMS)):
                out.append({'fam': 'C', 'x': x, 'dt': di, 'dims': ki})
    return out


def _mk(scheme, chs, frames, method, subset, fw, fmt):
    n = len(chs)
    sc = SCHEMES[scheme]
    return {'names': sc['names'][:n], 'units': sc['units'][:n], 'longs': sc['longs'][:n],
            'chs': [[dt, list(dims), pat] for dt, dims, pat in chs],
            'frames': frames, 'method': method, 'subset': subset, 'fw': fw, 'fmt': fmt}


def cases_of(shard, tier):
    quick = tier == 'quick'
    fam = shard['fam']
    if fam == 'N':
        # every frame count of a range and round numbers beyond it (the writer may work in blocks of rows)
        counts = list(range(1, 131)) + [150, 192, 200, 250, 256, 300, 384, 400, 500, 512, 1000, 1024] + ([] if quick else [2000, 2048, 4096, 5000, 10000])
        for n in counts:
            yield _mk(0, [('f8', (1,), 'idx'), ('f4', (1,), 3)], n, 'first', [], 16, '.3f')
            if n % 5 == 0 or not quick:
                yield _mk(0, [('i4', (1,), 'idx'), ('f8', (3,), 1), ('u1', (1,), 2)], n, 'mean', ['GR'], 8, '.0f')
        # many channels (the list of all channel names the writer puts in a comment grows with them), all of them and subsets
        # 4200: a data row (and the column heading) of more than 65536 characters - a row is one line however long
        for nch in (8, 18, 19, 20, 26, 40, 4200) + (() if quick else (64, 100)):
            names = ['DEPT'] + [('C%03d' if nch < 1000 else 'C%04d') % i for i in range(1, nch)]
            for sub in ([], [names[1]], [names[-1], names[nch // 2]], [UNKNOWN]) if nch < 1000 else (names[1:],):
                yield {'names': names, 'units': ['m'] + ['u%d' % (i % 7) for i in range(1, nch)], 'longs': ['Depth'] + ['curve %d' % i for i in range(1, nch)],
                       'chs': [['f8', [1], 'idx']] + [['f4', [1], i % 5] for i in range(1, nch)],
                       'frames': 3, 'method': 'first', 'subset': sub, 'fw': 12 if nch < 1000 else 16, 'fmt': '.3f'}
        return
    dt = DTYPES[shard['dt']]
    dims = DIMS[shard['dims']]
    nrot = n_rot(dt)
    if fam == 'A':
        pats = list(range(nrot)) + ['idx']
        frames = [1, 3] if quick else FRAMES
        pairs = [(16, '.3f'), (8, '.0f'), (1, '.6f')] if quick else list(itertools.product(WIDTHS, FORMATS))
        for pat in pats:
            schemes = [0, 1, 3, 4, 5] if pat == 'idx' else [0]
            for scheme in schemes:
                names = SCHEMES[scheme]['names'][:1]
                subs = [[], [UNKNOWN]] if quick else [[], [names[0]], [UNKNOWN]]
                for fr, method, sub, (fw, fmt) in itertools.product(frames, METHODS, subs, pairs):
                    yield _mk(scheme, [(dt, dims, pat)], fr, method, sub, fw, fmt)
    elif fam == 'B':
        xdt, xdims = XSPECS[shard['x']]
        pats = [0, nrot // 2] if quick else list(range(0, nrot, 2))
        frames = [2] if quick else FRAMES
        pairs = [(8, '.3f'), (1, '.0f')] if quick else PAIRS5
        for pi, pat in enumerate(pats):
            schemes = [0, 1, 2, 3, 4, 5] if pi == 0 else [0]
            for scheme in schemes:
                subs = _subsets(SCHEMES[scheme]['names'][:2])
                for fr, method, sub, (fw, fmt) in itertools.product(frames, METHODS, subs, pairs):
                    yield _mk(scheme, [(xdt, xdims, 'idx'), (dt, dims, pat)], fr, method, sub, fw, fmt)
    else:
        xdt, xdims = XSPECS[shard['x']]
        dt3 = DTYPES[(shard['dt'] + 3) % len(DTYPES)]
        dims3 = DIMS[(shard['dims'] + 1) % len(DIMS)]
        pats = [1] if quick else list(range(0, nrot, 4))
        frames = [2] if quick else FRAMES
        pairs = [(8, '.3f')] if quick else [(16, '.3f'), (8, '.0f'), (1, '.6f')]
        for pat in pats:
            pat3 = (pat + 2) % n_rot(dt3)
            for scheme in ([0, 2, 3, 5] if quick else [0, 1, 2, 3, 4, 5]):
                subs = _subsets(SCHEMES[scheme]['names'][:3])
                for fr, method, sub, (fw, fmt) in itertools.product(frames, METHODS, subs, pairs):
                    yield _mk(scheme, [(xdt, xdims, 'idx'), (dt, dims, pat), (dt3, dims3, pat3)], fr, method, sub, fw, fmt)


def _key(case):
    return repr((case['names'], case['chs'], case['frames'], case['method'], case['subset'], case['fw'], case['fmt']))


def run_shard(shard, tier):
    res = Result()
    for n, case in enumerate(cases_of(shard, tier)):
        bad, outcome, flags = evaluate(case)
        if flags['skipped']:
            res.count('skipped_index_not_distinct_at_printed_precision')
            continue
        multi = any(len(spec[1]) > 1 or spec[1][0] > 1 for spec in case['chs'])
        res.case(_key(case), nontrivial=bool(case['subset']) or multi or flags['wide'], outcome=outcome,
                 sample=case if n == 7 else None)
        res.count('values_compared_by_splitter', flags['cells'])
        res.count('texts_read_back', flags['texts'])
        if flags.get('caller_set_mutated'):
            res.count('cases_where_the_callers_channel_set_was_mutated_(decided_by_C12)')
        if flags['wide']:
            res.count('cases_with_a_value_wider_than_the_field')
        for sig, msg in bad:
            res.violate(sig, case, '%s\n  case: %s' % (msg, _brief(case)))
    return res


def _brief(case):
    chs = ', '.join('%s:%s%s/%s' % (n, s[0], tuple(s[1]), s[2]) for n, s in zip(case['names'], case['chs']))
    return 'channels [%s] frames=%d reduction=%s requested=%r field_width=%d format=%s' % (
        chs, case['frames'], case['method'], case['subset'], case['fw'], case['fmt'])


def replay(case):
    bad, _outcome, flags = evaluate(case)
    if flags['skipped']:
        return []
    return [{'sig': sig, 'case': case, 'msg': '%s\n  case: %s' % (msg, _brief(case))} for sig, msg in bad]
