"""C02 - DLIS index gives random access identical to the sequential read (E2 search over E1 files)."""
import io
import itertools

from mc import bfs
from mc.run import Result, h64
from mc.seams import CountingBytesIO
from props import c01

ID = 'C02'
LEVEL = 'model_checking'
ENGINE = 'E2 explicit-state search'
DESIGN_REF = 'DESIGN.md section 4, C02'
TECHNIQUE = ('explicit-state BFS over fetch histories on the real LogicalRecordIndex (state = implementation cursor '
             'fields), for every file of a bounded layout enumeration; each transition compared with a slice of the '
             'content model and its file reads checked against the layout map')
RULE = ('files: C01 producer restricted to layouts with multi-segment records and >= 2 visible records; per file a BFS '
        'whose operations are fetch(record, offset, length) over a grid built from that record\'s segment boundaries, '
        'plus a full sequential read, a walk over the visible records, the validate() method of the index, the per-visible-record segment iterator, leaving / re-entering the same index object, a shallow copy read after the original left, and fetches whose offset / length are numpy integers; state = (file.tell, visible record pos/len, segment header pos/len/attributes/type); '
        'non-trivial case = a file; outcome = hash of (file, returned bytes)')
ASSUMPTIONS = ['the index description\'s length field is not asserted (documented to include pad bytes)',
               'offset/length follow Python slice semantics on the full payload; negative offsets are outside the API']
BOUNDS = {'quick': 'about 400 files, history depth <= 3 (the frontier closes for every file)', 'thorough': 'about 3000 files, history depth <= 4'}
LEVEL_TEXT = ('For each enumerated file every reachable abstract state of the reader (its cursor fields) is expanded with '
              'every fetch of the operation grid, so "whatever was fetched before" is decided for all histories up to the '
              'depth at which the frontier closes (reported).')
LEVEL_NOTE = 'trusted: models/rp66_ref.py layout map; canon contains all FileRead fields that get_file_logical_data reads'


def gen_files(tier):
    kinds = [(True, 0), (False, 127)]
    # single record, 2-3 segments, all packings, three option patterns
    Ls = [13, 28] if tier == 'quick' else [2, 13, 28, 61]
    for (eflr, typ), L in itertools.product(kinds, Ls):
        cuts = c01.cut_alphabet(L)
        if tier == 'quick':
            cuts = [c for c in cuts if c in (1, 12, L // 2, L - 1)]
        segs = [[c] for c in cuts] + [list(c) for c in itertools.combinations(cuts, 2)]
        for cut in segs:
            n = len(cut) + 1
            for pat in ('none', 'tails', 'pad0', 'mixed'):
                if pat == 'none':
                    opts = [[0, 0, 0]] * n
                elif pat == 'tails':
                    opts = [[1, 1, 0]] * n
                elif pat == 'pad0':
                    opts = [[0, 0, 2]] + [[0, 0, 0]] * (n - 1)
                else:
                    opts = [[s % 2, (s + 1) % 2, 2 * (s % 2)] for s in range(n)]
                for pack in itertools.product((0, 1), repeat=n - 1):
                    if not any(pack):
                        continue
                    yield {'recs': [{'eflr': int(eflr), 'type': typ, 'L': L, 'lb': 'coded', 'cuts': cut, 'opts': opts,
                                     'newvr': [0] + list(pack)}]}
    # encrypted records (the payload is opaque, the index and the fetches treat it like any other): whole and in segments
    for (eflr, typ) in kinds:
        for cut, newvr in (([], [0]), ([12], [0, 0]), ([12], [0, 1]), ([12, 26], [0, 1, 0])):      # segments of even length >= 12: no pad needed
            n = len(cut) + 1
            for encpad in (0, 1):
                yield {'recs': [{'eflr': int(eflr), 'type': typ, 'L': 40, 'lb': 'coded', 'cuts': cut, 'opts': [[0, 0, 0]] * n,
                                 'newvr': newvr, 'enc': 1, 'encpad': encpad},
                                {'eflr': 1, 'type': 3, 'L': 13, 'lb': 'coded'}]}
    # records that span several maximum-size visible records
    for L, chunk in ((32744, 16372), (20000, 8190), (70000, 16372)):      # the last: more than 65535 bytes after any small offset
        cuts = list(range(chunk, L, chunk))
        n = len(cuts) + 1
        for opts in ([[0, 0, 0]] * n, [[0, 1, 0]] * n if chunk != 16372 else None):
            if opts is None:
                continue
            for sul in (None, {'maxlen_text': '16384'}, {'maxlen_text': '16384', 'seq_text': '9999'}):
                case = {'recs': [{'eflr': 1, 'type': 0, 'L': 13, 'lb': 'coded'},
                                 {'eflr': 0, 'type': 127, 'L': L, 'lb': 'coded', 'cuts': cuts, 'opts': opts, 'newvr': [0] * n},
                                 {'eflr': 1, 'type': 1, 'L': 28, 'lb': 'coded', 'cuts': [12], 'opts': [[0, 0, 0], [1, 0, 0]], 'newvr': [0, 1]}]}
                if sul:
                    case['sul'] = sul      # the label's fields are free (C01): the index must not depend on them
                yield case
    # records of 255 / 256 / 257 / 300 segments (a segment count does not fit one byte; nothing in the format bounds it)
    for nseg in (255, 256, 257, 300):
        for eflr, typ in ((0, 0), (1, 5)):
            L = 12 * nseg
            cuts = list(range(12, L, 12))
            yield {'recs': [{'eflr': 1, 'type': 0, 'L': 13, 'lb': 'coded'},
                            {'eflr': eflr, 'type': typ, 'L': L, 'lb': 'coded', 'cuts': cuts, 'opts': [[0, 0, 0]] * nseg, 'newvr': [0] * nseg},
                            {'eflr': 1, 'type': 1, 'L': 28, 'lb': 'coded', 'cuts': [12], 'opts': [[0, 0, 0], [1, 0, 0]], 'newvr': [0, 1]}]}
    # 2-3 records, reduced per-record alphabet
    variants = [(k, L, lay) for k in kinds for L in (1, 13, 28) for lay in c01.REC_LAYOUTS
                if not (lay.startswith('split') and L < 2)]
    if tier == 'quick':
        variants = [v for v in variants if v[1] in (1, 13)]
    for v0, v1 in itertools.product(variants, repeat=2):
        if not (v0[2].startswith('split') or v1[2].startswith('split')):
            continue
        for nv in (0, 1):
            r0, r1 = c01.rec_variant(*v0), c01.rec_variant(*v1)
            r1['newvr'] = [nv] + (r1.get('newvr') or [0])[1:]
            if not (nv or 'splitvr' in (v0[2], v1[2])):
                continue
            yield {'recs': [r0, r1]}
            if tier == 'thorough' and v0[0] == kinds[0]:
                for v2 in variants[::3]:
                    r2 = c01.rec_variant(*v2)
                    r2['newvr'] = [1] + (r2.get('newvr') or [0])[1:]
                    yield {'recs': [dict(r0), dict(r1), r2]}


def op_menu(recs, lay):
    ops = []
    for i, rec in enumerate(recs):
        total = len(rec['payload'])
        bounds = [0] + list(rec['cuts']) + [total]
        if len(bounds) > 12:        # many segments: the boundaries at the start, around the 255th / 256th segment and at the end
            bounds = sorted(set(bounds[:2] + bounds[253:258] + bounds[-2:]))
        offs = {0, 1, total - 1, total, total + 1}
        for b in bounds[1:-1]:
            offs |= {b - 1, b, b + 1}
        offs = sorted(o for o in offs if o >= 0)
        for off in offs:
            lens = {-1, 0, 1, total, total + 5}
            for b in bounds[1:]:
                if b - off > 0:
                    lens |= {b - off, b - off + 1}
            for ln in sorted(lens):
                ops.append(['fetch', i, off, ln])
        # the by-position twin of the fetch (what LogicalFile uses to read frames): a reduced offset / length alphabet
        for off in sorted({0, 1, min(bounds[1] + 1, total)}):
            for ln in sorted({-1, 1, total}):
                ops.append(['fetchpos', i, off, ln])
        # offset and length held in numpy integers (taken from an array of positions): the same slice
        for off, ln in ((1, 1), (0, total), (min(bounds[1] + 1, total), -1)):
            ops.append(['fetchnp', i, off, ln])
    # requests the index may refuse however it likes (outside the statement): what follows them must still be exact
    ops.append(['badfetch', len(recs), 0, -1])
    ops.append(['badfetch', 0, -3, 2])
    ops.append(['seq'])
    for n in (0, 4, 1000):
        ops.append(['seqpeek', n])
    ops.append(['seqother'])
    ops.append(['reenter'])
    ops.append(['copied'])
    ops.append(['vrs'])
    ops.append(['validate'])
    ops.append(['frags'])
    return ops


class System:
    def __init__(self, data, lay, recs):
        from TotalDepth.RP66V1.core import pIndex
        self.f = CountingBytesIO(data)
        self.recs = recs
        self.lay = lay
        self.index = pIndex.LogicalRecordIndex(self.f)
        self.index._enter()
        self.f.reset_log()
        self.data = data
        self.kept = []          # results of earlier fetches the caller still holds: (object, eflr, type, bytes)
        self._other = None

    def other(self):
        """A second index, open at the same time on its own copy of the same bytes (two tools' worth of readers in one process)."""
        if self._other is None:
            from TotalDepth.RP66V1.core import pIndex
            self._other = pIndex.LogicalRecordIndex(io.BytesIO(self.data))
            self._other._enter()
        return self._other

    def canon(self):
        fr = self.index.rp66v1_file
        vr, lrsh = fr.visible_record, fr.logical_record_segment_header
        return (self.f.tell(), vr.position, vr.length, lrsh.position, lrsh.length, lrsh.attributes.attributes,
                lrsh.record_type, bfs.generic_state(fr, depth=3), len(self.index.lr_pos_desc),
                bfs.generic_state(self.index, depth=0, skip=('rp66v1_file', 'lr_pos_desc')))


def step(system, op, check):
    bad = []
    if op[0] == 'seq':
        try:
            got = [(d.lr_is_eflr, d.lr_type, d.logical_data.bytes) for d in system.index.rp66v1_file.iter_logical_records()]
        except Exception as err:  # noqa
            return [({'kind': 'seq_raises', 'exc': type(err).__name__}, '%s: %s' % (type(err).__name__, err))]
        if check:
            exp = [(r['eflr'], r['type'], r['payload']) for r in system.recs]
            if got != exp:
                bad.append(({'kind': 'seq_after_fetch_differs'}, 'sequential read gives %r expected %r' % (got, exp)))
        return bad
    if op[0] == 'seqother':
        # a sequential read of this reader during which a second, independent index fetches the records in reverse order
        fr = system.index.rp66v1_file
        oth = system.other()
        try:
            got = []
            k = len(system.recs)
            for d in fr.iter_logical_records():
                got.append((d.lr_is_eflr, d.lr_type, d.logical_data.bytes))
                k -= 1
                o = oth.get_file_logical_data(max(k, 0), 0, -1)
                if check and o.logical_data.bytes != system.recs[max(k, 0)]['payload']:
                    return [({'kind': 'fetch_bytes', 'entry': 'second index during a sequential read'}, 'record %d through the second index: %d bytes' % (k, len(o.logical_data.bytes)))]
        except Exception as err:  # noqa
            return [({'kind': 'seq_raises', 'exc': type(err).__name__, 'with_second_index': True}, 'sequential read while a second index fetches: %s: %s' % (type(err).__name__, err))]
        if check:
            exp = [(r['eflr'], r['type'], r['payload']) for r in system.recs]
            if got != exp:
                bad.append(({'kind': 'seq_with_second_index_differs'}, 'sequential read while a second index fetches delivers %d records, %d written' % (len(got), len(exp))))
        return bad
    if op[0] == 'seqpeek':
        # a sequential read during which the first op[1] bytes of every record delivered are fetched again by position (a scan
        # that peeks at each record): every record is still delivered, once, in file order, with its payload
        fr = system.index.rp66v1_file
        try:
            got = []
            for d in fr.iter_logical_records():
                got.append((d.lr_is_eflr, d.lr_type, d.logical_data.bytes))
                peek = fr.get_file_logical_data(d.position, 0, op[1]).logical_data.bytes
                if check and peek != d.logical_data.bytes[:op[1]]:
                    return [({'kind': 'fetch_bytes', 'entry': 'peek during sequential read'}, 'peek of %d bytes gave %r' % (op[1], peek[:40]))]
        except Exception as err:  # noqa
            return [({'kind': 'seq_raises', 'exc': type(err).__name__, 'with_peeks': True}, 'sequential read with peeks of %d bytes: %s: %s' % (op[1], type(err).__name__, err))]
        if check:
            exp = [(r['eflr'], r['type'], r['payload']) for r in system.recs]
            if got != exp:
                bad.append(({'kind': 'seq_with_peeks_differs'}, 'sequential read with peeks of %d bytes delivers %d records, %d written' % (op[1], len(got), len(exp))))
        return bad
    if op[0] == 'vrs':
        try:
            got = [(vr.position, vr.length) for vr in system.index.rp66v1_file.iter_visible_records()]
        except Exception as err:  # noqa
            return [({'kind': 'vrs_raises', 'exc': type(err).__name__}, '%s: %s' % (type(err).__name__, err))]
        if check and got != [tuple(v) for v in system.lay.vrs]:
            return [({'kind': 'visible_records'}, 'iter_visible_records() gives %r, the file holds %r' % (got[:6], system.lay.vrs[:6]))]
        return []
    if op[0] == 'validate':
        # a conformant file is consistent: the index's own validation must say so whatever was done before
        try:
            system.index.validate()
        except Exception as err:  # noqa
            return [({'kind': 'validate_raises', 'exc': type(err).__name__}, 'index.validate() on a conformant file: %s: %s' % (type(err).__name__, err))]
        return []
    if op[0] == 'frags':
        # the segment iterator of every visible record: the fragments of one record, joined, hold its payload
        fr = system.index.rp66v1_file
        try:
            frags = []
            for vr in list(fr.iter_visible_records()):
                for lrsh, by in fr.iter_LRSHs_for_visible_record_and_logical_data_fragment(vr):
                    frags.append((lrsh.position, len(by)))
        except Exception as err:  # noqa
            return [({'kind': 'fragments_raise', 'exc': type(err).__name__}, '%s: %s' % (type(err).__name__, err))]
        if check:
            exp = [(pos, ln - 4) for rec in system.lay.records for (_vi, pos, ln, _bl) in rec['segments']]
            if frags != exp:
                return [({'kind': 'fragments'}, 'segment fragments (position, length) %r, the file holds %r' % (frags[:6], exp[:6]))]
        return []
    if op[0] == 'reenter':
        # the same index object used for a second 'with' block: it must again hold one entry per logical record
        try:
            system.index._exit()
            system.index._enter()
        except Exception as err:  # noqa
            return [({'kind': 'reenter_raises', 'exc': type(err).__name__}, '%s: %s' % (type(err).__name__, err))]
        return check_index(system) if check else []
    if op[0] == 'copied':
        # a shallow copy of the entered index (kept by a caller, put in a list) still lists every record after the original has left
        # its 'with' block; the original is then entered again
        import copy
        try:
            twin = copy.copy(system.index)
            system.index._exit()

            class _S:
                pass
            view = _S()
            view.index, view.recs, view.lay = twin, system.recs, system.lay
            found = check_index(view) if check else []
            system.index._enter()
        except Exception as err:  # noqa
            return [({'kind': 'reenter_raises', 'exc': type(err).__name__, 'copied': True}, 'copy, leave, enter again: %s: %s' % (type(err).__name__, err))]
        return [(dict(sig, copy_after_original_left=True), 'a copy of the index, after the original left its with block: ' + msg) for sig, msg in found]
    how, i, off, ln = op
    if how == 'badfetch':
        try:
            system.index.get_file_logical_data(i, off, ln)
        except Exception:  # noqa
            pass
        return []
    system.f.reset_log()
    try:
        if how == 'fetchnp':
            import numpy as np
            fld = system.index.get_file_logical_data(i, np.int64(off), np.int64(ln))
        elif how == 'fetchpos':
            fld = system.index.get_file_logical_data_at_position(system.index[i].position, off, ln)
        else:
            fld = system.index.get_file_logical_data(i, off, ln)
    except Exception as err:  # noqa
        return [({'kind': 'fetch_raises', 'exc': type(err).__name__, 'entry': how}, '%s(%d,%d,%d): %s: %s' % (how, i, off, ln, type(err).__name__, err))]
    earlier = system.kept
    system.kept = (system.kept + [(fld, bool(fld.lr_is_eflr), fld.lr_type, fld.logical_data.bytes)])[-3:]
    if not check:
        return bad
    rec = system.recs[i]
    exp = rec['payload'][off:] if ln < 0 else rec['payload'][off:off + ln]
    got = fld.logical_data.bytes
    # results of earlier fetches that the caller still holds say what they said when they were fetched
    for k_obj, k_eflr, k_type, k_bytes in earlier:
        if (bool(k_obj.lr_is_eflr), k_obj.lr_type, k_obj.logical_data.bytes) != (k_eflr, k_type, k_bytes):
            bad.append(({'kind': 'earlier_result_changed'}, 'a result fetched earlier now reads (eflr, type, %d bytes) = (%r, %r), when fetched (%r, %r, %d bytes)'
                        % (len(k_obj.logical_data.bytes), k_obj.lr_is_eflr, k_obj.lr_type, k_eflr, k_type, len(k_bytes))))
            break
    if got != exp:
        multi = len(rec['cuts']) > 0
        bad.append(({'kind': 'fetch_bytes', 'multi_segment': multi, 'partial': not (off == 0 and ln < 0), 'entry': how},
                    '%s(record %d, offset %d, length %d) returned %d bytes %s, payload slice is %d bytes %s'
                    % (how, i, off, ln, len(got), got.hex()[:200], len(exp), exp.hex()[:200])))
    if fld.lr_type != rec['type'] or fld.lr_is_eflr != rec['eflr']:
        bad.append(({'kind': 'fetch_kind_type'}, 'fetch(%d): (eflr,type)=(%r,%r)' % (i, fld.lr_is_eflr, fld.lr_type)))
    spans = system.lay.record_vr_spans(i)
    for pos, n in system.f.reads:
        if n and not any(a <= pos and pos + n <= b for a, b in spans):
            bad.append(({'kind': 'fetch_reads_outside_record'},
                        'fetch(%d,%d,%d) read %d bytes at %d, outside the visible records %r of that record'
                        % (i, off, ln, n, pos, spans)))
            break
    return bad


def check_index(system):
    bad = []
    idx = system.index
    if len(idx) != len(system.recs):
        return [({'kind': 'index_length'}, 'index has %d entries for %d records' % (len(idx), len(system.recs)))]
    for i, rec in enumerate(system.recs):
        ent = idx[i]
        info = system.lay.records[i]
        if (ent.position.vr_position, ent.position.lrsh_position) != (info['vr_position'], info['lrsh_position']):
            bad.append(({'kind': 'index_position'}, 'entry %d positions (%d,%d) layout (%d,%d)'
                        % (i, ent.position.vr_position, ent.position.lrsh_position, info['vr_position'], info['lrsh_position'])))
        if ent.description.lr_type != rec['type'] or ent.description.attributes.is_eflr != rec['eflr']:
            bad.append(({'kind': 'index_kind_type'}, 'entry %d (eflr,type)=(%r,%r)'
                        % (i, ent.description.attributes.is_eflr, ent.description.lr_type)))
    vrp = idx.visible_record_positions
    if vrp != [info['vr_position'] for info in system.lay.records]:
        bad.append(({'kind': 'index_vr_positions'}, 'visible_record_positions %r' % (vrp,)))
    return bad


_PATH = None


def check_by_path(data, lay, recs):
    """The index made from a path (what the tools do).  Every file of this process is written to the same path string in
    turn: the index is of the bytes that the path holds now."""
    global _PATH
    import os
    from TotalDepth.RP66V1.core import pIndex
    if _PATH is None:
        import atexit
        from mc import seams
        os.makedirs(seams.SCRATCH, exist_ok=True)
        _PATH = os.path.join(seams.SCRATCH, 'c02-%d.dlis' % os.getpid())
        atexit.register(lambda: os.path.exists(_PATH) and os.remove(_PATH))
    with open(_PATH, 'wb') as f:
        f.write(data)
    from mc import seams as _seams
    _seams.pin_times(_PATH)

    class _S:
        pass
    try:
        with pIndex.LogicalRecordIndex(_PATH) as idx:
            sys_ = _S()
            sys_.index, sys_.recs, sys_.lay = idx, recs, lay
            bad = check_index(sys_)
            if not bad:
                for i, rec in enumerate(recs):
                    got = idx.get_file_logical_data(i, 0, -1).logical_data.bytes
                    if got != rec['payload']:
                        bad.append(({'kind': 'fetch_bytes', 'entry': 'index made from a path'}, 'index made from a path: fetch(%d) gives %d bytes, written %d'
                                    % (i, len(got), len(rec['payload']))))
                        break
    except Exception as err:  # noqa
        return [({'kind': 'index_raises', 'exc': type(err).__name__, 'by_path': True}, 'index made from a path: %s: %s' % (type(err).__name__, err))]
    return [(dict(sig, by_path=True), 'index made from a path that held another file before: ' + msg) for sig, msg in bad]


def explore_file(case, depth, res):
    data, lay, recs, _ = c01.materialise(case)
    menu = op_menu(recs, lay)

    def make():
        return System(data, lay, recs)
    try:
        s0 = make()
    except Exception as err:  # noqa - the files are well formed: building the index must not raise
        res.violate({'kind': 'index_raises', 'exc': type(err).__name__}, {'recs': case['recs'], 'sul': case.get('sul'), 'history': []},
                    'building the index of a well-formed file raised %s: %s' % (type(err).__name__, err))
        return 0, 0, False, len(menu)
    for sig, msg in check_index(s0) + check_by_path(data, lay, recs):
        res.violate(sig, {'recs': case['recs'], 'sul': case.get('sul'), 'history': []}, msg)
    outcomes = []

    def stepper(system, op, check):
        bad = step(system, op, check)
        return bad
    st, tr, closed = bfs.search(make, lambda s: menu, stepper, System.canon, depth, res, {'recs': case['recs'], 'sul': case.get('sul')})
    return st, tr, closed, len(menu)


def shards(tier):
    n = sum(1 for _ in gen_files(tier))
    k = 64
    return [{'part': p, 'of': k, 'files': n} for p in range(k)]


def run_shard(shard, tier):
    res = Result()
    depth = 3 if tier == 'quick' else 4
    for i, case in enumerate(gen_files(tier)):
        if i % shard['of'] != shard['part']:
            continue
        st, tr, closed, nops = explore_file(case, depth, res)
        res.case(h64(repr(case)), nontrivial=True, outcome=h64((repr(case), st, tr)),
                 sample={'file': case, 'states': st, 'transitions': tr, 'ops': nops, 'frontier_closed': closed}
                 if i % 97 == 0 else None)
        res.count('files')
        if closed:
            res.count('files_frontier_closed')
    return res


def replay(case):
    data, lay, recs, _ = c01.materialise({'recs': case['recs'], 'sul': case.get('sul')})

    def make():
        return System(data, lay, recs)
    try:
        bad = (check_index(make()) + check_by_path(data, lay, recs)) if not case.get('history') else []
    except Exception as err:  # noqa
        return [{'sig': {'kind': 'index_raises', 'exc': type(err).__name__}, 'case': case,
                 'msg': 'building the index of a well-formed file raised %s: %s' % (type(err).__name__, err)}]
    bad += bfs.replay_history(make, step, case.get('history', []))
    return [{'sig': s, 'case': case, 'msg': m} for s, m in bad]
