"""C12 - Batch conversion isolates bad files and is independent of job scheduling (E3 schedule + fault enumeration)."""
import itertools
import os
import shutil

from mc import env, seams
from mc.run import Result, h64

ID = 'C12'
LEVEL = 'model_checking'
NEEDS_EXT = True
ENGINE = 'E3 environment enumeration'
DESIGN_REF = 'DESIGN.md section 4, C12 and section 2.3'
TECHNIQUE = ('exhaustive enumeration of task-to-worker assignments (all set partitions of the task list into at most W real, '
             'forked worker processes driven through a virtual pool that replaces multiprocessing.Pool) x directories mixing valid, '
             'damaged and foreign files at every position; every schedule compared with the sequential run and with each file '
             'converted alone in a fresh interpreter; the real multiprocessing.Pool replayed for conformance')
RULE = ('directories of 2-4 files drawn from {valid RP66V1 x2 (the second indexed by TIME and holding the first one\'s index name '
        'as a channel), valid LIS, valid BIT, LAS, DAT, empty file, 5 damaged variants per valid file (label / first record / '
        'mid table / mid data / truncated)} with the bad file at every position, names chosen so that alphabetical and size order '
        'differ; channel set {none, {GR}}; converter {RP66V1, LIS, BIT}; per directory: sequential run, each file alone, every set '
        'partition of the task list into <= 3 workers; plus output-name collision pairs and, per converter, one batch of 72 (thorough: 140) valid files + 1 bad run sequentially, on one worker and on two. A state of the search is a node of the '
        'schedule tree (tasks done per worker); non-trivial = a directory holding a bad file or more than one valid file')
ASSUMPTIONS = ['the creation-time line (CREA.) and the elapsed time field of the result are excluded from comparisons',
               'a virtual pool worker executes one task at a time; two tasks never write the same file unless their output names collide, which is enumerated separately',
               'pools with more workers than tasks behave like W = number of tasks, so worker counts 1..16 are covered for directories of <= 4 files']
BOUNDS = {'quick': 'about 250 directories x <= 14 schedules, W <= 3', 'thorough': 'about 1200 directories x <= 15 schedules, W <= 4'}
LEVEL_TEXT = ('Every schedule of the enumerated space is executed with real worker processes on real files and must give the same '
              'result map and the same output tree as the sequential run and as the isolated conversions; determinism of replay is '
              'asserted by running schedules twice; the real multiprocessing.Pool (jobs 1, 2, 4, 16) must reproduce the unique '
              'predicted outcome (traces_validated_against_impl).')
LEVEL_NOTE = 'trusted: mc/env.py virtual pool (pickles arguments and forks workers like the real pool); the producers of props/c11'

SEL = None


# ------------------------------------------------------------------------------------------------
# file alphabet
# ------------------------------------------------------------------------------------------------
def _valid(kind):
    from props import c11
    if kind == 'V1':
        data, _n, _p = c11.rp66_source({'n': 5})
        return data
    if kind == 'V2':
        # indexed by TIME, carries DEPT as an ordinary channel (different frame array identity)
        from props import c04
        t1 = [c04.ch('TIME', 17, [1]), c04.ch('DEPT', 2, [1]), c04.ch('GR', 7, [1])]
        lp = {'types': [{'name': 'FT1', 'channels': t1, 'n': 4}], 'layout': 'one', 'origin': 'full',
              'extra_sets': [c11.parameter_set([b'COUN', b'NATI', b'STAT'])]}
        return c04.build(lp)[0]
    if kind == 'L':
        return c11.lis_source({'n': 6})[0]
    if kind == 'B':
        return c11.bit_source({'n': 5})[0]
    if kind == 'LX':
        # a real file from the repository's example data: it has the physical record padding that generated files lack
        with open(os.path.join(seams.REPO, 'example_data', 'LIS', 'data', 'DILLSON-1_WELL_LOGS_FILE-013.LIS'), 'rb') as f:
            return f.read()
    if kind == 'V0':
        # a valid RP66V1 file without a log pass (file header and origin only): nothing to convert, nothing to fail either
        from props import c03
        return c03.build([[c03.FILE_HEADER, c03.ORIGIN_FULL]], 'one')[0]
    if kind == 'V1b':
        return c11.rp66_source({'n': 3, 'params': ['STAT', 'APIN', 'LOC '], 'sul': {'maxlen': 4096, 'seq': 20}})[0]   # same PARAMETER set name as V1, other objects in another order
    if kind == 'Lb':
        return c11.lis_source({'n': 4})[0]
    if kind == 'Bb':
        return c11.bit_source({'n': 3})[0]
    raise KeyError(kind)


def _damage(data, how):
    by = bytearray(data)
    n = len(by)
    if how == 'label':
        by[0] = 0x58
    elif how == 'first':
        pos = 82 if data[:2] != b'\x00\x00' and len(data) > 90 and data[4:9].startswith(b'V1.') else 2
        by[pos] ^= 0xFF
    elif how == 'mid':
        by[n // 3] ^= 0x5A
        by[n // 3 + 1] ^= 0xFF
    elif how == 'data':
        by[(4 * n) // 5] ^= 0xFF
    elif how == 'trunc':
        by = by[:(2 * n) // 3]
    elif how == 'asis':
        pass                                # the file as it is: a valid file whose conversion result is only compared between runs
    elif how.startswith('hi'):
        by[int(how[2:])] = 0xD8            # one byte above 0x7f at a given position (e.g. inside a name)
    elif how.startswith('bytes'):
        by = by[:int(how[5:])]
    elif how.startswith('cut'):
        by = by[:(int(how[3:]) * n) // 48]
    return bytes(by)


LAS_TEXT = (b'~Version Information Section\nVERS. 2.0 : CWLS LOG ASCII STANDARD - VERSION 2.0\nWRAP. NO : ONE LINE PER DEPTH STEP\n'
            b'~Well Information Section\nSTRT.M 100.0 : START\nSTOP.M 100.5 : STOP\nSTEP.M 0.5 : STEP\nNULL. -999.25 : NULL\n'
            b'~Curve Information Section\nDEPT.M : DEPTH\nGR.GAPI : GAMMA\n~A\n100.0 1.5\n100.5 2.5\n')
DAT_TEXT = (b'UTIM Unix Time sec\nDATE Date ddmmyy\nTIME Time hhmmss\nWAC Wits Activity Code unitless\nUTIM DATE TIME WAC\n'
            b'1165665017 9Dec06 11-50-17 0\n')

_CACHE = {}


def file_bytes(code):
    """code: 'V1' | 'V2' | 'L' | 'B' | 'LAS' | 'DAT' | 'EMPTY' | 'V1:label' ..."""
    if code not in _CACHE:
        if code == 'LAS':
            _CACHE[code] = LAS_TEXT
        elif code == 'DAT':
            _CACHE[code] = DAT_TEXT
        elif code == 'EMPTY':
            _CACHE[code] = b''
        elif ':' in code:
            base, how = code.split(':')
            _CACHE[code] = _damage(file_bytes(base), how)
        else:
            _CACHE[code] = _valid(code)
    return _CACHE[code]


EXT = {'V0': '.dlis', 'V1': '.dlis', 'V2': '.dlis', 'V1b': '.dlis', 'L': '.lis', 'Lb': '.lis', 'LX': '.lis', 'B': '.bit', 'Bb': '.bit', 'LAS': '.las', 'DAT': '.dat', 'EMPTY': '.dlis'}
NATIVE = {'rp66': ('V1', 'V2', 'V1b'), 'lis': ('L', 'Lb', 'LX'), 'bit': ('B', 'Bb')}


def is_good(code, tool):
    return code in NATIVE[tool]


# ------------------------------------------------------------------------------------------------
# running (always in forked children: the shard process itself never converts anything)
# ------------------------------------------------------------------------------------------------
def converter(tool):
    from TotalDepth.RP66V1 import ToLAS as R
    from TotalDepth.LIS import ToLAS as Li
    from TotalDepth.BIT import ToLAS as B
    return {'rp66': R.single_rp66v1_file_to_las, 'lis': Li.single_lis_file_to_las, 'bit': B.single_bit_path_to_las_path}[tool]


def snapshot(root):
    out = {}
    for dp, _dn, fns in os.walk(root):
        for fn in fns:
            p = os.path.join(dp, fn)
            with open(p, 'rb') as f:
                by = f.read()
            by = b'\n'.join(l for l in by.split(b'\n') if not l.startswith(b'CREA.'))
            out[os.path.relpath(p, root)] = by
    return out


def norm_results(res, root_in):
    out = {}
    for k, r in res.items():
        out[os.path.relpath(k, root_in)] = (os.path.relpath(r.path_input, root_in), r.binary_file_type, r.size_input, r.size_output,
                                            r.las_count, bool(r.exception), bool(r.ignored))
    return out


_SEL = None     # the frame selection of the case being explored; set in the shard process, inherited by its forked children


def _opts(channels):
    from TotalDepth.common import Slice
    if _SEL is None:
        sl = Slice.Slice()
    elif _SEL[0] == 'sample':
        sl = Slice.Sample(_SEL[1])
    else:
        sl = Slice.Slice(*_SEL[1:])
    return ('first', sl, set(channels), 16, '.3f')


def child_sequential(tool, dir_in, dir_out, channels):
    from TotalDepth.LAS.core import WriteLAS
    red, sl, chs, w, ff = _opts(channels)
    try:
        res = WriteLAS.convert_dir_or_file_to_las(dir_in, dir_out, True, red, sl, chs, w, ff, converter(tool))
    except Exception as err:  # noqa  - the batch was aborted
        return {'__aborted__': '%s: %s' % (type(err).__name__, str(err)[:200])}, snapshot(dir_out) if os.path.isdir(dir_out) else {}
    return norm_results(res, dir_in), snapshot(dir_out) if os.path.isdir(dir_out) else {}


def child_alone(tool, path_in, path_out, channels, dir_in, dir_out):
    red, sl, chs, w, ff = _opts(channels)
    try:
        r = converter(tool)(path_in, red, path_out, sl, chs, w, ff)
    except Exception as err:  # noqa  - a single file conversion must report, not raise
        return {os.path.relpath(path_in, dir_in): ('__raised__', type(err).__name__)}, snapshot(dir_out) if os.path.isdir(dir_out) else {}
    return norm_results({path_in: r}, dir_in), snapshot(dir_out) if os.path.isdir(dir_out) else {}


def child_schedule(tool, dir_in, dir_out, channels, assignment, jobs, spell=0):
    """spell: how the caller writes the two directories - 0 as plain strings; 1 the input directory through a symbolic link and up
    again (other/lnk/../in, which the operating system resolves from the link's target); 2 the output directory as a pathlib.Path."""
    from TotalDepth.LAS.core import WriteLAS
    if spell == 1:
        work = os.path.dirname(dir_in)
        os.makedirs(os.path.join(work, 'store'), exist_ok=True)
        os.makedirs(os.path.join(work, 'other'), exist_ok=True)
        if not os.path.islink(os.path.join(work, 'other', 'lnk')):
            os.symlink(os.path.join(work, 'store'), os.path.join(work, 'other', 'lnk'))
        dir_in = os.path.join(work, 'other', 'lnk', '..', os.path.basename(dir_in))
    elif spell == 2:
        import pathlib
        dir_out = pathlib.Path(dir_out)

    class FakeMP:
        Pool = env.VirtualPool

        @staticmethod
        def cpu_count():
            return 16
    env.VirtualPool.assignment = assignment
    WriteLAS.multiprocessing = FakeMP
    red, sl, chs, w, ff = _opts(channels)
    try:
        res = WriteLAS.convert_dir_or_file_to_las_multiprocessing(dir_in, dir_out, True, red, sl, chs, w, ff, jobs, converter(tool))
    except Exception as err:  # noqa  - the batch was aborted
        return {'__aborted__': '%s: %s' % (type(err).__name__, str(err)[:200])}, snapshot(dir_out) if os.path.isdir(dir_out) else {}, env.VirtualPool.log
    return norm_results(res, dir_in), snapshot(dir_out) if os.path.isdir(dir_out) else {}, env.VirtualPool.log


def child_real_pool(tool, dir_in, dir_out, channels, jobs):
    import multiprocessing
    from TotalDepth.LAS.core import WriteLAS
    multiprocessing.current_process()._config['daemon'] = False      # this child may own a pool
    red, sl, chs, w, ff = _opts(channels)
    try:
        res = WriteLAS.convert_dir_or_file_to_las_multiprocessing(dir_in, dir_out, True, red, sl, chs, w, ff, jobs, converter(tool))
    except Exception as err:  # noqa  - the batch was aborted
        return {'__aborted__': '%s: %s' % (type(err).__name__, str(err)[:200])}, snapshot(dir_out) if os.path.isdir(dir_out) else {}
    return norm_results(res, dir_in), snapshot(dir_out) if os.path.isdir(dir_out) else {}


def task_order(dir_in):
    """The task list the multiprocessing entry point builds (dirWalk, bigFirst=True, recursive)."""
    from TotalDepth.util import DirWalk
    return [os.path.relpath(t.filePathIn, dir_in) for t in DirWalk.dirWalk(dir_in, '', theFnMatch='', recursive=True, bigFirst=True)]


# ------------------------------------------------------------------------------------------------
def explore_directory(case, res, workdir, tier):
    """case: {'tool', 'files': [[relative name, code], ...], 'channels': [...], 'real_pool': bool}"""
    global _SEL
    tool, files, channels = case['tool'], case['files'], case['channels']
    _SEL = case.get('sel')
    shutil.rmtree(workdir, ignore_errors=True)
    dir_in = os.path.join(workdir, 'in')
    for name, code in files:
        p = os.path.join(dir_in, name)
        os.makedirs(os.path.dirname(p), exist_ok=True)
        with open(p, 'wb') as f:
            f.write(file_bytes(code))
    names = [n for n, _c in files]
    code_of = dict((n, c) for n, c in files)
    bad = []
    maxw = 3 if tier == 'quick' else 4
    # (i) sequential
    seq_res, seq_out = env.run_forked(child_sequential, tool, dir_in, os.path.join(workdir, 'seq'), channels)
    res.traces += 1
    if '__aborted__' in seq_res:
        bad.append(({'kind': 'batch_aborted', 'run': 'sequential', 'tool': tool}, 'the sequential batch raised %s and returned no results (directory %r)' % (seq_res['__aborted__'], files)))
    elif sorted(seq_res) != sorted(names):
        bad.append(({'kind': 'result_keys', 'run': 'sequential'}, 'sequential run reports results for %r, inputs are %r' % (sorted(seq_res), sorted(names))))
    for n in names:
        r = seq_res.get(n)
        if r is None:
            continue
        good = is_good(code_of[n], tool)
        if good and (r[5] or r[6] or r[4] < 1):
            bad.append(({'kind': 'valid_file_not_converted', 'tool': tool, 'code': code_of[n]}, 'valid file %s (%s): result %r in directory %r' % (n, code_of[n], r, files)))
        if not good and ':' not in code_of[n] and not (r[5] or r[6]):
            bad.append(({'kind': 'foreign_file_not_flagged', 'tool': tool, 'code': code_of[n]}, 'foreign file %s (%s) neither failed nor ignored: %r' % (n, code_of[n], r)))
    # (ii) each file alone, in a fresh interpreter
    alone_res, alone_out = {}, {}
    collisions = []
    for n in names:
        d_out = os.path.join(workdir, 'alone')
        shutil.rmtree(d_out, ignore_errors=True)
        r1, o1 = env.run_forked(child_alone, tool, os.path.join(dir_in, n), os.path.join(d_out, n), channels, dir_in, d_out)
        res.traces += 1
        alone_res.update(r1)
        if any(isinstance(v, tuple) and v and v[0] == '__raised__' for v in r1.values()):
            bad.append(({'kind': 'single_conversion_raises', 'tool': tool}, 'converting %s (%s) alone raised %r instead of returning a failed result' % (n, code_of[n], list(r1.values())[0])))
        for k, v in o1.items():
            if k in alone_out and is_good(code_of[n], tool):
                collisions.append(k)
            alone_out[k] = v
    if collisions:
        bad.append(({'kind': 'output_name_collision', 'tool': tool}, 'inputs %r write the same output file(s) %r' % (names, sorted(set(collisions)))))

    def compare(tag, r, o, sig_extra):
        for n in names:
            if r.get(n) != alone_res.get(n):
                # a damaged file may legitimately differ in nothing; results are deterministic functions of the file
                sig = dict({'kind': 'result_differs_from_isolated', 'tool': tool, 'run': tag, 'good_file': is_good(code_of[n], tool)}, **sig_extra)
                bad.append((sig, '%s: result for %s is %r, converted alone it is %r (directory %r, channels %r)' % (tag, n, r.get(n), alone_res.get(n), files, channels)))
                break
        if not collisions and o != alone_out:
            diff = sorted(k for k in set(o) | set(alone_out) if o.get(k) != alone_out.get(k))
            extra_cols = any(k in o and k in alone_out and o[k].count(b'\n') == alone_out[k].count(b'\n') for k in diff)
            sig = dict({'kind': 'outputs_differ_from_isolated', 'tool': tool, 'run': tag, 'same_line_count': extra_cols,
                        'with_channel_subset': bool(channels)}, **sig_extra)
            bad.append((sig, '%s: output files %r differ from converting each file alone (directory %r, channels %r)' % (tag, diff, files, channels)))
    compare('sequential', seq_res, seq_out, {})
    # (iii) every schedule
    tasks = task_order(dir_in)
    nsched = 0
    outcomes = {h64(repr((sorted(seq_res.items()), sorted(seq_out.items()))))}
    if case.get('many'):
        # a long batch: what the k-th file of one process gets must not depend on k (queues, caches and handles that fill up)
        schedules = [([0] * len(tasks), 1), ([i % 2 for i in range(len(tasks))], 2)]
    else:
        schedules = [(a, max(a) + 1 if a else 1) for a in env.set_partitions(len(tasks), maxw)]
    if tasks and not case.get('many'):
        # more workers asked for than there are files (the statement's worker counts go to 16): every task on its own worker
        schedules.append((list(range(len(tasks))), 16))
    for assignment, jobs in schedules:
        r, o, log = env.run_forked(child_schedule, tool, dir_in, os.path.join(workdir, 'mp%d' % nsched), channels, assignment, jobs, nsched % 3)
        shutil.rmtree(os.path.join(workdir, 'mp%d' % nsched), ignore_errors=True)
        res.transitions += len(tasks)
        res.states += len(tasks) + 1
        res.traces += 1
        nsched += 1
        outcomes.add(h64(repr((sorted(r.items()), sorted(o.items())))))
        if '__aborted__' in r:
            bad.append(({'kind': 'batch_aborted', 'run': 'pool', 'tool': tool}, 'schedule %r: the batch raised %s and returned no results (directory %r)' % (assignment, r['__aborted__'], files)))
            continue
        if sorted(r) != sorted(names):
            bad.append(({'kind': 'result_keys', 'run': 'pool'}, 'schedule %r reports results for %r, inputs are %r' % (assignment, sorted(r), sorted(names))))
        compare('schedule', r, o, {})
        if (r, o) != (seq_res, seq_out) and not collisions:
            bad.append(({'kind': 'schedule_differs_from_sequential', 'tool': tool, 'with_channel_subset': bool(channels)},
                        'schedule %r (task order %r) gives a different result/output tree than the sequential run (directory %r, channels %r)'
                        % (assignment, tasks, files, channels)))
        if nsched == 1:      # determinism of replay: the same schedule twice
            r2, o2, _ = env.run_forked(child_schedule, tool, dir_in, os.path.join(workdir, 'mpx'), channels, assignment, jobs)
            shutil.rmtree(os.path.join(workdir, 'mpx'), ignore_errors=True)
            if (r2, o2) != (r, o):
                raise RuntimeError('replay of schedule %r diverged: harness does not own all nondeterminism' % (assignment,))
    res.count('schedules', nsched)
    # (iv) conformance: the real pool
    if case.get('real_pool'):
        for jobs in ((1, 2, 4, 16) if tier == 'thorough' else (2, 16)):
            r, o = env.run_forked(child_real_pool, tool, dir_in, os.path.join(workdir, 'real'), channels, jobs)
            shutil.rmtree(os.path.join(workdir, 'real'), ignore_errors=True)
            res.traces += 1
            res.count('real_pool_runs')
            if '__aborted__' in r:
                bad.append(({'kind': 'batch_aborted', 'run': 'real pool', 'tool': tool},
                            'multiprocessing.Pool(jobs=%d): the batch raised %s and returned no results (directory %r)' % (jobs, r['__aborted__'], files)))
                continue
            if h64(repr((sorted(r.items()), sorted(o.items())))) not in outcomes:
                bad.append(({'kind': 'real_pool_outcome_not_predicted', 'tool': tool},
                            'multiprocessing.Pool(jobs=%d) gave an outcome no explored schedule gave (directory %r, channels %r)' % (jobs, files, channels)))
    return bad, (len(outcomes), h64(repr(sorted(outcomes))))


# ------------------------------------------------------------------------------------------------
def gen_cases(tier):
    damages = ['label', 'first', 'mid', 'data', 'trunc']
    for tool in ('rp66', 'lis', 'bit'):
        good = NATIVE[tool]
        g0 = good[0]
        g1 = good[1]
        gb = good[2] if len(good) > 2 and good[2] != 'LX' else good[1]
        bads = ['%s:%s' % (g0, d) for d in (damages if tier == 'thorough' else ['label', 'mid', 'trunc'])] + ['EMPTY', 'LAS'] + \
               (['DAT'] if tier == 'thorough' else []) + [c for c in ('V1', 'L', 'B') if c not in good][:2 if tier == 'thorough' else 1]
        for channels in (['GR'], []):
            # two valid files, both name orders (size order differs from alphabetical for V1/V2)
            for names in (('a', 'b'), ('b', 'a')):
                yield {'tool': tool, 'files': [[names[0] + EXT[g0], g0], [names[1] + EXT[g1], g1]], 'channels': channels,
                       'real_pool': names == ('a', 'b') and bool(channels)}
            for b in bads:
                if not channels and tier == 'quick' and b not in ('%s:trunc' % g0, 'EMPTY'):
                    continue
                ext = EXT.get(b.split(':')[0], '.dlis')
                # bad file first / last / between two valid ones
                yield {'tool': tool, 'files': [['a' + ext, b], ['b' + EXT[g0], g0]], 'channels': channels}
                yield {'tool': tool, 'files': [['a' + EXT[g0], g0], ['b' + ext, b]], 'channels': channels}
                yield {'tool': tool, 'files': [['a' + EXT[g0], g0], ['b' + ext, b], ['c' + EXT[g1], g1]], 'channels': channels,
                       'real_pool': b.endswith('trunc') and bool(channels)}
                if tier == 'thorough' or (b == 'EMPTY' and channels):
                    yield {'tool': tool, 'files': [['a' + ext, b], ['b' + EXT[g0], g0], ['sub/c' + EXT[g1], g1], ['d' + ext, b]], 'channels': channels}
            if tier == 'thorough':
                for b1, b2 in itertools.combinations(bads, 2):
                    e1, e2 = EXT.get(b1.split(':')[0], '.dlis'), EXT.get(b2.split(':')[0], '.dlis')
                    yield {'tool': tool, 'files': [['a' + e1, b1], ['b' + EXT[g0], g0], ['c' + e2, b2], ['d' + EXT[g1], g1]], 'channels': channels}
        # truncation sweep of a valid file (every 48th of its length): the file at every position of the processing order
        for q in range(1, 48, 1 if tier == 'thorough' else 3):
            b = '%s:cut%d' % (g0, q)
            yield {'tool': tool, 'files': [['a' + EXT[g0], b], ['b' + EXT[g0], g0]], 'channels': []}
            if tier == 'thorough':
                yield {'tool': tool, 'files': [['a' + EXT[g0], g0], ['b' + EXT[g0], b], ['c' + EXT[g1], g1]], 'channels': []}
        if tool == 'lis':
            # truncations of a real example file (identified as LIS with the best padding guess, indexed without it)
            cuts = ['bytes70', 'bytes71'] + ['cut%d' % q for q in (range(1, 48) if tier == 'thorough' else (12, 19, 21, 36))]
            yield {'tool': tool, 'files': [['a.lis', 'LX'], ['b.lis', 'L']], 'channels': []}
            for c in cuts:
                yield {'tool': tool, 'files': [['a.lis', 'LX:' + c], ['b.lis', 'L']], 'channels': []}
                yield {'tool': tool, 'files': [['a.lis', 'L'], ['b.lis', 'LX:' + c], ['c.lis', 'Lb']], 'channels': []}
        # sub-directories that sort before other entries of their directory (the sequential walk is alphabetical, the pool's by size)
        yield {'tool': tool, 'files': [['a' + EXT[g0], g0], ['m/b' + EXT[g1], g1], ['z' + EXT[g0], g0]], 'channels': []}
        yield {'tool': tool, 'files': [['m/a' + EXT[g0], g0], ['p/b' + EXT[g1], g1], ['m/q/c' + EXT[g0], g0], ['m/z' + EXT[g1], g1]], 'channels': []}
        # a foreign text file cut inside its first line / after it
        for cut in ('LAS:bytes2', 'LAS:bytes12', 'LAS:bytes30', 'DAT:bytes5'):
            yield {'tool': tool, 'files': [['a' + EXT[g0], g0], ['b.las', cut], ['c' + EXT[g1], g1]], 'channels': []}
        # one frame selection object for the whole batch (--frame-slice): files of different frame counts, both orders
        for sel in (['sample', 3], ['sample', 2], ['slice', 1, None, 2], ['slice', None, None, -1]):
            if sel[-1] == -1 and tool == 'lis':
                continue     # LIS conversion with a negative step is outside the statement's common ground (see C11)
            for names in (('a', 'b'), ('b', 'a')):
                yield {'tool': tool, 'files': [[names[0] + EXT[g0], g0], [names[1] + EXT[g1], g1]], 'channels': [], 'sel': sel}
            yield {'tool': tool, 'files': [['a' + EXT[g1], g1], ['b' + EXT[g0], g0], ['c' + EXT[gb], gb]], 'channels': ['GR'] if tool != 'bit' else [], 'sel': sel}
        # file names: one name a prefix of the other (no extension), a name beginning with a dot, a directory name with glob characters
        for dmg in ('mid', 'trunc') + (('hi181',) if tool == 'bit' else ()):
            yield {'tool': tool, 'files': [['RUN1', '%s:%s' % (g0, dmg)], ['RUN1_A', g1]], 'channels': []}
            yield {'tool': tool, 'files': [['RUN1', '%s:%s' % (g1, dmg)], ['RUN1_A', g0], ['RUN1_B', g1]], 'channels': []}
        yield {'tool': tool, 'files': [['.W3' + EXT[g0], g0], ['a' + EXT[g1], g1]], 'channels': []}
        yield {'tool': tool, 'files': [['Well [1]/a' + EXT[g0], g0], ['Well [1]/b' + EXT[g0], '%s:trunc' % g0], ['w*/c' + EXT[g1], g1], ['d' + EXT[g1], g1]], 'channels': []}
        if tool == 'rp66':
            # files without a log pass, first / alone in their (sub-)directory and after a file with one
            yield {'tool': tool, 'files': [['a.dlis', 'V0:asis'], ['sub/b.dlis', 'V0:asis'], ['sub/c.dlis', g0]], 'channels': []}
            yield {'tool': tool, 'files': [['a.dlis', g0], ['b.dlis', 'V0:asis']], 'channels': []}
            yield {'tool': tool, 'files': [['only/a.dlis', 'V0:asis']], 'channels': []}
        # output name collisions
        yield {'tool': tool, 'files': [['a' + EXT[g0], g0], ['a' + EXT[g0].upper(), gb]], 'channels': []}
        # a long batch handled by one process (sequential run, one worker, two workers)
        nmany = 72 if tier == 'quick' else 140
        yield {'tool': tool, 'many': True, 'channels': [],
               'files': [['f%03d%s' % (i, EXT[g0]), (g0, g1)[i % 2]] for i in range(nmany)] + [['zbad' + EXT[g0], '%s:trunc' % g0]]}
        yield {'tool': tool, 'files': [['a' + EXT[g0], g0], ['a.001', gb]], 'channels': []}
        yield {'tool': tool, 'files': [['a' + EXT[g0], g0], ['sub/a' + EXT[g0], gb]], 'channels': []}


def shards(tier):
    return [{'part': p, 'of': 64} for p in range(64)]


def run_shard(shard, tier):
    res = Result()
    workdir = os.path.join(seams.SCRATCH, 'c12-%d' % os.getpid())
    try:
        for i, case in enumerate(gen_cases(tier)):
            if i % shard['of'] != shard['part']:
                continue
            bad, outcome = explore_directory(case, res, workdir, tier)
            nontriv = len(case['files']) > 1
            res.case(h64(repr(case)), nontrivial=nontriv, outcome=outcome, sample=case if i % 41 == 0 else None)
            res.count('directories')
            for sig, msg in bad:
                res.violate(sig, case, msg)
    finally:
        shutil.rmtree(workdir, ignore_errors=True)
    res.frontier_closed = True
    return res


def replay(case):
    res = Result()
    workdir = os.path.join(seams.SCRATCH, 'c12-replay-%d' % os.getpid())
    try:
        bad, _ = explore_directory(case, res, workdir, 'quick')
    finally:
        shutil.rmtree(workdir, ignore_errors=True)
    return [{'sig': s, 'case': case, 'msg': m} for s, m in bad]
