"""C18 - generated XML, XHTML and SVG are well formed and carry the data unchanged.

(a) E2 search over operation histories of the real XmlStream / XhtmlStream / Element against a tree model; at every
    state the stream is closed and the document parsed by models/xml_ref.py (strict expat, XHTML entity set supplied).
(b) the RP66V1 XML index on independently produced files: parses, one EFLR element per table, one FrameArray per
    frame type, run-length elements expand to exactly what the in-memory index holds.
(c) the RP66V1 / LIS / LAS HTML summaries and the SVG primitives on inputs with awkward strings: parse.
"""
import io
import itertools
import os
import shutil

from mc import bfs, seams
from mc.run import Result, h64
from models import xml_ref as X

ID = 'C18'
LEVEL = 'model_checking'
NEEDS_EXT = True     # LisToHtml imports the compiled LIS extensions: rebuilt from the current sources
ENGINE = 'E2 explicit-state search'
DESIGN_REF = 'DESIGN.md section 4, C18; section 5 F11 and "Propagation"'
TECHNIQUE = ('explicit-state BFS over startElement/characters/charactersWithBr/comment/pI/endElement histories of the real '
             'XmlStream, XhtmlStream and Element with every string of a bounded alphabet of XML character classes, each '
             'reached state closed and parsed by a strict expat parse (XHTML entity set supplied as the external subset) '
             'and compared with a tree model; bounded exhaustive enumeration of RP66V1 / LIS / LAS files and SVG primitive '
             'calls with awkward strings in every string-valued field, outputs parsed, and the RP66V1 XML index expanded '
             'and compared with the in-memory index')
RULE = ('part A: BFS, state = (every field of the writer except its file, model element path), menu = start(name in {a,b:c}, '
        '{} | {x: s} | {b:y: s, x: v}) / characters(s) / charactersWithBr(s) / comment(s) / pI("t "+s) / end; s = every string of '
        'length <= 2 over 22 class representatives plus "]]>" and "--" at every expanded state (thorough: length <= 3 at states '
        'of depth <= 2), 6 representatives with the Element context manager API and the second names. part B: IndexXML on '
        '(i) every c04 log pass of gen_I (interleavings, empty IFLRs, split records), a sample of gen_V, a frame type '
        'without frames, 8 explicit X value lists (decimal steps, extreme magnitudes, float32), (ii) c03 gen_F multi-file / '
        'encrypted-record files, (iii) 14 string slots x wrapped byte representatives. part C: ScanHTML, LisToHtml, '
        'LASToHTML on slot x string files, SVGWriter primitives x strings. non-trivial = a string other than a*/empty or '
        'more than one element; outcome = hash of the produced document')
ASSUMPTIONS = ['XmlStream documents are judged once a root element has been started; text, PIs and a second root at top level '
               'are caller errors and not generated',
               'white space the pretty printer inserts between markup where no text was written is not data (an empty model '
               'gap may parse as blanks/newlines); white space added to a written text string is a change',
               'a string is "made of characters XML can represent" iff every character is in the XML 1.0 Char production; '
               'for file data additionally 7-bit (RP66V1/LIS define no encoding for bytes >= 0x80): other strings must only '
               'leave the document parseable',
               'comment and PI content is not compared (the statement speaks of attribute values and text); comments/PIs must parse',
               'for file based writers a string is expected in the output only if the in-memory index holds exactly that string',
               'X values of the index are compared in the numeric type the in-memory index holds them in; a run is accepted if '
               'either datum + i * stride or repeated addition of the stride reproduces the values exactly',
               'an exception out of a writer entry point on a file its reader accepted means no document was produced: a violation']
BOUNDS = {'quick': 'A: depth 5, strings <= 2 chars at every expanded state; B: gen_I <= 5 IFLRs, gen_F every 7th, 27 strings per slot; C: 8-10 strings per slot',
          'thorough': 'A: depth 6, strings <= 3 chars at states of depth <= 2, <= 2 chars at the others; B: gen_I <= 6 IFLRs, all gen_F, all pairs of byte representatives; C: the B strings per slot'}
LEVEL_TEXT = ('Part A expands every reachable abstract state of the real writer (all of its fields) with every operation of the '
              'menu up to the depth bound; each explored history is executed on the real classes, closed and parsed. Parts B and '
              'C are exhaustive over the stated file x slot x string products.')
LEVEL_NOTE = ('trusted: models/xml_ref.py (expat as the XML parser, the Char production), models/rp66_ref.py, lis_ref.py, '
              'las_ref.py producers; the in-memory RP66V1 index is the reference for positions and X values (its own '
              'correctness is C02-C04)')

# =================================================================================================
# shared: classification of an unparseable document, comparison of recovered strings
# =================================================================================================
F11_KIND = 'non_char_written_as_character_reference'


def snippet(doc, index, width=48):
    if index is None or index < 0:
        return repr(doc[:width])
    return repr(doc[max(0, index - width // 2):index + width // 2])


def classify_failure(pr, writer, attr_inputs, text_inputs, comment_inputs=()):
    """pr: failed xml_ref.ParseResult.  attr_inputs / text_inputs: the strings the writer was given for attribute values /
    text (for file based writers both are the list of string fields of the file).
    The F11 signature is given only when expat stopped at a numeric character reference to a code point outside Char,
    inside an attribute value or text, and that character occurs in a string the writer was given for that construct."""
    ctx = X.context_at(pr.doc, pr.index) if pr.index is not None and pr.index >= 0 else 'outside'
    cp = X.char_ref_at(pr.doc, pr.index) if pr.code_name == 'BAD_CHAR_REF' else None
    where = 'text' if ctx in ('text', 'outside') else ctx
    if cp is not None and not X.is_char(cp) and cp <= 0x10FFFF and ctx in ('attribute', 'text'):
        pool = attr_inputs if ctx == 'attribute' else text_inputs
        if any(chr(cp) in s for s in pool):
            return ({'kind': F11_KIND, 'where': ctx, 'writer': writer},
                    '%s wrote U+%04X of its input as a numeric character reference in %s: %s at byte %d near %s'
                    % (writer, cp, ctx, pr.error, pr.index, snippet(pr.doc, pr.index)))
    if ctx == 'comment' and any('--' in s or s.endswith('-') for s in comment_inputs):
        return ({'kind': 'double_hyphen_in_comment', 'writer': writer},
                '%s.comment() was given a string with "--" (or ending in "-"), which no XML comment can hold, and wrote it '
                'as is: %s near %s' % (writer, pr.error, snippet(pr.doc, pr.index)))
    return ({'kind': 'not_well_formed', 'where': where, 'expat': pr.code_name, 'writer': writer},
            '%s output is not well-formed XML: %s (in %s) near %s' % (writer, pr.error, ctx, snippet(pr.doc, pr.index)))


def attr_mismatch_kind(written, parsed):
    if parsed == X.normalize_attribute_literal(written):
        return 'attribute_whitespace_not_preserved'
    return 'attribute_value_changed'


def text_mismatch_kind(written, parsed):
    if parsed == X.normalize_line_ends(written):
        return 'text_cr_not_preserved'
    return 'text_changed'


# =================================================================================================
# part A: the writer classes
# =================================================================================================
ALPHA = ['a', '<', '>', '&', "'", '"', ' ', '\t', '\n', '\r', '\x00', '\x01', '\x0b', '\x1f', '\x7f', '\x85', '\xe9',
         '\u2028', '\ufffd', '\ufffe', '\uffff', '\U0001F600']
EXTRA = [']]>', '--', '---', '----', 'a---b', '-', '-a-']
REPS = ['a', '&', '"', '\n', '\x00', '\xe9']
NAMES = ['a', 'b:c']
XHTML_ROOT_ATTRS = {'xmlns': 'http://www.w3.org/1999/xhtml', 'xml:lang': 'en', 'lang': 'en'}
A_DEPTH = {'quick': 5, 'thorough': 6}
# string menu by the depth (length of the shortest history) of the state: (max depth, max string length); deeper: REPS
A_MENU = {'quick': [(4, 2)], 'thorough': [(2, 3), (5, 2)]}
A_CHUNKS = {'quick': 16, 'thorough': 64}


def strings_upto(n):
    out = [''] + ALPHA + EXTRA
    for k in range(2, n + 1):
        out += [''.join(t) for t in itertools.product(ALPHA, repeat=k)]
    return out


class MNode:
    """Model element.  kids: ['t', s] | MNode | ['c', s] | ['p', s]"""

    def __init__(self, name, attrs):
        self.name = name
        self.attrs = dict(attrs)
        self.kids = []
        self.preserve_from = None      # number of kids present when xmlSpacePreserve() was called on this element

    def nontext(self):
        return [k for k in self.kids if isinstance(k, MNode) or k[0] != 't']

    def gaps(self):
        out = ['']
        for k in self.kids:
            if not isinstance(k, MNode) and k[0] == 't':
                out[-1] += k[1]
            else:
                out.append('')
        return out


class System:
    """The real stream writing into a StringIO plus the tree model of what was asked for."""

    def __init__(self, writer, api):
        from TotalDepth.util import XmlWrite
        self.X = XmlWrite
        self.writer = writer
        self.api = api
        self.out = io.StringIO()
        cls = XmlWrite.XhtmlStream if writer == 'XhtmlStream' else XmlWrite.XmlStream
        self.stream = cls(self.out)
        self.stream.__enter__()
        # a second writer of the same class alive at the same time, writing its own document in between (a page and its index)
        self.shadow = self.X.XmlStream(io.StringIO())
        self.shadow.__enter__()
        self.shadow.startElement('index', {})
        self.elems = []
        self.history = []
        self.root = None
        self.stack = []
        self.root_done = False
        self.attr_strings = []
        self.text_strings = []
        self.comment_strings = []
        if writer == 'XhtmlStream':
            self.root = MNode('html', XHTML_ROOT_ATTRS)
            self.stack = [self.root]

    # -- model helpers ------------------------------------------------------------------------
    def _add(self, kid):
        if self.stack:
            self.stack[-1].kids.append(kid)

    def _text(self, s):
        self.text_strings.append(s)
        self._add(['t', s])

    # -- one operation on implementation and model ------------------------------------------------
    def apply(self, op):
        kind = op[0]
        st = self.stream
        self.history.append(op)
        self.shadow.startElement('entry', {'n': str(len(self.history))})
        try:
            self._apply(op, kind, st)
        finally:
            self.shadow.characters('x')
            self.shadow.endElement('entry')

    def _apply(self, op, kind, st):
        if kind == 'start':
            _, name, attrs = op
            if self.api == 'element':
                e = self.X.Element(st, name, dict(attrs))
                e.__enter__()
                self.elems.append(e)
            else:
                st.startElement(name, dict(attrs))
            node = MNode(name, attrs)
            self.attr_strings.extend(attrs.values())
            if self.stack:
                self.stack[-1].kids.append(node)
            else:
                self.root = node
            self.stack.append(node)
        elif kind == 'end':
            name = self.stack[-1].name
            if self.api == 'element' and self.elems:
                self.elems.pop().__exit__(None, None, None)
            else:
                st.endElement(name)
            self.stack.pop()
            if not self.stack:
                self.root_done = True
        elif kind == 'fail':
            # an exception raised in the body of the innermost `with Element(...)` and caught by the caller op[1] levels up:
            # what the with statement does - each __exit__ is given the exception and, returning false, lets it travel on
            err = KeyError('raised inside the element and caught by the caller')
            for _ in range(op[1]):
                if self.elems.pop().__exit__(KeyError, err, None):
                    break
                self.stack.pop()
            if not self.stack:
                self.root_done = True
        elif kind == 'chars':
            st.characters(op[1])
            self._text(op[1])
        elif kind == 'br':
            st.charactersWithBr(op[1])
            parts = op[1].split('\n')
            for i, part in enumerate(parts):
                if i:
                    self._add(MNode('br', {}))
                if part:
                    self._text(part)
        elif kind == 'comment':
            st.comment(op[1])
            self.comment_strings.append(op[1])
            self._add(['c', op[1]])
        elif kind == 'pi':
            st.pI('t ' + op[1])
            self._add(['p', op[1]])
        elif kind == 'preserve':
            st.xmlSpacePreserve()
            if self.stack[-1].preserve_from is None:
                self.stack[-1].preserve_from = len(self.stack[-1].kids)
        else:
            raise ValueError(op)

    def canon(self):
        fields = sorted((k, repr(v)) for k, v in vars(self.stream).items() if k != '_file')
        return (tuple(fields), tuple(n.name for n in self.stack), self.root is None, self.root_done, len(self.elems))

    def closed_document(self):
        """The document this state closes to: the history replayed on a twin which is then closed by __exit__."""
        twin = System(self.writer, self.api)
        for op in self.history:
            twin.apply(op)
        twin.stream.__exit__(None, None, None)
        return twin.out.getvalue()


def strict_from(m):
    """Index of the first child from which the writer documents that it adds no white space of its own: the position where
    xmlSpacePreserve() was called ("suspends indentation for this element and its descendants") or where the element
    became mixed content by having text written into it."""
    first_text = next((i for i, k in enumerate(m.kids) if not isinstance(k, MNode) and k[0] == 't' and k[1] != ''), None)
    cands = [x for x in (m.preserve_from, first_text) if x is not None]
    return min(cands) if cands else None


def compare_tree(m, p, writer, path='', strict=False):
    """Model element m against parsed element p.  Returns [(sig, msg)].
    strict: an ancestor suspended indentation, every character between markup is data."""
    here = '%s/%s' % (path, m.name)
    if m.name != p.name:
        return [({'kind': 'structure_changed', 'what': 'element_name', 'writer': writer}, '%s parsed as <%s>' % (here, p.name))]
    bad = []
    if set(m.attrs) != set(p.attrs):
        bad.append(({'kind': 'structure_changed', 'what': 'attribute_names', 'writer': writer},
                    '%s attributes %r parsed as %r' % (here, sorted(m.attrs), sorted(p.attrs))))
    else:
        for k in sorted(m.attrs):
            if p.attrs[k] != m.attrs[k]:
                bad.append(({'kind': attr_mismatch_kind(m.attrs[k], p.attrs[k]), 'writer': writer},
                            '%s@%s written %r recovered %r' % (here, k, m.attrs[k], p.attrs[k])))
    mk, pk = m.nontext(), p.nontext()
    shape_m = [k.name if isinstance(k, MNode) else {'c': '#comment', 'p': '#pi'}[k[0]] for k in mk]
    shape_p = [k.name if isinstance(k, X.Node) else {'comment': '#comment', 'pi': '#pi'}[k[0]] for k in pk]
    if shape_m != shape_p:
        bad.append(({'kind': 'structure_changed', 'what': 'children', 'writer': writer},
                    '%s children %r parsed as %r' % (here, shape_m, shape_p)))
        return bad
    sf = 0 if strict else strict_from(m)
    # gap g lies before non-text child g; it is strict when that position is at or after the kid index sf
    kid_index_of_gap = []
    n = 0
    for idx, k in enumerate(m.kids):
        if isinstance(k, MNode) or k[0] != 't':
            kid_index_of_gap.append(idx)
    kid_index_of_gap.append(len(m.kids))
    for i, (mg, pg) in enumerate(zip(m.gaps(), p.gaps())):
        if mg == pg:
            continue
        gap_strict = sf is not None and kid_index_of_gap[i] > sf if not strict else True
        if mg == '' and pg.strip(' \t\n') == '' and not gap_strict:
            continue        # indentation between markup where nothing was written
        kind = 'white_space_added_where_indentation_is_suspended' if (mg == '' and pg.strip(' \t\n') == '') else text_mismatch_kind(mg, pg)
        bad.append(({'kind': kind, 'writer': writer}, '%s text run %d written %r recovered %r' % (here, i, mg, pg)))
    nt = 0
    for idx, k in enumerate(m.kids):
        if isinstance(k, MNode) or k[0] != 't':
            a, b = mk[nt], pk[nt]
            nt += 1
            if isinstance(a, MNode):
                bad.extend(compare_tree(a, b, writer, here, strict or (sf is not None and idx >= sf)))
    return bad


def check_system(system):
    """Close, parse, compare.  Returns ([(sig, msg)], outcome hash, was a document judged)."""
    if system.root is None:
        return [], 0, False
    try:
        doc = system.closed_document()
    except Exception as err:  # noqa
        return [({'kind': 'writer_raises', 'exc': type(err).__name__, 'op': 'close', 'writer': system.writer},
                 'closing the stream: %s: %s' % (type(err).__name__, err))], h64('raise'), True
    pr = X.parse(doc, xhtml=system.writer == 'XhtmlStream')
    if not pr.ok:
        return [classify_failure(pr, system.writer, system.attr_strings, system.text_strings, system.comment_strings)], h64(doc), True
    if not all(X.all_chars(s) for s in system.attr_strings + system.text_strings):
        return [], h64(doc), True
    return compare_tree(system.root, pr.root, system.writer), h64(doc), True


def trivial_history(history):
    for op in history:
        for s in ([op[1]] if op[0] in ('chars', 'br', 'comment', 'pi') else list(op[2].values()) if op[0] == 'start' else []):
            if s.strip('a'):
                return False
    return sum(1 for op in history if op[0] == 'start') <= 1


def make_step(res, writer, api):
    def step(system, op, check):
        try:
            system.apply(op)
        except Exception as err:  # noqa
            return [({'kind': 'writer_raises', 'exc': type(err).__name__, 'op': op[0], 'writer': writer},
                     '%r: %s: %s' % (op, type(err).__name__, err))]
        if not check:
            return []
        bad, outcome, judged = check_system(system)
        if res is not None:
            res.case(h64(('A', writer, api, repr(system.history))), nontrivial=judged and not trivial_history(system.history),
                     outcome=(outcome % 131072 + 1) if outcome else None,   # folded: stays below the runner's cap on stored outcomes
                     sample={'part': 'A', 'writer': writer, 'api': api, 'history': list(system.history)}
                     if res.evaluations % 20011 == 7 else None)
        return bad
    return step


def string_ops(system, strs):
    ops = []
    inside = bool(system.stack)
    can_start = inside or (system.root is None)
    if can_start:
        for s in strs:
            ops.append(['start', 'a', {'x': s}])
    if inside:
        for s in strs:
            ops.append(['chars', s])
        if system.writer == 'XhtmlStream':
            for s in strs:
                ops.append(['br', s])
        for s in strs:
            ops.append(['pi', s])
    for s in strs:
        ops.append(['comment', s])
    return ops


def make_ops(tier, chunk, nchunks, api):
    menus = [(maxdepth, [s for i, s in enumerate(strings_upto(n)) if i % nchunks == chunk]) for maxdepth, n in A_MENU[tier]]

    def ops(system):
        depth = len(system.history)
        inside = bool(system.stack)
        can_start = inside or system.root is None
        out = []
        # navigation: always present so that every shard reaches every state
        if can_start:
            for name in NAMES:
                out.append(['start', name, {}])
        if inside:
            out.append(['end'])
            out.append(['chars', 'a'])
            out.append(['pi', 'a'])
            if system.stream._canIndentStk:
                out.append(['preserve'])
            if api == 'element':
                for k in (1, 2):
                    if len(system.elems) >= k:
                        out.append(['fail', k])
        out.append(['comment', 'a'])
        strs = REPS if chunk == 0 else []
        if api != 'element':
            for maxdepth, mine in menus:
                if depth <= maxdepth:
                    strs = mine
                    break
        nav = list(out)
        out += [o for o in string_ops(system, strs) if o not in nav]
        if chunk == 0 and can_start:     # second element / attribute name, two attributes
            for s in REPS:
                out.append(['start', 'b:c', {'b:y': s, 'x': 'v'}])
        return out
    return ops


def run_A(shard, tier, res):
    writer, api = shard['writer'], shard['api']
    step = make_step(res, writer, api)
    ops = make_ops(tier, shard['chunk'], shard['of'], api)
    st, tr, closed = bfs.search(lambda: System(writer, api), ops, step, System.canon, A_DEPTH[tier], res,
                                {'part': 'A', 'writer': writer, 'api': api}, max_states=2000000)
    res.count('A_searches')
    res.count('A_searches_frontier_closed' if closed else 'A_searches_depth_bounded')


def replay_A(case):
    writer, api = case['writer'], case['api']
    history = [[op[0], op[1], dict(op[2])] if op[0] == 'start' else list(op) for op in case['history']]
    return bfs.replay_history(lambda: System(writer, api), make_step(None, writer, api), history)


# =================================================================================================
# files on disk
# =================================================================================================
def scratch_dir():
    d = os.path.join(seams.SCRATCH, 'c18-%d' % os.getpid())
    os.makedirs(d, exist_ok=True)
    return d


def remove_scratch():
    shutil.rmtree(os.path.join(seams.SCRATCH, 'c18-%d' % os.getpid()), ignore_errors=True)


def hexs(b):
    return b.hex()


B_BYTES = [b'a', b'<', b'>', b'&', b"'", b'"', b' ', b'\t', b'\n', b'\r', b'\x00', b'\x01', b'\x0b', b'\x1f', b'\x7f',
           b'\x85', b'\xe9', b'\xff']
B_WHOLE = [b'', b'p]]>q', b'p--q', b'p\r\nq', b'<&>', b'p&#0;q', b'&amp;', b' lead', b'trail ']


def byte_strings(tier):
    out = [b'p' + x + b'q' for x in B_BYTES] + list(B_WHOLE)
    if tier == 'thorough':
        out += [b'p' + x + y + b'q' for x in B_BYTES for y in B_BYTES if x != y]
    return out


def short_byte_strings():
    """The modest list used for part C."""
    return [b'p<&>"\'q', b'p\x00q', b'p\x01\x1fq', b'p\t\n\rq', b'p\x7f\x85q', b'p\xe9\xffq', b'p]]>--q', b'p&#0;q']


def is_plain(s):
    """7-bit and every character in Char: the text of the field is defined and XML can carry it."""
    return all(c < 0x80 and X.is_char(c) for c in s)


# ------------------------------------------------------------------------------------------------
# RP66V1 producer with one awkward field (adapted from c04.channel_set / frame_set / build)
# ------------------------------------------------------------------------------------------------
RP_SLOTS = {   # slot -> (element, attribute) of the XML index that carries it
    'long_name': ('Channel', 'long_name'), 'units': ('Channel', 'units'), 'description': ('FrameArray', 'description'),
    'set_name': ('EFLR', 'set_name'), 'channel_name': ('Channel', 'I'), 'frame_name': ('FrameArray', 'I'),
    'index_type': ('Value', 'value'), 'param_ascii': ('Value', 'value'), 'param_ident': ('Value', 'value'),
    'param_units': ('Attribute', 'units'), 'param_label': ('Attribute', 'label'), 'param_object': ('Object', 'I'),
    'set_type': ('EFLR', 'set_type'), 'sul_id': ('StorageUnitLabel', 'storage_set_identifier'),
}


def build_awkward_rp66(slot, s, layout='one', n=3, xs=None, xcode=7, highbytes=False):
    """xs: explicit X values (exactly representable in the X channel's code) instead of c04's value model."""
    import struct
    from models import rp66_ref as R
    from props import c03, c04
    if xs is not None:
        n = len(xs)

    def fld(name, default):
        return s if slot == name else default
    chans = [c04.ch('X', xcode, [1]), c04.ch('A', 13, [3])]
    names = [fld('channel_name', b'X'), b'A']
    ctemplate = [{'label': b'LONG-NAME', 'code': 20}, {'label': b'REPRESENTATION-CODE', 'code': 15},
                 {'label': b'UNITS', 'code': 27}, {'label': b'DIMENSION', 'code': 18}]
    cobjs = [{'name': (1, 0, names[i]), 'comps': [
        {'values': [fld('long_name', b'long ' + c['name'].encode())]}, {'values': [c['code']]}, {'values': [fld('units', b'm')]},
        {'count': len(c['dims']), 'values': list(c['dims'])}]} for i, c in enumerate(chans)]
    cset = {'type': b'CHANNEL', 'name': fld('set_name', b'chs'), 'template': ctemplate, 'objects': cobjs, 'lrtype': 3}
    fname = fld('frame_name', b'FT0')
    fset = {'type': b'FRAME', 'name': b'frs', 'lrtype': 4,
            'template': [{'label': b'DESCRIPTION', 'code': 20}, {'label': b'CHANNELS', 'code': 23}, {'label': b'INDEX-TYPE', 'code': 19}],
            'objects': [{'name': (1, 0, fname), 'comps': [
                {'values': [fld('description', b'frame type')]}, {'count': 2, 'values': [(1, 0, nm) for nm in names]},
                {'values': [fld('index_type', b'BOREHOLE-DEPTH')]}]}]}
    comp0 = {'values': [fld('param_ascii', b'text')]}
    if slot == 'param_units':
        comp0['units'] = s
    pset = {'type': fld('set_type', b'PARAMETER'), 'name': b'par', 'lrtype': 5,
            'template': [{'label': fld('param_label', b'VALUES'), 'code': 20}, {'label': b'ID', 'code': 19}],
            'objects': [{'name': (1, 0, fld('param_object', b'P1')), 'comps': [comp0, {'values': [fld('param_ident', b'idt')]}]}]}
    # numbers that are equal across types (2 == 2.0, 0.0 == -0.0): the index has to keep them apart
    nset = {'type': b'EQUIPMENT', 'name': b'num', 'lrtype': 5,
            'template': [{'label': b'COUNTS', 'code': 14}, {'label': b'LENGTHS', 'code': 7}],
            'objects': [{'name': (1, 0, b'N1'), 'comps': [{'count': 4, 'values': [0, 2, 41, -7]}, {'count': 5, 'values': [0.0, -0.0, 2.0, 41.0, 2.5]}]},
                        {'name': (1, 0, b'N2'), 'comps': [{'count': 2, 'values': [3, 1]}, {'count': 3, 'values': [-0.0, 3.0, 1.0]}]}]}
    # a set of a private logical record type (>= 128): indexed like any other table
    vset = {'role': 'RDSET', 'type': b'440-CUSTOM', 'name': b'prv', 'lrtype': 200,
            'template': [{'label': b'NOTE', 'code': 20}], 'objects': [{'name': (1, 0, b'V1'), 'comps': [{'values': [b'vendor note']}]}]}
    if highbytes:
        # text values with bytes >= 0x80 (no encoding is defined for them): whatever the index does with them, different
        # values must stay different - the first is valid UTF-8, the second its Latin-1 look-alike
        nset['template'].append({'label': b'OWNER', 'code': 20})
        nset['objects'][0]['comps'].append({'count': 2, 'values': [b'Soci\xc3\xa9t\xc3\xa9 X', b'Soci\xe9t\xe9 X']})
        nset['objects'][1]['comps'].append({'count': 2, 'values': [b'\xc2\xb0C', b'\xb0C']})
    sets = [c03.FILE_HEADER, c03.ORIGIN, cset, fset, pset, vset, nset]      # the private table in front of a public one
    recs = [{'eflr': True, 'type': c03.lrtype_for(x), 'payload': c03.encode_set(x)} for x in sets]
    t = {'channels': chans}
    for f in range(n):
        cells = [b for chv in c04.frame_values(0, t, f) for b, _v in chv]
        if xs is not None:
            cells[0] = struct.pack('>d' if xcode == 7 else '>f', xs[f])
        data = b''.join(cells)
        payload = R.iflr_payload((1, 0, fname), f + 1, data)
        rec = {'eflr': False, 'type': 0, 'payload': payload}
        if layout == 'split':
            rec['cuts'] = [len(payload) // 2]
            rec['newvr'] = [False, True]
        recs.append(rec)
    sul = R.sul_bytes(ident=fld('sul_id', b'Default Storage Set')[:60].ljust(60))
    data, _lay = R.build_file(recs, sul=sul)
    return data, {'tables': [7], 'types': [fname], 'frames': [n]}


def memory_snapshot(li):
    """What the in-memory index holds, taken while the index is open."""
    snap = {'vr': list(li.visible_record_positions), 'lfs': [], 'bytes': set()}
    by = snap['bytes']
    sul = li.storage_unit_label
    by.add(sul.storage_set_identifier)
    for lf in li.logical_files:
        ent = {'eflr_pos': [], 'set_types': [], 'has_log_pass': bool(lf.has_log_pass), 'fas': [], 'numbers': []}
        for pos, eflr in lf.eflrs:
            ent['numbers'].append([[[(('float' if isinstance(v, float) else 'int'), v) if isinstance(v, (int, float)) and not isinstance(v, bool)
                                      else (('bytes', v) if isinstance(v, bytes) else None) for v in (a.value or [])] if a is not None else None for a in obj.attrs] for obj in eflr.objects])
            ent.setdefault('units', []).append([[(a.units if a is not None else None) for a in obj.attrs] for obj in eflr.objects])
            ent['eflr_pos'].append(pos.lrsh_position)
            ent['set_types'].append(eflr.set.type)
            by.add(eflr.set.type)
            by.add(eflr.set.name)
            for a in eflr.template.attrs:
                by.add(a.label)
            for obj in eflr.objects:
                by.add(obj.name.I)
                for a in obj.attrs:
                    if a is None:
                        continue
                    by.add(a.units)
                    for v in (a.value or []):
                        if isinstance(v, bytes):
                            by.add(v)
        if lf.log_pass is not None:
            for fa in lf.log_pass.frame_arrays:
                by.add(fa.ident.I)
                by.add(fa.description)
                for ch in fa.channels:
                    by.add(ch.long_name)
                    by.add(ch.units)
                if fa.ident in lf.iflr_position_map:
                    xa = lf.iflr_position_map[fa.ident]
                    refs = [xa[i] for i in range(len(xa))]
                    ent['fas'].append((fa.ident.I, [(r.frame_number, r.logical_record_position.lrsh_position, r.x_axis) for r in refs]))
                else:
                    ent['fas'].append((fa.ident.I, None))
        snap['lfs'].append(ent)
    return snap


def parse_int(text):
    t = text.strip()
    if t.lower().startswith('0x'):
        return int(t[2:], 16)
    return int(t)


def expand_rle(elem, conv):
    """Values of a run-length element: datum + i * stride for i in 0..repeat, per RLE child in order."""
    vals = []
    for r in elem.elements('RLE'):
        datum, stride, repeat = conv(r.attrs['datum']), conv(r.attrs['stride']), int(r.attrs['repeat'])
        for i in range(repeat + 1):
            vals.append(datum + i * stride if i else datum)
    return vals


def rle_check(elem, name, conv, expected, same, kind):
    bad = []
    if elem is None:
        return [({'kind': 'index_structure', 'what': 'missing_' + name}, 'no <%s> element' % name)]
    try:
        got = expand_rle(elem, conv)
    except (KeyError, ValueError) as err:
        return [({'kind': 'index_structure', 'what': 'rle_attributes'}, '<%s>: %s: %s' % (name, type(err).__name__, err))]
    if len(got) != len(expected) or not all(same(g, e) for g, e in zip(got, expected)):
        bad.append(({'kind': kind}, '<%s> expands to %r, the in-memory index holds %r' % (name, got[:12], list(expected)[:12])))
    if elem.attrs.get('count') != '%d' % len(expected):
        bad.append(({'kind': 'rle_count_attribute', 'element': name}, '<%s count=%r> for %d values' % (name, elem.attrs.get('count'), len(expected))))
    return bad


def xaxis_check(elem, xs):
    """The X run-length element against the in-memory X values, computed in the numeric type the index holds.
    A mismatch is attributed: 'float_rounding' (every difference within 4 units of the type's epsilon, relative),
    'float_stride_loses_value' (datum and stride are exactly first value / floating difference of the first two values of the
    run, but datum + i * stride no longer gives the other values), else 'other'."""
    import numpy as np
    if elem is None:
        return [({'kind': 'index_structure', 'what': 'missing_Xaxis'}, 'no <Xaxis> element')]
    xtype = type(xs[0]) if xs else float
    got = []       # (value, index of the first value of its run, datum, stride)
    summed = []    # the same runs expanded by repeated addition (the library has both forms: RLEItem.value / .values)
    try:
        with np.errstate(all='ignore'):
            for r in elem.elements('RLE'):
                datum, stride, repeat = xtype(r.attrs['datum']), xtype(r.attrs['stride']), int(r.attrs['repeat'])
                first = len(got)
                v = datum
                for i in range(repeat + 1):
                    got.append((datum + i * stride if i else datum, first, datum, stride))
                    summed.append(v)
                    v = v + stride
    except (KeyError, ValueError) as err:
        return [({'kind': 'index_structure', 'what': 'rle_attributes'}, '<Xaxis>: %s: %s' % (type(err).__name__, err))]
    bad = []
    if elem.attrs.get('count') != '%d' % len(xs):
        bad.append(({'kind': 'rle_count_attribute', 'element': 'Xaxis'}, '<Xaxis count=%r> for %d values' % (elem.attrs.get('count'), len(xs))))
    shown = '<Xaxis> expands to %r, the in-memory index holds %r' % ([g[0] for g in got[:12]], list(xs)[:12])
    if len(got) != len(xs):
        return bad + [({'kind': 'rle_xaxis', 'cause': 'other'}, shown)]
    wrong = [j for j, (g, e) in enumerate(zip(got, xs)) if not bool(g[0] == e)]
    if not wrong or all(bool(g == e) for g, e in zip(summed, xs)):
        return bad
    eps = float(np.finfo(xtype).eps) if isinstance(xs[0], np.floating) else 2.0 ** -52
    with np.errstate(all='ignore'):
        if all(abs(float(got[j][0]) - float(xs[j])) <= 4 * eps * max(abs(float(got[j][0])), abs(float(xs[j]))) for j in wrong):
            cause = 'float_rounding'
        elif all(got[j][1] + 1 < len(xs) and bool(got[j][2] == xs[got[j][1]])
                 and bool(got[j][3] == xs[got[j][1] + 1] - xs[got[j][1]]) for j in wrong):
            cause = 'float_stride_loses_value'
        else:
            cause = 'other'
    return bad + [({'kind': 'rle_xaxis', 'cause': cause}, shown + ' (first difference at index %d)' % wrong[0])]


def numbers_check(k, eflrs, numbers):
    """Every number held by an object attribute of the in-memory index is found in the document as a <Value> whose declared
    type and text read back as that very number (an integer stays an integer, a float a float, minus zero minus zero)."""
    import math
    seen_text = {}
    for e, objs in zip(eflrs, numbers):
        obj_els = e.elements('Object')
        if len(obj_els) != len(objs):
            continue        # a private set written without its objects
        for oe, attrs in zip(obj_els, objs):
            attr_els = oe.elements('Attribute')
            if len(attr_els) != len(attrs):
                return [({'kind': 'index_structure', 'what': 'attribute_count'}, 'logical file %d: object with %d <Attribute> elements, index holds %d'
                         % (k, len(attr_els), len(attrs)))]
            for ae, vals in zip(attr_els, attrs):
                if vals is None:
                    continue
                val_els = ae.elements()
                if len(val_els) != len(vals):
                    return [({'kind': 'index_value_count'}, 'logical file %d attribute %r: %d values written, index holds %d'
                             % (k, ae.attrs.get('label'), len(val_els), len(vals)))]
                for ve, kv in zip(val_els, vals):
                    if kv is None:
                        continue
                    kind, v = kv
                    if kind == 'bytes':
                        # no particular spelling is demanded of a byte string, but two different ones must not be written alike
                        text = (ve.attrs.get('type'), ve.attrs.get('value'))
                        other = seen_text.setdefault(text, v)
                        if other != v:
                            return [({'kind': 'index_values_confused'},
                                     'logical file %d: the byte strings %r and %r are both written as type=%r value=%r' % (k, other, v, text[0], text[1]))]
                        continue
                    typ, text = ve.attrs.get('type'), ve.attrs.get('value')
                    try:
                        back = int(text) if typ == 'int' else float(text) if typ == 'float' else None
                    except (TypeError, ValueError):
                        back = None
                    same = back is not None and typ == kind and (back == v or (back != back and v != v)) and \
                        (kind == 'int' or math.copysign(1.0, back) == math.copysign(1.0, v))
                    if not same:
                        return [({'kind': 'index_number_changed', 'memory': kind},
                                 'logical file %d attribute %r: the index holds the %s %r, the document says type=%r value=%r'
                                 % (k, ae.attrs.get('label'), kind, v, typ, text))]
    return []


def units_check(k, eflrs, units):
    """The units written for the attributes of one object tell apart what the in-memory index tells apart: two attributes of an
    object whose units differ in memory are not written with the same units text (no particular spelling is demanded)."""
    for e, objs in zip(eflrs, units):
        obj_els = e.elements('Object')
        if len(obj_els) != len(objs):
            continue
        for oe, attrs in zip(obj_els, objs):
            attr_els = oe.elements('Attribute')
            if len(attr_els) != len(attrs):
                continue
            seen = {}
            for ae, u in zip(attr_els, attrs):
                if u is None:
                    continue
                text = ae.attrs.get('units')
                other = seen.setdefault(text, u)
                if other != u:
                    return [({'kind': 'index_units_confused'}, 'logical file %d: attributes with units %r and %r in memory are both written with units=%r'
                             % (k, other, u, text))]
    return []


def check_index_document(root, snap, expect, private=True):
    """root: parsed RP66V1FileIndex; snap: memory_snapshot; expect: {'tables': [n per logical file], 'types': [...], 'frames': [...]} or None."""
    bad = []
    if root.name != 'RP66V1FileIndex':
        return [({'kind': 'index_structure', 'what': 'root'}, 'root element <%s>' % root.name)]
    lfs_el = root.find('LogicalFiles')
    lfs = lfs_el.elements('LogicalFile') if lfs_el is not None else []
    if len(lfs) != len(snap['lfs']) or (expect and len(lfs) != len(expect['tables'])):
        return [({'kind': 'logical_file_count'}, '%d <LogicalFile> elements, index holds %d, written %r'
                 % (len(lfs), len(snap['lfs']), expect and len(expect['tables'])))]
    for k, (el, mem) in enumerate(zip(lfs, snap['lfs'])):
        eflrs = el.elements('EFLR')
        want = expect['tables'][k] if expect else len(mem['eflr_pos'])
        if len(eflrs) != want or len(eflrs) != len(mem['eflr_pos']):
            bad.append(({'kind': 'eflr_count'}, 'logical file %d: %d <EFLR> elements, %d tables written, index holds %d'
                        % (k, len(eflrs), want, len(mem['eflr_pos']))))
        else:
            try:
                pos = [parse_int(e.attrs['lrsh_position']) for e in eflrs]
            except (KeyError, ValueError) as err:
                pos = None
                bad.append(({'kind': 'index_structure', 'what': 'eflr_position'}, '%s: %s' % (type(err).__name__, err)))
            if pos is not None and pos != mem['eflr_pos']:
                bad.append(({'kind': 'eflr_position'}, 'logical file %d: EFLR positions %r, index holds %r' % (k, pos, mem['eflr_pos'])))
            # every table is written with its objects; only the default form (private=False) leaves out the objects of private tables
            for e, objs in zip(eflrs, mem['numbers']):
                try:
                    lrt = parse_int(e.attrs.get('lr_type', ''))
                except ValueError:
                    lrt = -1
                n_el = len(e.elements('Object'))
                if n_el != len(objs) and not (not private and lrt >= 128 and n_el == 0):
                    bad.append(({'kind': 'index_objects_missing', 'private_set': lrt >= 128}, 'logical file %d: <EFLR lr_type=%r set_type=%r> written with %d <Object> elements, '
                                'the index holds %d objects' % (k, e.attrs.get('lr_type'), e.attrs.get('set_type'), n_el, len(objs))))
                    break
            bad += numbers_check(k, eflrs, mem['numbers'])
            bad += units_check(k, eflrs, mem.get('units', []))
        lp = el.find('LogPass')
        fas = lp.elements('FrameArray') if lp is not None else []
        ntypes = len(mem['fas']) if mem['has_log_pass'] else 0
        if expect and k == len(lfs) - 1 and sum(expect['frames']) > 0:
            ntypes = len(expect['types'])
        if len(fas) != ntypes:
            bad.append(({'kind': 'frame_array_count'}, 'logical file %d: %d <FrameArray> elements for %d frame types' % (k, len(fas), ntypes)))
            continue
        for fa_el, (ident, refs) in zip(fas, mem['fas']):
            refs = refs or []
            iflr = fa_el.find('IFLR')
            if iflr is None:
                bad.append(({'kind': 'index_structure', 'what': 'missing_IFLR'}, 'FrameArray %r without <IFLR>' % ident))
                continue
            if iflr.attrs.get('count') != '%d' % len(refs):
                bad.append(({'kind': 'rle_count_attribute', 'element': 'IFLR'}, '<IFLR count=%r> for %d frames' % (iflr.attrs.get('count'), len(refs))))
            bad += rle_check(iflr.find('FrameNumbers'), 'FrameNumbers', parse_int, [r[0] for r in refs], lambda g, e: g == e, 'rle_frame_numbers')
            bad += rle_check(iflr.find('LRSH'), 'LRSH', parse_int, [r[1] for r in refs], lambda g, e: g == e, 'rle_lrsh')
            xs = [r[2] for r in refs]
            bad += xaxis_check(iflr.find('Xaxis'), xs)
    bad += rle_check(root.find('VisibleRecords'), 'VisibleRecords', parse_int, snap['vr'], lambda g, e: g == e, 'rle_visible_records')
    return bad


def non_ascii_cause(exc, data):
    """'byte_ge_0x80_in_file_string' iff the implementation failed decoding, as ASCII, bytes that stand in the source file."""
    if isinstance(exc, UnicodeDecodeError) and exc.encoding == 'ascii' and isinstance(exc.object, (bytes, bytearray)) \
            and any(c >= 0x80 for c in exc.object) \
            and (bytes(exc.object) in data or all(bytes([c]) in data for c in exc.object if c >= 0x80)):
        return 'byte_ge_0x80_in_file_string'
    return 'other'


def check_rp66_index(data, expect, inject=None, name='f.dlis'):
    """inject: (slot, bytes) or None.  Returns ([(sig, msg)], outcome, status)."""
    import numpy as np
    from TotalDepth.RP66V1 import IndexXML
    from TotalDepth.RP66V1.core import LogicalFile
    path = os.path.join(scratch_dir(), name)
    with open(path, 'wb') as f:
        f.write(data)
    strings = [inject[1]] if inject else []
    try:
        index = LogicalFile.LogicalIndex(path)
        index.__enter__()
    except Exception as err:  # noqa   the reader's refusal of a file is C01-C04's subject, not this property's
        try:
            index.__exit__(None, None, None)
        except Exception:  # noqa
            pass
        return [], h64(('reader', type(err).__name__)), 'reader_rejects'
    out = io.StringIO()
    public_doc = None
    try:
        snap = memory_snapshot(index)
        try:
            with np.errstate(all='ignore'):
                IndexXML.write_logical_file_sequence_to_xml(index, out, True)
                # the default form of the index (private=False): the objects of private sets are left out, the entries are not
                out2 = io.StringIO()
                IndexXML.write_logical_file_sequence_to_xml(index, out2, False)
                public_doc = out2.getvalue()
        except Exception as err:  # noqa
            what = 'frame_type_without_frames' if type(err).__name__ == 'ExceptionLogPassXML' else non_ascii_cause(err, data)
            return [({'kind': 'index_xml_raises', 'exc': type(err).__name__, 'cause': what},
                     'write_logical_file_sequence_to_xml raised %s: %s' % (type(err).__name__, err))], h64(('raise', type(err).__name__)), 'raises'
    finally:
        index.__exit__(None, None, None)
    doc = out.getvalue()
    texts = [s.decode('latin-1') for s in strings]
    pr = X.parse(doc, xhtml=False)
    if not pr.ok:
        return [classify_failure(pr, 'IndexXML', texts, texts)], h64(doc_outcome(doc)), 'unparseable'
    bad = check_index_document(pr.root, snap, expect)
    if public_doc is not None:
        pr2 = X.parse(public_doc, xhtml=False)
        if not pr2.ok:
            bad.append(classify_failure(pr2, 'IndexXML', texts, texts))
        else:
            bad += [(dict(sg, form='private=False'), 'private=False: ' + msg) for sg, msg in check_index_document(pr2.root, snap, expect, private=False)]
    if inject and is_plain(inject[1]) and inject[1] in snap['bytes']:
        slot, s = inject
        tag, attr = RP_SLOTS[slot]
        want = s.decode('ascii')
        if slot == 'sul_id':
            want = s[:60].ljust(60).decode('ascii')
        got = [e.attrs.get(attr) for e in pr.root.iter() if e.name == tag]
        if want not in got:
            near = [g for g in got if g is not None and g == X.normalize_attribute_literal(want)]
            kind = 'attribute_whitespace_not_preserved' if near else 'attribute_value_changed'
            bad.append(({'kind': kind, 'writer': 'IndexXML', 'slot': slot},
                        '%s %r: no <%s %s=...> carries it; values are %r' % (slot, want, tag, attr, got[:8])))
    return bad, h64(doc_outcome(doc)), 'ok'


def doc_outcome(doc):
    """The document without the run dependent parts (paths, times)."""
    import re
    doc = re.sub(r'(utc_now|utc_file_mtime|path)="[^"]*"', r'\1=""', doc)
    return re.sub(r'c18-[0-9]+', 'c18', doc)


# ------------------------------------------------------------------------------------------------
# part B generators
# ------------------------------------------------------------------------------------------------
def gen_B(tier):
    """Yields case descriptors (JSON-able)."""
    import struct
    from props import c03, c04
    for lp, _ops in c04.gen_I(tier):
        yield {'part': 'B', 'src': 'c04', 'lp': lp}
    for i, (lp, _ops) in enumerate(c04.gen_V(tier)):
        if i % (1 if tier == 'thorough' else 9) == 0:
            yield {'part': 'B', 'src': 'c04', 'lp': lp}
    t0 = [c04.ch('X', 7, [1]), c04.ch('A', 13, [3])]
    t1 = [c04.ch('TIME', 17, [1]), c04.ch('B', 2, [1])]
    for n0, n1 in ((2, 0), (0, 2)):        # a frame type without frames beside one with frames
        yield {'part': 'B', 'src': 'c04', 'lp': {'types': [{'name': 'FT0', 'channels': t0, 'n': n0}, {'name': 'FT1', 'channels': t1, 'n': n1}],
                                                  'order': None, 'empty_at': None, 'layout': 'one'}}
    yield {'part': 'B', 'src': 'high'}
    f32 = lambda v: struct.unpack('>f', struct.pack('>f', v))[0]   # noqa
    for code, xs in [(7, [1000.0, 1000.5, 1001.0, 1001.5]), (7, [0.25, 13.25, 1e300, 39.25, 52.25]),
                     (2, [0.5, 13.5, 3.4028234663852886e38, 39.5, 52.5]), (7, [k / 10 for k in range(1, 8)]),
                     (7, [2000.0 - k / 10 for k in range(6)]), (2, [f32(k / 10) for k in range(1, 8)]), (7, [5.0, 5.0, 5.0]),
                     (7, [3.0, 2.0, 1.0, 1.0, 7.5]),
                     # almost regular: the third value departs from the run by far more than rounding (microsecond jitter
                     # on a TIME axis) but by less than 1e-9 relative - it must not be absorbed into the run
                     (7, [43200.0, 43200.5, 43201.000004, 43201.5, 43202.0]), (7, [1.0, 2.0, 3.0000000001, 4.0, 5.0]),
                     (7, [1e6, 1e6 + 1, 1e6 + 2.0001, 1e6 + 3])]:
        yield {'part': 'B', 'src': 'xs', 'code': code, 'xs': xs}
    for i, (files, _ins) in enumerate(c03.gen_F(tier)):
        if i % (1 if tier == 'thorough' else 7) == 0:     # set names made 7-bit: the structure of the index is judged
            yield {'part': 'B', 'src': 'c03', 'files': c03.jsonable(files), 'layout': 'split' if i % 2 else 'one', 'seven_bit': True}
        if i % (7 if tier == 'thorough' else 49) == 0:    # as C03 writes them (one set is named b'\xb0N')
            yield {'part': 'B', 'src': 'c03', 'files': c03.jsonable(files), 'layout': 'split' if i % 2 else 'one', 'seven_bit': False}
    for slot in RP_SLOTS:
        for k, s in enumerate(byte_strings(tier)):
            yield {'part': 'B', 'src': 'slot', 'slot': slot, 's': hexs(s), 'layout': 'split' if k % 5 == 4 else 'one'}


def run_case_B(case):
    from props import c03, c04
    if case['src'] == 'c04':
        lp = case['lp']
        data, _lay, recs = c04.build(lp)
        expect = {'tables': [4], 'types': [t['name'].encode() for t in lp['types']], 'frames': [len(r) for r in recs]}
        return check_rp66_index(data, expect)
    if case['src'] == 'c03':
        files = c03.fix_types(c03.unjson(case['files']))
        if case.get('seven_bit'):
            for lf in files:
                for item in lf:
                    if isinstance(item, dict) and item.get('name') is not None:
                        item['name'] = bytes(c if c < 0x80 else 0x6F for c in item['name'])
        data, exp = c03.build(files, case['layout'])
        return check_rp66_index(data, {'tables': [len(t) for t in exp], 'types': [], 'frames': []})
    if case['src'] == 'high':
        data, expect = build_awkward_rp66(None, b'', 'one', highbytes=True)
        return check_rp66_index(data, expect)
    if case['src'] == 'xs':
        data, expect = build_awkward_rp66(None, b'', 'one', xs=case['xs'], xcode=case['code'])
        return check_rp66_index(data, expect)
    s = bytes.fromhex(case['s'])
    data, expect = build_awkward_rp66(case['slot'], s, case['layout'])
    return check_rp66_index(data, expect, inject=(case['slot'], s))


# =================================================================================================
# part C
# =================================================================================================
def parse_only(doc, writer, strings, xhtml=None):
    texts = [s.decode('latin-1') if isinstance(s, bytes) else s for s in strings]
    pr = X.parse(doc, xhtml=xhtml)
    if not pr.ok:
        return [classify_failure(pr, writer, texts, texts)]
    return []


def html_raises(writer, err, data):
    cause = non_ascii_cause(err, data)
    return ({'kind': 'html_writer_raises', 'writer': writer, 'exc': type(err).__name__, 'cause': cause},
            '%s raised %s: %s' % (writer, type(err).__name__, err))


def run_case_scan(case):
    import numpy as np
    from TotalDepth.RP66V1 import ScanHTML
    from TotalDepth.RP66V1.core import LogicalFile
    from TotalDepth.common import Slice
    if 'lp' in case:
        from props import c04
        s = b''
        data = c04.build(case['lp'])[0]
    else:
        s = bytes.fromhex(case['s'])
        data, _expect = build_awkward_rp66(case['slot'], s, 'one')
    path = os.path.join(scratch_dir(), 's.dlis')
    with open(path, 'wb') as f:
        f.write(data)
    try:
        with LogicalFile.LogicalIndex(path):
            pass
    except Exception as err:  # noqa
        return [], h64(('reader', type(err).__name__)), 'reader_rejects'
    out = io.StringIO()
    try:
        with np.errstate(all='ignore'):
            ScanHTML.html_scan_RP66V1_file_data_content(path, out, False, Slice.Slice(), True)
    except Exception as err:  # noqa
        sig, msg = html_raises('ScanHTML', err, data)
        if isinstance(err, KeyError) and 'lp' in case and any(t['n'] == 0 for t in case['lp']['types']):
            sig['cause'] = 'frame_type_without_frames'
        return [(sig, msg)], h64(('raise', type(err).__name__)), 'raises'
    doc = out.getvalue()
    return parse_only(doc, 'ScanHTML', [s]), h64(doc_outcome(doc)), 'ok'


LIS_SLOTS = {'reel_comments': 74, 'tape_name': 8, 'file_name': 10, 'cons_mnem': 4, 'cons_value': 12, 'cons_units': 4,
             'table_name': 4, 'comment_record': 24, 'chan_mnem': 4, 'chan_units': 4}


def build_awkward_lis(slot, s):
    from models import lis_ref as L
    from props import c06

    def fld(name, default):
        if slot != name:
            return default
        n = LIS_SLOTS[name]
        return s[:n].ljust(n)
    recs = [L.reel_tape_head_tail(132, name=b'REEL0001', comments=fld('reel_comments', b'comments')),
            L.reel_tape_head_tail(130, name=fld('tape_name', b'TAPE0001')),
            L.file_head_tail(128, file_name=fld('file_name', b'RUNOne.S01')),
            L.table_record(34, fld('table_name', b'CONS'), [b'MNEM', b'STAT', b'PUNI', b'TUNI', b'VALU'],
                           [[fld('cons_mnem', b'BS  '), b'ALLO', b'IN  ', b'IN  ', (8.5, b'IN  ')],
                            [b'HID ', b'ALLO', b'    ', b'    ', (fld('cons_value', b'well name 1 '), fld('cons_units', b'    '))]]),
            L.lr_header(234) + fld('comment_record', b'operator comment')]
    spec = c06.base_spec([c06.chan('DEPT', 68, units='FEET'), c06.chan('GR  ', 68, units='GAPI')], 4, 2)
    body, _model = c06.build_pass(spec, 0)
    if slot == 'chan_units':
        assert body[0].count(b'GAPI') == 1
        body[0] = body[0].replace(b'GAPI', fld('chan_units', b'GAPI'))
    if slot == 'chan_mnem':
        assert body[0].count(b'GR  ') == 1
        body[0] = body[0].replace(b'GR  ', fld('chan_mnem', b'GR  '))
    recs += body
    recs += [L.file_head_tail(129), L.reel_tape_head_tail(131, name=b'TAPE0001'), L.reel_tape_head_tail(133, name=b'REEL0001')]
    data, _lay = L.build_file(recs, 65535)
    return data


def run_case_lis(case):
    from TotalDepth.LIS import LisToHtml
    from TotalDepth.LIS.core import File, FileIndexer
    s = bytes.fromhex(case['s'])
    data = build_awkward_lis(case['slot'], s)
    d = scratch_dir()
    path = os.path.join(d, 'l.lis')
    with open(path, 'wb') as f:
        f.write(data)
    try:
        fr = File.FileRead(io.BytesIO(data), 'l.lis', keepGoing=False)
        idx = FileIndexer.FileIndex(fr)
        for _ie in idx.genAll():
            pass
    except Exception as err:  # noqa
        return [], h64(('reader', type(err).__name__)), 'reader_rejects'
    out_base = os.path.join(d, 'lis_out', 'l.lis')
    html = out_base + '.html'
    if os.path.exists(html):
        os.remove(html)
    try:
        summary = LisToHtml.processFile(path, out_base, False)
    except Exception as err:  # noqa
        return [html_raises('LisToHtml', err, data)], h64(('raise', type(err).__name__)), 'raises'
    if summary is None or not os.path.exists(html):
        return [({'kind': 'html_writer_raises', 'writer': 'LisToHtml', 'exc': 'logged', 'cause': 'other'},
                 'LisToHtml.processFile produced no document (summary %r)' % (summary,))], h64('none'), 'raises'
    with open(html, 'rb') as f:
        doc = f.read()
    strings = [s]
    if case['slot'] == 'comment_record':      # LisToHtml also shows such a record read as EBCDIC (cp500) text
        import codecs
        n = LIS_SLOTS['comment_record']
        strings.append(codecs.decode(s[:n].ljust(n), 'cp500'))
    return parse_only(doc, 'LisToHtml', strings), h64(doc_outcome(doc.decode('utf-8', 'replace'))), 'ok'


LAS_STRINGS = ['x<&>"\'y', 'p\x00q', 'p\x01\x1fq', 'p\x7f\x85q', 'p\xe9\ufffeq', 'p\uffffq', 'p]]>--q', 'p\tq', 'p&#0;q', 'p&nbsp;q']
LAS_SLOTS = ['well_value', 'well_desc', 'well_unit', 'curve_desc', 'curve_unit', 'curve_mnem', 'param_value', 'param_desc', 'vers_desc',
             'other_line', 'user_section_line']


def build_awkward_las(slot, s):
    from models import las_ref
    unit = s.replace(' ', '_').replace('\t', '_').replace(':', '_')

    def fld(name, default):
        return s if slot == name else default
    mnem = 'GR'
    if slot == 'curve_mnem':
        mnem = ''.join(c for c in s if c not in ' \t.:~#') or 'GR'
    content = las_ref.make_content(
        well_extra=[['WELL', unit if slot == 'well_unit' else '', fld('well_value', 'ANY WELL'), fld('well_desc', 'WELL')]],
        curves=[['DEPT', 'M', '', '1 DEPTH'], [mnem, unit if slot == 'curve_unit' else 'GAPI', '', fld('curve_desc', '2 GAMMA')]],
        params=[['BHT', 'DEGC', fld('param_value', '35.5'), fld('param_desc', 'BOTTOM HOLE TEMPERATURE')]],
        frames=[['100.0', '1.5'], ['100.5', '2.5'], ['101.0', '3.5']],
        vdesc=(fld('vers_desc', 'CWLS LOG ASCII STANDARD - VERSION 2.0'), 'ONE LINE PER DEPTH STEP'))
    text = las_ref.render(content)
    if slot in ('other_line', 'user_section_line'):
        # free text sections: ~Other (standard) and a user defined one; their lines are text, written as they are
        assert '\n' not in s and '\r' not in s and not s.lstrip().startswith('~') and s.strip(), 'not a free text line'
        title = '~Other Information' if slot == 'other_line' else '~Tops'
        head, sep, tail = text.partition('~ASCII')
        assert sep
        text = head + title + '\n' + s + '\nplain second line\n' + sep + tail
    return text


def run_case_las(case):
    from TotalDepth.LAS import LASToHTML
    from TotalDepth.LAS.core import LASRead
    s = case['s']
    try:
        text = build_awkward_las(case['slot'], s)
    except AssertionError:
        return [], h64('not representable'), 'not_representable'
    d = scratch_dir()
    path = os.path.join(d, 'a.las')
    with open(path, 'wb') as f:
        f.write(text.encode('utf-8', 'surrogatepass'))
    try:
        LASRead.LASRead(path, path, raise_on_error=True)
    except Exception as err:  # noqa
        return [], h64(('reader', type(err).__name__)), 'reader_rejects'
    html = os.path.join(d, 'a.las.html')
    if os.path.exists(html):
        os.remove(html)
    try:
        LASToHTML.las_file_to_html(path, html, 'LAS2.0', False, False, None)
    except Exception as err:  # noqa
        return [html_raises('LASToHTML', err, text.encode('utf-8', 'surrogatepass'))], h64(('raise', type(err).__name__)), 'raises'
    with open(html, 'rb') as f:
        doc = f.read()
    return parse_only(doc, 'LASToHTML', [s]), h64(doc_outcome(doc.decode('utf-8', 'replace'))), 'ok'


def svg_strings(tier):
    out = [''] + ALPHA + EXTRA + ['\r\n', '<&', '&#0;', 'a\tb', ' a ']
    if tier == 'thorough':
        out += [''.join(t) for t in itertools.product(ALPHA, repeat=2)]
    return out


SVG_SHAPES = ['g', 'rect', 'circle', 'elipse', 'line', 'polyline', 'polygon', 'text']


def run_case_svg(case):
    from TotalDepth.util import XmlWrite
    from TotalDepth.util.plot import Coord, SVGWriter
    s = case['s']
    out = io.StringIO()
    dim = lambda v: Coord.Dim(v, 'in')   # noqa
    pt = Coord.Pt(dim(1), dim(2))
    box = Coord.Box(dim(3), dim(4))
    pts = [Coord.Pt(Coord.Dim(1.25, 'px'), Coord.Dim(2, 'px')), Coord.Pt(Coord.Dim(3, 'px'), Coord.Dim(-4.5, 'px'))]
    attrs = {'class': s, 'stroke-dasharray': '2,2'}
    try:
        with SVGWriter.SVGWriter(out, Coord.Box(dim(8.5), dim(11)), {'id': s}) as xs:
            with XmlWrite.Element(xs, 'desc'):
                xs.characters(s)
            with SVGWriter.SVGGroup(xs, dict(attrs)):
                with SVGWriter.SVGRect(xs, pt, box, dict(attrs)):
                    pass
                with SVGWriter.SVGCircle(xs, pt, dim(0.5), dict(attrs)):
                    pass
                with SVGWriter.SVGElipse(xs, pt, dim(0.5), dim(0.25), dict(attrs)):
                    pass
                with SVGWriter.SVGLine(xs, pt, Coord.Pt(dim(2), dim(3)), dict(attrs)):
                    pass
                with SVGWriter.SVGPolyline(xs, pts, dict(attrs)):
                    pass
                with SVGWriter.SVGPolygon(xs, pts, dict(attrs)):
                    pass
                with SVGWriter.SVGText(xs, pt, s, 12, dict(attrs)):
                    xs.characters(s)
                # the documented optional parts left out: no location (text inside <defs>), no attributes, neither
                with SVGWriter.SVGText(xs, None, s, 12, dict(attrs)):
                    xs.characters(s)
                with SVGWriter.SVGText(xs, None, s, 12):
                    xs.characters(s)
                with SVGWriter.SVGText(xs, pt, s, 12):
                    xs.characters(s)
    except Exception as err:  # noqa
        return [({'kind': 'writer_raises', 'exc': type(err).__name__, 'op': 'svg', 'writer': 'SVGWriter'},
                 'SVGWriter: %s: %s' % (type(err).__name__, err))], h64(('raise', type(err).__name__)), 'raises'
    doc = out.getvalue()
    pr = X.parse(doc, xhtml=False)
    if not pr.ok:
        return [classify_failure(pr, 'SVGWriter', [s], [s])], h64(doc), 'unparseable'
    if not X.all_chars(s):
        return [], h64(doc), 'ok'
    bad = []
    # a caller that passes one attribute dictionary to every element it writes gets the document it would get with a fresh
    # copy each time, and its dictionary back as it was
    pts2 = [Coord.Pt(Coord.Dim(7, 'px'), Coord.Dim(8, 'px')), Coord.Pt(Coord.Dim(9, 'px'), Coord.Dim(10, 'px')), Coord.Pt(Coord.Dim(11, 'px'), Coord.Dim(12, 'px'))]

    def shared_doc(share, points=list):
        o = io.StringIO()
        mine = dict(attrs)
        a = (lambda: mine) if share else (lambda: dict(attrs))
        with SVGWriter.SVGWriter(o, Coord.Box(dim(8.5), dim(11))) as w:
            with SVGWriter.SVGPolyline(w, points(pts), a()):
                pass
            with SVGWriter.SVGPolyline(w, points(pts2), a()):
                pass
            with SVGWriter.SVGLine(w, pt, Coord.Pt(dim(2), dim(3)), a()):
                pass
            with SVGWriter.SVGPolygon(w, points(pts2), a()):
                pass
            with SVGWriter.SVGRect(w, pt, box, a()):
                pass
            with SVGWriter.SVGCircle(w, pt, dim(0.5), a()):
                pass
            with SVGWriter.SVGText(w, pt, s, 12, a()):
                w.characters(s)
            with SVGWriter.SVGGroup(w, a()):
                with SVGWriter.SVGElipse(w, pt, dim(0.5), dim(0.25), a()):
                    pass
        return o.getvalue(), mine
    try:
        d_fresh, _ = shared_doc(False)
        d_shared, mine = shared_doc(True)
        # the points given as a tuple and as a one-shot iterator (a generator over the data): the same document
        d_other = [shared_doc(False, points=fn)[0] for fn in (tuple, iter)]
    except Exception as err:  # noqa
        return [({'kind': 'writer_raises', 'exc': type(err).__name__, 'op': 'svg_shared_attrs', 'writer': 'SVGWriter'},
                 'SVGWriter: %s: %s' % (type(err).__name__, err))], h64(('raise', type(err).__name__)), 'raises'
    # a document written to a path that already holds a longer one: the file is the new document, nothing of the old one
    path = os.path.join(scratch_dir(), 'over.svg')
    try:
        for repeat in (40, 1):
            with SVGWriter.SVGWriter(path, Coord.Box(dim(8.5), dim(11))) as w:
                for _ in range(repeat):
                    with SVGWriter.SVGLine(w, pt, Coord.Pt(dim(2), dim(3)), dict(attrs)):
                        pass
        with open(path, 'rb') as f:
            on_disc = f.read()
        o = io.StringIO()
        with SVGWriter.SVGWriter(o, Coord.Box(dim(8.5), dim(11))) as w:
            with SVGWriter.SVGLine(w, pt, Coord.Pt(dim(2), dim(3)), dict(attrs)):
                pass
        if on_disc.decode('utf-8', 'replace') != o.getvalue():
            bad.append(({'kind': 'file_written_over_a_longer_one_differs', 'writer': 'SVGWriter'},
                        'a one-line document written to a path that held a 40-line one: the file has %d bytes, the document %d; the file ends %r'
                        % (len(on_disc), len(o.getvalue().encode('utf-8')), on_disc[-60:])))
    except Exception as err:  # noqa
        bad.append(({'kind': 'writer_raises', 'exc': type(err).__name__, 'op': 'svg_to_path', 'writer': 'SVGWriter'}, 'SVGWriter to a path: %s: %s' % (type(err).__name__, err)))
    for how, d in zip(('tuple', 'iterator'), d_other):
        if d != d_fresh:
            bad.append(({'kind': 'svg_points_depend_on_container', 'how': how, 'writer': 'SVGWriter'},
                        'points given as a %s: the document differs from the one written from a list:\n%s\n-- from a list:\n%s' % (how, d[-500:], d_fresh[-500:])))
    if d_shared != d_fresh or mine != attrs:
        bad.append(({'kind': 'svg_attributes_depend_on_earlier_elements', 'writer': 'SVGWriter'},
                    'one attribute dictionary %r passed to every element: it comes back as %r and the document differs from the one '
                    'written with a fresh copy per element:\n%s\n-- fresh copies:\n%s' % (attrs, mine, d_shared[-700:], d_fresh[-700:])))
    root = pr.root
    shapes = [e.name for e in root.iter()]
    if shapes != ['svg', 'desc'] + SVG_SHAPES + ['text', 'text', 'text']:
        bad.append(({'kind': 'structure_changed', 'what': 'children', 'writer': 'SVGWriter'}, 'elements %r' % shapes))
        return bad, h64(doc), 'ok'
    texts = [e for e in root.iter() if e.name == 'text']
    checks = [(root, 'id')] + [(e, 'class') for e in root.iter() if e.name in SVG_SHAPES and e not in texts[2:]]
    checks += [(e, 'font-family') for e in texts]
    for e, want_xy in zip(texts, (True, False, False, True)):
        if ('x' in e.attrs and 'y' in e.attrs) != want_xy:
            bad.append(({'kind': 'structure_changed', 'what': 'attribute_names', 'writer': 'SVGWriter'},
                        '<text> written %s a location has attributes %r' % ('with' if want_xy else 'without', sorted(e.attrs))))
    for e, a in checks:
        if e.attrs.get(a) != s:
            bad.append(({'kind': attr_mismatch_kind(s, e.attrs.get(a) or ''), 'writer': 'SVGWriter'},
                        '<%s %s> written %r recovered %r' % (e.name, a, s, e.attrs.get(a))))
    for e in root.iter():
        if e.name in ('desc', 'text') and e.text() != s:
            bad.append(({'kind': text_mismatch_kind(s, e.text()), 'writer': 'SVGWriter'},
                        '<%s> text written %r recovered %r' % (e.name, s, e.text())))
    return bad, h64(doc), 'ok'


def gen_C(tier):
    from props import c04
    strs = byte_strings(tier) if tier == 'thorough' else short_byte_strings()
    t0 = [c04.ch('X', 7, [1]), c04.ch('A', 13, [3])]
    t1 = [c04.ch('TIME', 17, [1]), c04.ch('B', 2, [1])]
    for n0, n1 in ((2, 2), (2, 0)):
        yield {'part': 'C', 'writer': 'ScanHTML', 's': '', 'lp': {'types': [{'name': 'FT0', 'channels': t0, 'n': n0}, {'name': 'FT1', 'channels': t1, 'n': n1}],
                                                                   'order': None, 'empty_at': None, 'layout': 'one'}}
    for slot in RP_SLOTS:
        for s in strs:
            yield {'part': 'C', 'writer': 'ScanHTML', 'slot': slot, 's': hexs(s)}
    for slot in LIS_SLOTS:
        for s in strs:
            yield {'part': 'C', 'writer': 'LisToHtml', 'slot': slot, 's': hexs(s)}
    for slot in LAS_SLOTS:
        for s in LAS_STRINGS:
            yield {'part': 'C', 'writer': 'LASToHTML', 'slot': slot, 's': s}
    for s in svg_strings(tier):
        yield {'part': 'C', 'writer': 'SVGWriter', 's': s}


RUN_C = {'ScanHTML': run_case_scan, 'LisToHtml': run_case_lis, 'LASToHTML': run_case_las, 'SVGWriter': run_case_svg}


def run_case(case):
    import warnings
    with warnings.catch_warnings():
        warnings.simplefilter('ignore')      # numpy / syntax warnings of the library on tiny arrays
        if case['part'] == 'B':
            return run_case_B(case)
        return RUN_C[case['writer']](case)


def case_nontrivial(case):
    if case['part'] == 'B':
        return True
    s = case['s']
    return 'lp' in case or (bool(s) and s not in ('a', '61'))


# =================================================================================================
# runner interface
# =================================================================================================
NB = 24
NC = 12


def shards(tier):
    out = []
    k = A_CHUNKS[tier]
    for writer in ('XmlStream', 'XhtmlStream'):
        for chunk in range(k):
            out.append({'part': 'A', 'writer': writer, 'api': 'stream', 'chunk': chunk, 'of': k})
        out.append({'part': 'A', 'writer': writer, 'api': 'element', 'chunk': 0, 'of': 1})
    out += [{'part': 'B', 'shard': p, 'of': NB} for p in range(NB)]
    out += [{'part': 'C', 'shard': p, 'of': NC} for p in range(NC)]
    return out


def run_shard(shard, tier):
    res = Result()
    if shard['part'] == 'A':
        run_A(shard, tier, res)
        return res
    gen = gen_B(tier) if shard['part'] == 'B' else gen_C(tier)
    try:
        for i, case in enumerate(gen):
            if i % shard['of'] != shard['shard']:
                continue
            bad, outcome, status = run_case(case)
            res.case(h64(repr(case)), nontrivial=case_nontrivial(case), outcome=outcome,
                     sample=case if i % 197 == 3 else None)
            res.traces += 1
            who = case.get('writer', 'IndexXML')
            res.count('%s_%s_files' % (shard['part'], who))
            if status != 'ok':
                res.count('%s_%s_%s' % (shard['part'], who, status))
            for sig, msg in bad:
                res.violate(sig, case, msg)
    finally:
        remove_scratch()
    return res


def replay(case):
    try:
        if case['part'] == 'A':
            bad = replay_A(case)
        else:
            bad = run_case(case)[0]
    finally:
        remove_scratch()
    return [{'sig': s, 'case': case, 'msg': m} for s, m in bad]
