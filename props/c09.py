"""C09 - LAS files parse to their content, independent of layout.

Bounded exhaustive enumeration of (content model x layout model) texts produced by models/las_ref.py, each read by
TotalDepth.LAS.core.LASRead.LASRead and judged by two oracles:

1. content oracle: every section line (mnem, unit, valu typed by the independent rule, desc), lookup by mnemonic, and
   the frame array (channel order, idents, units, every value; unparseable cells equal to the FILE's NULL);
2. differential oracle: every layout of one content gives the same observation as the canonical layout of that
   content (needs no expected value; it also binds the cells for which the content oracle accepts two readings).
"""
import io
import itertools
import json
import logging
import os

from mc.run import Result, h64
from models import las_ref as L

ID = 'C09'
LEVEL = 'exploration'
DESIGN_REF = 'DESIGN.md section 4, C09; section 5 F12, F13, F14'
ENGINE = 'E1 small-scope enumerator'
TECHNIQUE = 'grammar-directed exhaustive text generation (content x layout) + reference typing rule + layout-differential comparison'
SINGLE_OUTCOME_OK = False
LEVEL_TEXT = ('exploration: every text of the bounded content/layout grammar is produced once and parsed by the real reader; '
              'the answer is compared field by field with the content it was produced from and with the parse of the '
              'canonical layout of the same content.  Complete inside the bounds, silent outside them.')
LEVEL_NOTE = ('trusts models/las_ref.py as the reading of the LAS 1.2/2.0 line grammar (first dot, first blank after the '
              'dot, last colon) and of the value typing rule; logging is disabled in the workers (no effect on results)')
BOUNDS = {
    'quick': 'shape family: vers{2.0,1.2} x NULL{-999.25,-9999} x 1..3 curves x 1..3 frames (+ 0..3 extra well lines, '
             'no/empty/1/2 parameter lines): canonical layout + every single layout deviation (23 non-gap deviations, 4 '
             'fillers at every inter-line gap); <=2 deviations for 3 of those contents; field family: full product '
             'mnem(8) x unit(6) x valu(12) x desc(7) on one well / curve / parameter line in canonical layout and, for '
             'lines one field away from the default, every single header deviation; STRT and version line sweeps; cell '
             'family: full product of 7 cell texts over the non-index cells of 2x1, 2x2, 2x3, 3x1 (curves x frames), both '
             'NULLs, canonical + up to 14 data layouts (wrap modes, separators, leading/trailing blanks, no final newline, wrap x separator); 5 index number styles; text tails: 1..3 curves x 1..3 frames of one- and two-character cells x wrap4 x final newline2 x lead2 x trail2 x sep2; smallest content (1 curve, 1 frame): full product of header '
             'paddings 3x3x2x3x3x3 x wrap2 x dlead2 x dtrail2 x titles2 x eol2 x 5 gap fillings, and every subset of its '
             '13 gaps for each of the 4 fillers',
    'thorough': 'as quick with <=2 deviations for every shape content, field product under every single header deviation, '
                'cells 3x2 added and the 108-layout data product (wrap4 x sep3 x dlead3 x dtrail3) for the smaller shapes, '
                'layout product with all dimensions 3-valued for the smallest content and for 2 curves x 2 frames '
                '(with separators and 3 wrap modes), gap subsets also for the wrapped 2x2 content (17 gaps, 2 fillers)',
}
RULE = ('each distinct rendered text is evaluated once (layouts that give the same text are merged; key = hash of the text); '
        'non-trivial = the layout deviates from the canonical one or the content is not the default content; '
        'outcome = hash of the full observation (all section fields + frame array) or of the exception')
ASSUMPTIONS = [
    'LAS 1.2 writes the value AFTER the colon for the well lines COMP, WELL, FLD, LOC, PROV, SRVC, DATE, UWI; LASRead has no '
    'version switch, so 1.2 contents are restricted to the lines whose layout is identical in both versions (a 1.2 well '
    'section holds only STRT, STOP, STEP, NULL; version, curve, parameter and data sections are unrestricted)',
    'descriptions contain no colon; mnemonics no blank, dot or colon; units follow the dot directly and contain no blank or '
    'colon; a value is separated from the units by at least one blank; header padding is blanks only (tabs only in data lines)',
    'the index (first) column holds distinct LAS numbers; DATE.D / TIME.HHMMSS channels are outside the statement',
    "data cells 'NaN'/'inf' are not LAS numbers but Python reads them: either the IEEE value or the file's NULL is accepted "
    '(the differential oracle still requires all layouts to agree)',
    'the raw array data is compared; of the mask only this is required: a cell that is a LAS number other than the file NULL is not masked (whether NULL cells are masked is not in the statement)',
    'the WRAP value itself (yes/no) is the one observation that depends on the layout and is excluded from the differential oracle',
    "header values spelled like Python-only numbers ('1_000', 'Infinity', 'nan') are not generated",
    'when a curve mnemonic is read back as a number/bool equal to another channel index, FrameArray stores data in the wrong '
    'channel and leaves one channel uninitialised; those cells are reported once as mnem_type_converted/'
    'channel_data_misassigned and their (varying) values are not compared or hashed, to keep runs deterministic',
]

# ---------------------------------------------------------------------------------------------------------------
# alphabets (simplest first)
# ---------------------------------------------------------------------------------------------------------------
MNEMS = ['GR', 'A1', 'SFLU', 'X-Y_2', '42', 'NO', 'TIME', 'DATE']   # TIME / DATE: the reader has special (DATE, D) and (TIME, HHMMSS) channels; with other units they are ordinary curves
UNITS = ['', 'M', 'F', 'US/F', '.1IN', 'S']
VALUES = ['', '7', '-7', '1.5', '1e3', 'yes', 'NO', 'Yes', 'nO', '12:30:00', '13-DEC-86', 'A.B 1', 'a b  c', '9007199254740993']   # last: an integer that no double holds (2^53 + 1)
DESCS = ['', 'text', 'two words', '1 DEPTH', 'x.y', '42', 'yes']
CASE_PAIRS = [('Gr', 'GR'), ('GR', 'gr'), ('gr', 'Gr'), ('GR', 'GRX'), ('GRX', 'GR'), ('A1', 'a1')]
CELLS = ['1.5', '-0.25', '1e-3', L.CELL_NULL, 'abc', 'NaN', '1.2.3']

WELL_POOL = [['COMP', '', 'ANY OIL COMPANY INC.', 'COMPANY'], ['TIME', '', '12:30:00', 'LOG TIME'],
             ['DATE', '', '13-DEC-86', 'LOG DATE']]
CURVE_POOL = [['DEPT', 'M', '', '1 DEPTH'], ['GR', 'GAPI', '45 310 01 00', '2 GAMMA RAY'], ['A1', 'US/F', '', '']]
PARAM_POOL = [['BS', '.1IN', '8.5', 'BIT SIZE'], ['MUD', '', 'GEL CHEM', 'MUD TYPE']]
INDEX = ['100.0', '100.5', '101.0']
COLS = [None, ['1.5', 'abc', L.CELL_NULL], ['-0.25', '1e-3', '1.2.3']]
INDEX_STYLES = {
    'dec': ['100.0', '100.5', '101.0'],
    'int': ['100', '101', '102'],
    'exp': ['1.0E+02', '1.005E+02', '1.01e2'],
    'neg': ['-0.5', '-1.0', '-1.5'],
    'up': ['.5', '0.25', '+0.125'],
}
VDESC = {'2.0': ['CWLS LOG ASCII STANDARD - VERSION 2.0', 'ONE LINE PER DEPTH STEP'],
         '1.2': ['CWLS LOG ASCII STANDARD - VERSION 1.2', 'ONE LINE PER DEPTH STEP']}

NEAR_BASE = ['M', '1.5', 'two words']
HEADER_DIMS = ('predot', 'uv', 'precolon', 'postcolon', 'lead', 'trail')
DATA_DIMS = ('wrap', 'sep', 'dlead', 'dtrail')


def shape_content(vers='2.0', null='-9999', ncur=2, nfr=2, nextra=1, nparam=1, index='dec', cells=None):
    """Default content of a given shape.  cells: optional list (row major) of the non-index cell texts."""
    if vers == '1.2':
        nextra = 0
    frames = []
    it = iter(cells) if cells is not None else None
    for f in range(nfr):
        row = [INDEX_STYLES[index][f]]
        for c in range(1, ncur):
            row.append(next(it) if it is not None else COLS[c][f])
        frames.append(row)
    return L.make_content(vers=vers, null=null, well_extra=WELL_POOL[:nextra], curves=CURVE_POOL[:ncur],
                          params=None if nparam is None else PARAM_POOL[:nparam], frames=frames, vdesc=VDESC[vers])


def shape_list():
    """The shape family, smallest first."""
    out = []
    for ncur, nfr in sorted(itertools.product((1, 2, 3), (1, 2, 3)), key=lambda t: (t[0] * t[1], t)):
        for vers in ('2.0', '1.2'):
            for null in ('-999.25', '-9999'):
                out.append({'vers': vers, 'null': null, 'ncur': ncur, 'nfr': nfr, 'nextra': 1, 'nparam': 1})
    for nextra, nparam in [(0, None), (0, 0), (2, 2), (3, 0), (3, 2)]:
        out.append({'vers': '2.0', 'null': '-9999', 'ncur': 2, 'nfr': 2, 'nextra': nextra, 'nparam': nparam})
    for nparam in (None, 0, 2):
        out.append({'vers': '1.2', 'null': '-999.25', 'ncur': 2, 'nfr': 2, 'nextra': 0, 'nparam': nparam})
    return out


QUICK_PAIR_SHAPES = [
    {'vers': '2.0', 'null': '-999.25', 'ncur': 1, 'nfr': 2, 'nextra': 0, 'nparam': None},
    {'vers': '1.2', 'null': '-999.25', 'ncur': 2, 'nfr': 2, 'nextra': 0, 'nparam': 0},
    {'vers': '2.0', 'null': '-9999', 'ncur': 3, 'nfr': 2, 'nextra': 1, 'nparam': 1},
]

SMALLEST = {'vers': '2.0', 'null': '-999.25', 'ncur': 1, 'nfr': 1, 'nextra': 0, 'nparam': None}
SMALL22 = {'vers': '2.0', 'null': '-9999', 'ncur': 2, 'nfr': 2, 'nextra': 0, 'nparam': None}


# ---------------------------------------------------------------------------------------------------------------
# shards
# ---------------------------------------------------------------------------------------------------------------
def shards(tier):
    out = []
    for i, _ in enumerate(shape_list()):
        out.append({'fam': 'shape', 'i': i, 'k': 1 if tier == 'quick' else 2})
    if tier == 'quick':
        for i, _ in enumerate(QUICK_PAIR_SHAPES):
            out.append({'fam': 'shape2', 'i': i})
    for kind in ('W', 'C', 'P'):
        for m in MNEMS:
            out.append({'fam': 'field', 'kind': kind, 'mnem': m})
    out.append({'fam': 'field', 'kind': 'S'})
    out.append({'fam': 'field', 'kind': 'V'})
    cell_shapes = [(2, 1), (2, 2), (2, 3), (3, 1)] + ([(3, 2)] if tier != 'quick' else [])
    for ncur, nfr in cell_shapes:
        for null in ('-999.25', '-9999'):
            firsts = CELLS if (ncur - 1) * nfr >= 3 else [None]
            for first in firsts:
                out.append({'fam': 'cells', 'ncur': ncur, 'nfr': nfr, 'null': null, 'first': first})
    out.append({'fam': 'index'})
    out.append({'fam': 'case'})
    for nfr in (1, 2, 3):
        out.append({'fam': 'nullzero', 'nfr': nfr})
    out.append({'fam': 'dups'})
    for ncur in (1, 2, 3):
        out.append({'fam': 'tail', 'ncur': ncur})
    for lead, predot, precolon in itertools.product((0, 1, 7), (0, 1, 7), (1, 0, 7)):
        if tier == 'quick':
            out.append({'fam': 'product', 'content': 'smallest', 'lead': lead, 'predot': predot, 'precolon': precolon})
        else:
            for postcolon in (1, 0, 7):
                for content in ('smallest', 'small22'):
                    out.append({'fam': 'product', 'content': content, 'lead': lead, 'predot': predot,
                                'precolon': precolon, 'postcolon': postcolon})
    for fk in L.FILLER_KINDS:
        for hi in range(8):
            out.append({'fam': 'gaps', 'content': 'smallest', 'fill': fk, 'hi': hi, 'hibits': 3})
    if tier != 'quick':
        for fk in ('s', 'i'):
            for hi in range(32):
                out.append({'fam': 'gaps', 'content': 'small22w', 'fill': fk, 'hi': hi, 'hibits': 5})
    return out


# ---------------------------------------------------------------------------------------------------------------
# the single-case oracle
# ---------------------------------------------------------------------------------------------------------------
_READY = False


def _lasread():
    global _READY
    from TotalDepth.LAS.core import LASRead
    if not _READY:
        logging.disable(logging.CRITICAL)   # the reader logs a warning per unparseable cell; silence, do not change behaviour
        _READY = True
    return LASRead


_PATH = None


def _scratch_path():
    global _PATH
    if _PATH is None:
        from mc import seams
        os.makedirs(seams.SCRATCH, exist_ok=True)
        # the path a caller may well hold: through a symbolic link to a directory and up again ('current/../well.las'), which the
        # operating system resolves from the link's target - the text of the path, tidied, names another place
        import atexit
        import shutil
        base = os.path.join(seams.SCRATCH, 'c09-%d' % os.getpid())
        shutil.rmtree(base, ignore_errors=True)
        os.makedirs(os.path.join(base, 'store', 'run_1'))
        os.makedirs(os.path.join(base, 'work'))
        os.symlink(os.path.join(base, 'store', 'run_1'), os.path.join(base, 'work', 'current'))
        _PATH = os.path.join(base, 'work', 'current', '..', 'well.las')
        atexit.register(lambda: shutil.rmtree(base, ignore_errors=True))
    return _PATH


def _pin(path):
    from mc import seams
    seams.pin_times(path)


def observe(text, content, by_path=False, by_fd=False, tolerant=False):
    """Parse `text` with the implementation.  Returns (obs, exc): obs is a flat dict in the key space of
    las_ref.expected() (or None), exc is (type name, message) when the reader raised.
    by_path: the text is written to a file (bytes as they are, ASCII) and the reader is given the path."""
    import numpy as np
    LASRead = _lasread()
    try:
        if by_fd:
            # a file object made from a descriptor (its .name is a number), handed over without a file identity
            with open(_scratch_path(), 'w', newline='', encoding='ascii') as f:
                f.write(text)
            _pin(_scratch_path())
            with os.fdopen(os.open(_scratch_path(), os.O_RDONLY), 'r') as fobj:
                las = LASRead.LASRead(fobj)
        elif by_path:
            with open(_scratch_path(), 'w', newline='', encoding='ascii') as f:
                f.write(text)
            _pin(_scratch_path())
            las = LASRead.LASRead(_scratch_path(), 'C09')
        else:
            las = LASRead.LASRead(io.StringIO(text), 'C09', raise_on_error=False) if tolerant else LASRead.LASRead(io.StringIO(text), 'C09')
    except Exception as err:  # the property defines the result for every generated text: raising is a violation
        return None, (type(err).__name__, str(err))
    obs = {}
    sections = list(las.generate_sections())
    obs[('sections',)] = ('str', ''.join(str(s.type) for s in sections))
    for s in sections:
        if s.type == 'A':
            continue
        obs[(s.type, 'n')] = ('int', len(s.members))
        for i, mem in enumerate(s.members):
            for fld in ('mnem', 'unit', 'valu', 'desc'):
                obs[(s.type, i, fld)] = L.tag(getattr(mem, fld))
    # the list of mnemonics of a section is the caller's once handed out: reversed and extended by the caller, the next one is as before
    for s_ in sections:
        if s_.type != 'A' and hasattr(s_, 'mnemonics'):
            first = list(s_.mnemonics())
            mine = s_.mnemonics()
            mine.reverse()                      # same length, another order
            second = list(s_.mnemonics())
            mine = s_.mnemonics()
            mine.append('ZZZ')                  # another length
            if second != first or list(s_.mnemonics()) != first or first != [m.mnem for m in s_.members]:
                obs[(s_.type, 'mnemonics')] = ('str', 'mnemonics() %r after the caller changed the list it was given; lines %r' % (list(s_.mnemonics()), [m.mnem for m in s_.members]))
    # a section indexed by line number, counted from the front and from the back, is that line
    for s_ in sections:
        if s_.type != 'A':
            n_ = len(s_.members)
            wrong = []
            for i in range(-n_, n_):
                try:
                    if s_[i] is not s_.members[i]:
                        wrong.append('[%d] is not line %d' % (i, i % n_))
                except Exception as err:  # noqa
                    wrong.append('[%d] raises %s' % (i, type(err).__name__))
            if wrong:
                obs[(s_.type, 'by_number')] = ('str', '; '.join(wrong[:4]))
    # lookup by mnemonic text, as a user of the API would do: las[section][mnemonic]
    for sname, lines in (('W', content['well']), ('C', content['curves']), ('P', content['params'] or [])):
        if not las.has_section(sname):
            continue
        sect = las[sname]
        for i, ln in enumerate(lines):
            try:
                got = sect[ln[0]]
                where = [j for j, mem in enumerate(sect.members) if mem is got]
                obs[(sname, i, 'lookup')] = ('int', where[0]) if where else ('str', 'not a member')
            except (KeyError, IndexError) as err:
                obs[(sname, i, 'lookup')] = ('str', type(err).__name__)
    fa = las.frame_array
    if fa is not None:
        obs[('A', 'nchan')] = ('int', len(fa.channels))
        lens = sorted({len(ch.array) for ch in fa.channels})
        obs[('A', 'nframes')] = ('int', lens[0]) if len(lens) == 1 else ('str', repr(lens))
        for c, ch in enumerate(fa.channels):
            obs[('A', c, 'ident')] = L.tag(ch.ident)
            obs[('A', c, 'units')] = L.tag(ch.units)
            arr = np.ma.getdata(ch.array)
            mask = np.ma.getmaskarray(ch.array)
            for f in range(len(arr)):
                obs[('A', c, f, 'masked')] = repr(bool(np.asarray(mask[f]).any()))
                cell = np.asarray(arr[f]).reshape(-1)
                if cell.size == 1 and isinstance(cell[0].item(), float):
                    obs[('A', c, f)] = repr(float(cell[0]))
                else:
                    obs[('A', c, f)] = 'not-a-float:' + repr(arr[f].tolist())
    return obs, None


def expected_with_lookup(content, layout):
    exp = L.expected(content, layout)
    for sname, lines in (('W', content['well']), ('C', content['curves']), ('P', content['params'] or [])):
        names = [ln[0].strip() for ln in lines]
        for i, _ln in enumerate(lines):
            exp[(sname, i, 'lookup')] = ('int', names.index(names[i]))     # the first line of that name
    return exp


def _field_text(content, key):
    sect = {'W': content['well'], 'C': content['curves'], 'P': content['params'] or [],
            'V': [['VERS', '', content['vers'], content['vdesc'][0]], ['WRAP', '', '', content['vdesc'][1]]]}[key[0]]
    return sect[key[1]]['mnem unit valu desc'.split().index(key[2])]


def _converted(text, got):
    """True when `got` is what the value typing rule makes of a text field that should have stayed text."""
    typed = L.type_value(text)
    return typed[0] != 'str' and L.same(typed, got)


def _hijacked(obs):
    """{channel index i: position p} when the ident of channel p is a non-text value equal to the integer i != p.
    FrameArray.__getitem__(i) then returns channel p, channel i is never written and holds uninitialised memory."""
    n = obs.get(('A', 'nchan'), ('int', 0))[1]
    out = {}
    for p in range(n):
        ident = obs.get(('A', p, 'ident'))
        if ident is not None and ident[0] in ('int', 'bool', 'float'):
            for i in range(n):
                if i != p and ident[1] == i:
                    out[i] = p
    return out


def classify(content, layout, key, want, got, obs):
    """-> (sig, message) for one deviating observation key."""
    null = content['null']
    if key[0] == 'A' and len(key) == 3 and isinstance(key[2], int):
        c, f = key[1], key[2]
        cell = content['frames'][f][c]
        msg = 'frame %d channel %d: cell text %r read as %s, expected %s (file NULL %s)' % (
            f, c, L.cell_text(cell, null), got, ' or '.join(sorted(want)), null)
        if L.cell_unparseable(cell) and got == repr(-999.25) and float(null) != -999.25:
            return {'kind': 'unparseable_cell_not_file_null', 'null': json.loads(null)}, msg
        hj = _hijacked(obs)
        if c in hj or c in hj.values():
            # a curve mnemonic converted to False/True/0/1.. collides with the integer channel index inside FrameArray:
            # values are stored in the wrong channel and this one keeps uninitialised memory (value not printed: it varies)
            p = hj.get(c, c)
            return ({'kind': 'mnem_type_converted', 'effect': 'channel_data_misassigned'},
                    'frame %d channel %d: cell text %r not read back; curve mnemonic %r became %r and is confused with a '
                    'channel index' % (f, c, L.cell_text(cell, null), content['curves'][p][0], obs[('A', p, 'ident')][1]))
        return {'kind': 'cell_mismatch', 'unparseable': bool(L.cell_unparseable(cell))}, msg
    if key[0] == 'A' and key[-1] in ('ident', 'units'):
        text = content['curves'][key[1]][0 if key[-1] == 'ident' else 1]
        msg = 'channel %d %s is %r (%s), curve section says %r' % (key[1], key[-1], got[1], got[0], text)
        if got is not None and _converted(text, got):
            return {'kind': 'mnem_type_converted' if key[-1] == 'ident' else 'unit_type_converted'}, msg
        return {'kind': 'channel_%s_mismatch' % key[-1]}, msg
    if len(key) == 3 and key[2] in ('mnem', 'unit', 'desc'):
        text = _field_text(content, key)
        msg = 'section %s line %d: %s written %r read as %r (%s)' % (key[0], key[1], key[2], text, got[1], got[0])
        if _converted(text, got):
            return {'kind': '%s_type_converted' % key[2]}, msg
        return {'kind': '%s_mismatch' % key[2]}, msg
    if len(key) == 3 and key[2] == 'valu':
        text = 'YES/NO' if key == L.WRAP_KEY else _field_text(content, key)
        msg = 'section %s line %d: value written %r read as %r (%s), typing rule gives %r (%s)' % (
            key[0], key[1], text, got[1], got[0], want[1], want[0])
        return {'kind': 'valu_mismatch', 'want': want[0], 'got': got[0]}, msg
    if len(key) == 3 and key[2] == 'lookup':
        text = _field_text(content, (key[0], key[1], 'mnem'))
        msg = 'section %s: lookup of mnemonic %r gives %r, it is line %d' % (key[0], text, got[1], key[1])
        g = obs.get((key[0], key[1], 'mnem'))
        if g is not None and _converted(text, g):
            return {'kind': 'mnem_type_converted'}, msg
        return {'kind': 'lookup_mismatch'}, msg
    return {'kind': 'shape_mismatch', 'what': str(key[-1])}, '%r is %r, expected %r' % (key, got, want)


def classify_exception(content, layout, exc):
    lay = L.full_layout(layout)
    msg = 'reader raised %s: %s' % exc
    if (lay['wrap'] is not None and len(content['curves']) == 1 and len(content['frames']) > 1
            and exc[0] == 'ExceptionLASReadSectionArray' and 'array overflow' in exc[1]):
        return {'kind': 'wrap_single_curve_rejected'}, msg
    return {'kind': 'parse_raised', 'exc': exc[0]}, msg


def evaluate(content, layout, text=None):
    """Run one (content, layout) through the reader and the content oracle.
    -> {'text', 'obs', 'exc', 'devs': {key: (sig, msg)}}"""
    if text is None:
        text = L.render(content, layout)
    obs, exc = observe(text, content)
    devs = {}
    if exc is not None:
        devs[('exception',)] = classify_exception(content, layout, exc)
    else:
        exp = expected_with_lookup(content, layout)
        hj = _hijacked(obs)
        for key in (obs if hj else ()):     # uninitialised memory: keep the observation deterministic
            if key[0] == 'A' and len(key) == 3 and isinstance(key[2], int) and key[1] in hj:
                obs[key] = 'misassigned'
        for key in sorted(set(exp) | set(obs), key=repr):
            want, got = exp.get(key), obs.get(key)
            if len(key) == 4 and key[3] == 'masked':
                if want is not None and got is not None and got not in want:
                    cell = content['frames'][key[2]][key[1]]
                    devs[key] = ({'kind': 'data_value_masked'}, 'frame %d channel %d: the data value %r is masked in the channel array (file NULL %s)'
                                 % (key[2], key[1], cell, content['null']))
                continue        # whether NULL cells are masked is not in the statement
            if want is None or got is None:
                devs[key] = ({'kind': 'shape_mismatch', 'what': 'missing' if got is None else 'extra'},
                             '%r: expected %r, reader has %r' % (key, want, got))
            elif isinstance(want, set):
                if got not in want:
                    devs[key] = classify(content, layout, key, want, got, obs)
            elif not L.same(want, got):
                devs[key] = classify(content, layout, key, want, got, obs)
    if exc is None and content.get('both_modes'):
        # the keep-going mode of the reader (what the command line tools use) reads a valid file as the strict mode does
        obs_t, exc_t = observe(text, content, tolerant=True)
        if exc_t is not None:
            devs[('tolerant',)] = ({'kind': 'tolerant_mode_raised', 'exc': exc_t[0]}, 'raise_on_error=False: reader raised %s: %s' % exc_t)
        elif obs_t != obs:
            keys = sorted((k for k in set(obs) | set(obs_t) if obs.get(k) != obs_t.get(k)), key=repr)
            devs[('tolerant',)] = ({'kind': 'tolerant_mode_differs', 'what': repr(keys[0][:2])},
                                   'raise_on_error=False reads %r as %r, raise_on_error=True as %r (%d differences)'
                                   % (keys[0], obs_t.get(keys[0]), obs.get(keys[0]), len(keys)))
    return {'text': text, 'obs': obs, 'exc': exc, 'devs': devs}


def _flat(ev):
    if ev['obs'] is None:
        return {('exception',): ev['exc'][0]}
    return {k: v for k, v in ev['obs'].items() if k != L.WRAP_KEY}


def differential(ev, canon, layout):
    """Keys on which this layout's observation differs from the canonical layout's.  A difference that the content
    oracle already classifies (on either side) keeps that classification, marked oracle=differential."""
    a, b = _flat(ev), _flat(canon)
    out = {}
    dims = '+'.join(sorted(k for k, v in layout.items() if v != L.CANONICAL[k]))
    for key in sorted(set(a) | set(b), key=repr):
        if a.get(key) == b.get(key):
            continue
        base = ev['devs'].get(key) or canon['devs'].get(key)
        if ev['obs'] is None or canon['obs'] is None:
            base = ev['devs'].get(('exception',)) or canon['devs'].get(('exception',))
        msg = 'layout-dependent parse (%s): %r is %r here but %r in the canonical layout' % (dims, key, a.get(key), b.get(key))
        if base is not None:
            sig = dict(base[0])
            sig['oracle'] = 'differential'
            out[key] = (sig, msg + '; ' + base[1])
        else:
            what = key[-1] if isinstance(key[-1], str) else 'cell'
            out[key] = ({'kind': 'layout_dependent', 'what': what, 'dims': dims}, msg)
        if ev['obs'] is None or canon['obs'] is None:
            break
    return out


def check_case(content, layout, canon=None, text=None):
    """The oracle for one case.  -> (list of (sig, msg), outcome hash, evaluation)"""
    ev = evaluate(content, layout, text)
    found = []
    seen = set()
    for key in sorted(ev['devs'], key=repr):
        sig, msg = ev['devs'][key]
        sig = dict(sig)
        sig['oracle'] = 'content'
        k = json.dumps(sig, sort_keys=True)
        if k not in seen:
            seen.add(k)
            found.append((sig, msg))
    if L.n_deviations(layout):
        if canon is None:
            canon = evaluate(content, {})
        diff = differential(ev, canon, layout)
        for key in sorted(diff, key=repr):
            sig, msg = diff[key]
            k = json.dumps(sig, sort_keys=True)
            if k not in seen:
                seen.add(k)
                found.append((sig, msg))
    if L.n_deviations(layout) <= 1 and ev['obs'] is not None and not _hijacked(ev['obs']) and all(ord(c) < 128 for c in ev['text']):
        # the reader given the path of a file holding the same characters reads the same content
        obs2, exc2 = observe(ev['text'], content, by_path=True)
        if L.n_deviations(layout) == 0 and exc2 is None and obs2 == ev['obs']:
            obs2, exc2 = observe(ev['text'], content, by_fd=True)
        if exc2 is not None or obs2 != ev['obs']:
            keys = [] if obs2 is None else sorted((k for k in set(obs2) | set(ev['obs']) if obs2.get(k) != ev['obs'].get(k)), key=repr)[:4]
            sig = {'kind': 'path_read_differs_from_stream_read', 'oracle': 'differential', 'raised': exc2[0] if exc2 else None}
            if json.dumps(sig, sort_keys=True) not in seen:
                found.append((sig, 'the same text read through a file path: %s' % (
                    'reader raised %s: %s' % exc2 if exc2 else '; '.join('%r is %r by path, %r from the stream' % (k, obs2.get(k), ev['obs'].get(k)) for k in keys))))
    outcome = h64(repr(sorted(ev['obs'].items(), key=repr)) if ev['obs'] is not None else repr(ev['exc']))
    return found, outcome, ev


def _msg(msg, text):
    return '%s\n--- LAS text (%d chars) ---\n%s' % (msg, len(text), text)


# ---------------------------------------------------------------------------------------------------------------
# enumeration
# ---------------------------------------------------------------------------------------------------------------
class _Runner:
    def __init__(self):
        self.res = Result()
        self.seen = set()

    def run(self, content, layouts, default_content=False, sample_at=None):
        canon = None
        for n, lay in enumerate(layouts):
            text = L.render(content, lay)
            key = h64(text)
            if key in self.seen:       # two layouts that give the same text are one case: judged once
                continue
            self.seen.add(key)
            ndev = L.n_deviations(lay)
            if ndev and canon is None:
                canon = evaluate(content, {})
            found, outcome, ev = check_case(content, lay, canon, text)
            if not ndev:
                canon = ev
            case = {'content': content, 'layout': lay}
            self.res.case(key, nontrivial=bool(ndev) or not default_content, outcome=outcome,
                          sample=case if n == sample_at else None)
            self.res.count('wrapped' if lay.get('wrap') is not None else 'unwrapped')
            if ev['exc'] is not None:
                self.res.count('reader_raised')
            for sig, msg in found:
                self.res.violate(sig, case, _msg(msg, ev['text']))


def _line_contents(kind, mnems):
    """Contents that vary one well / curve / parameter line over the full product of the field alphabets."""
    for m, u, v, d in itertools.product(mnems, UNITS, VALUES, DESCS):
        line = [m, u, v, d]
        near = sum(1 for a, b in zip(line[1:], NEAR_BASE) if a != b) <= 1   # any mnemonic, <= 1 other field off the plain line
        if kind == 'W':
            c = L.make_content(well_extra=[line], curves=CURVE_POOL[:2], params=PARAM_POOL[:1],
                               frames=[['100.0', '1.5'], ['100.5', '-0.25']], vdesc=VDESC['2.0'])
        elif kind == 'C':
            c = L.make_content(well_extra=WELL_POOL[:1], curves=[CURVE_POOL[0], line], params=PARAM_POOL[:1],
                               frames=[['100.0', '1.5'], ['100.5', '-0.25']], vdesc=VDESC['2.0'])
        else:
            c = L.make_content(vers='1.2', null='-999.25', curves=CURVE_POOL[:2], params=[line, PARAM_POOL[1]],
                               frames=[['100.0', '1.5'], ['100.5', '-0.25']], vdesc=VDESC['1.2'])
        yield c, near


def header_layouts():
    return [{}] + [{k: v} for k, v in L.DEVIATIONS if k in HEADER_DIMS]


def data_layouts(content, tier, full):
    if full:
        dims = {'wrap': [None, 'all', 1, 2], 'sep': [' ', '\t', '  \t '], 'dlead': ['', ' ', '\t '], 'dtrail': ['', '  ', ' \t']}
        lays, seen = [], set()
        for lay in L.product_layouts(content, dims, [None]):
            t = L.render(content, lay)
            if t not in seen:
                seen.add(t)
                lays.append(lay)
        return lays
    lays = [{}] + [{k: v} for k, v in L.DEVIATIONS if (k in DATA_DIMS or k in ('eol', 'nl', 'wrapcase')) and L.relevant((k, v), content)]
    lays += [{'wrap': w, 'sep': s} for w in ('all', 2) for s in ('\t', '  \t ') if L.relevant(('wrap', w), content)]
    return lays


def run_shard(shard, tier):
    r = _Runner()
    fam = shard['fam']
    if fam == 'shape':
        spec = shape_list()[shard['i']]
        content = shape_content(**spec)
        r.run(content, L.layouts_upto(content, shard['k']), default_content=True, sample_at=5)
    elif fam == 'shape2':
        content = shape_content(**QUICK_PAIR_SHAPES[shard['i']])
        r.run(content, L.layouts_upto(content, 2), default_content=True)
    elif fam == 'field':
        kind = shard['kind']
        hl = header_layouts()
        if kind in ('W', 'C', 'P'):
            for content, near in _line_contents(kind, [shard['mnem']]):
                r.run(content, hl if (near or tier != 'quick') else [{}])
        elif kind == 'S':
            for u, v, d in itertools.product(UNITS, ['100.0', '100', '1e2', '-1.0E+02'], DESCS):
                curves = [[CURVE_POOL[0][0], u] + CURVE_POOL[0][2:], CURVE_POOL[1]]
                head = [['STRT', u, v, d], ['STOP', u, '100.5', 'STOP DEPTH'], ['STEP', u, '0.5', d],
                        ['NULL', '', '-999.25', d]]
                for vers in ('2.0', '1.2'):
                    c = L.make_content(vers=vers, null='-999.25', curves=curves, frames=[['100.0', '1.5'], ['100.5', 'abc']],
                                       vdesc=VDESC[vers], well_head=head)
                    r.run(c, hl)
        else:
            for d0, d1 in itertools.product(DESCS, DESCS):
                for vers in ('2.0', '1.2'):
                    c = L.make_content(vers=vers, null='-999.25', curves=CURVE_POOL[:2], frames=[['100.0', '1.5']],
                                       vdesc=[d0, d1])
                    r.run(c, hl + [{'wrap': 'all'}])
    elif fam == 'cells':
        ncur, nfr, null = shard['ncur'], shard['nfr'], shard['null']
        ncell = (ncur - 1) * nfr
        full = tier != 'quick' and (ncur, nfr) != (3, 2)
        lays = None
        free = ncell - (1 if shard['first'] is not None else 0)
        for rest in itertools.product(CELLS, repeat=free):
            cells = ([shard['first']] if shard['first'] is not None else []) + list(rest)
            content = shape_content(null=null, ncur=ncur, nfr=nfr, nextra=0, nparam=None, cells=cells)
            if lays is None:
                lays = data_layouts(content, tier, full)
            r.run(content, lays)
    elif fam == 'case':
        # curve names that differ in letter case only, or where one starts with the other, are different curves - in both modes of the reader
        for a, b in CASE_PAIRS:
            for ncur in (3, 4):
                curves = [CURVE_POOL[0], [a, 'GAPI', '', 'first'], [b, 'GAPI', '', 'second'], ['RHOB', 'G/C3', '', 'density']][:ncur]
                for nfr in (1, 2, 3):
                    frames = [[INDEX_STYLES['dec'][f]] + [COLS[(c - 1) % 2 + 1][f] if c != 2 else '%d.25' % (f + 7) for c in range(1, ncur)] for f in range(nfr)]
                    for vers in ('2.0', '1.2'):
                        content = L.make_content(vers=vers, null='-999.25', well_extra=[], curves=curves, params=None, frames=frames, vdesc=VDESC[vers])
                        content['both_modes'] = True
                        r.run(content, data_layouts(content, tier, tier != 'quick'))
    elif fam == 'index':
        for style in INDEX_STYLES:
            for ncur, nfr in itertools.product((1, 2), (1, 2, 3)):
                for vers in ('2.0', '1.2'):
                    content = shape_content(vers=vers, null='-999.25', ncur=ncur, nfr=nfr, nextra=0, nparam=None, index=style)
                    r.run(content, data_layouts(content, tier, tier != 'quick'))
    elif fam == 'nullzero':
        # a file whose NULL is 0: the default absent value -999.25 is then an ordinary reading
        nfr = shard['nfr']
        lays = None
        for cells in itertools.product(['-999.25', L.CELL_NULL, '1.5', 'abc', '0.0', '12.5%'], repeat=nfr):
            for ncur in (2, 3):
                content = shape_content(null='0', ncur=ncur, nfr=nfr, nextra=0, nparam=None,
                                        cells=[cells[f] if c == 0 else ['-999.25', '7', '0'][f] for f in range(nfr) for c in range(ncur - 1)])
                if lays is None or ncur == 3:
                    lays = data_layouts(content, tier, False)
                r.run(content, lays)
    elif fam == 'dups':
        # a mnemonic that comes twice in the well / parameter section (two runs in one file): every line is still reported,
        # a lookup by name gives the first, and the lines after the repeat - NULL among them - are found under their own names
        run = [['RUN', '', '1', 'RUN ONE'], ['RUN', '', '2', 'RUN TWO']]
        bht = [['BHT', 'DEGC', '35.5', 'FIRST RUN'], ['BHT', 'DEGC', '36', 'SECOND RUN']]
        for null in ('-9999', '-999.25', '0'):
            for where in ('before_null', 'after_null', 'params_first', 'params_last', 'both'):
                head = [['STRT', 'M', '100.0', 'START DEPTH'], ['STOP', 'M', '101.0', 'STOP DEPTH'], ['STEP', 'M', '0.5', 'STEP']]
                nl = ['NULL', '', L.NULL_TEXTS[null][0], 'NULL VALUE']
                well = head + (run + [nl] if where in ('before_null', 'both') else [nl] + (run if where == 'after_null' else []))
                params = {'params_first': bht + PARAM_POOL[:2], 'params_last': PARAM_POOL[:1] + bht, 'both': [bht[0], PARAM_POOL[0], bht[1], PARAM_POOL[1]]}.get(where, PARAM_POOL[:1])
                # the last triple: readings next to the file's NULL that are not the NULL (they are data, and not masked)
                near = {'-9999': ['-9998.95', '-9999.05', '-9999.0000001'], '-999.25': ['-999.2500001', '-999.255', '-999.2401'],
                        '0': ['1e-9', '-4.9e-9', '2.2250738585072014e-308']}[null]
                for cells in (['1.5', 'abc', L.CELL_NULL], ['abc', '2.5', '-999.25'], ['%s', '100%', '1.5'], near):
                    content = L.make_content(null=null, well_head=well, well_extra=WELL_POOL[:1], curves=CURVE_POOL[:2], params=params,
                                             frames=[[x, c] for x, c in zip(('100.0', '100.5', '101.0'), cells)], vdesc=VDESC['2.0'], dups=True)
                    r.run(content, data_layouts(content, tier, False))
    elif fam == 'tail':
        # the end of the text: lines of one or two characters, with and without the final newline, wrapped or not
        ncur = shard['ncur']
        dims = {'wrap': [None, 'all', 1, 2], 'eol': [True, False], 'dlead': ['', ' '], 'dtrail': ['', ' '], 'sep': [' ', '\t'], 'nl': ['\n', '\r\n']}
        for nfr in (1, 2, 3):
            for digits in (['1', '2', '3', '4', '5', '6', '7', '8', '9'], ['-1', '0', '1', '2', '-3', '4', '5', '6', '7']):
                frames = [[digits[f]] + [digits[3 + (f * (ncur - 1) + c) % 6] for c in range(ncur - 1)] for f in range(nfr)]
                for vers in ('2.0', '1.2'):
                    content = L.make_content(vers=vers, null='-999.25', well_extra=[], curves=CURVE_POOL[:ncur], params=None,
                                             frames=frames, vdesc=VDESC[vers])
                    r.run(content, L.product_layouts(content, dims, [None]))
    elif fam == 'product':
        content = shape_content(**(SMALLEST if shard['content'] == 'smallest' else SMALL22))
        dims = {'lead': [shard['lead']], 'predot': [shard['predot']], 'precolon': [shard['precolon']],
                'uv': [1, 7], 'trail': [0, 1, 7], 'eol': [True, False], 'nl': ['\n', '\r\n']}
        if tier == 'quick':
            dims.update({'postcolon': [1, 0, 7], 'wrap': [None, 'all'], 'dlead': ['', '\t '], 'dtrail': ['', ' \t'],
                         'titles': ['long', 'short']})
        else:
            dims.update({'postcolon': [shard['postcolon']], 'dlead': ['', ' ', '\t '], 'dtrail': ['', '  ', ' \t'],
                         'titles': ['long', 'short', 'cols']})
            if shard['content'] == 'smallest':
                dims['wrap'] = [None, 'all']
            else:
                dims.update({'wrap': [None, 'all', 1], 'sep': [' ', '\t', '  \t ']})
        r.run(content, L.product_layouts(content, dims, [None] + L.FILLER_KINDS), default_content=True)
    elif fam == 'gaps':
        if shard['content'] == 'smallest':
            content, base = shape_content(**SMALLEST), {}
        else:
            content, base = shape_content(**SMALL22), {'wrap': 'all'}
        ng = L.n_gaps(content, base)
        lo = ng - shard['hibits']

        def gen():
            yield {}
            for bits in range(1 << lo):
                mask = (shard['hi'] << lo) | bits
                lay = dict(base)
                lay['gaps'] = [[g, shard['fill']] for g in range(ng) if mask >> g & 1]
                yield lay
        r.run(content, gen(), default_content=True)
    else:
        raise ValueError(shard)
    return r.res


def replay(case):
    found, _outcome, ev = check_case(case['content'], case.get('layout') or {})
    return [{'sig': sig, 'case': case, 'msg': _msg(msg, ev['text'])} for sig, msg in found]
