"""C19 - Plotted curves stay inside their track and wrap consistently.  Exhaustive small-scope enumeration.

Part (a): PRESCfg.LineTransLin / LineTransLog10 (wrapPos, L2P, offScale) on the full product track edges x scale edges
x boundary floats x back-up modes, against exact arithmetic (fractions.Fraction; 60 digit decimal for log10).
Part (b): whole plots.  LIS files come from models/lis_ref (own FILM / PRES tables and channel values), LAS files
from models/las_ref; plots are produced by Plot.PlotReadLIS / Plot.PlotReadXML (plotLogPassLIS, plotLogPassLAS) and by
PlotLogs.PlotLogPasses, the SVG is parsed with expat (xml.etree) and every polyline point is compared with the
view box, the plot margins and the span of the curve's own track.
"""
import decimal
import itertools
import math
import os
import shutil
import sys
import xml.etree.ElementTree as ET
from fractions import Fraction

from mc.run import Result, h64

ID = 'C19'
LEVEL = 'exploration'
NEEDS_EXT = True
ENGINE = 'E1 small-scope enumerator'
DESIGN_REF = 'DESIGN.md section 4, C19'
TECHNIQUE = ('full product of track edges x scale edges x boundary floats x back-up modes against exact rational / 60 digit '
             'decimal arithmetic; bounded enumeration of plot configurations x data shapes with a geometric SVG oracle')
SINGLE_OUTCOME_OK = False
RULE = ('(a) every (track, left edge, right edge, value, back-up mode) of the alphabets once; non-trivial = the value is not '
        'inside the scale (wrap != 0 or no scale position); outcome = (wrap, position, offScale).  (b) every plot '
        'configuration of the group generators once (PRES track x mode x scale x data shape; FILM grids x depth scales x '
        'plot scale x direction; every built-in format x shape rotation x scale; LIS and LAS input; Plot and PlotLogs entry); '
        'non-trivial = at least one value is off the scale, absent or not plottable; outcome = hash of the curve points')
ASSUMPTIONS = [
    'non-finite values are outside the statement ("for all finite values") and are not generated',
    'a value <= 0 has no position on a logarithmic scale: part (a) accepts any exception and any returned position that lies '
    'inside the track, and only rejects a returned position outside the track / not finite (that point would be plotted); part (b) '
    'requires that such values never put a point outside the track and never stop the plot',
    'BACKUP_LEFT / BACKUP_RIGHT: the constant is documented as "single backup to left/right only" but encodes an unlimited '
    'number; offScale is required to be 0 for wrap 0 and one wrap on the named side and non-zero on the other side, more than '
    'one wrap on the named side may be reported either way',
    'tolerances of part (a) are derived from the floating point operations of a direct evaluation (a few rounding errors '
    'of the quotient, the logarithm and the products, including the absolute error of a subnormal quotient); a value whose '
    'exact position is within that tolerance of a wrap boundary may be given either wrap',
    'a curve point that lies on an edge of the curve\'s own track can be an interpolated wrap point and is not counted as a '
    'data point; data points are counted as distinct depths (the library repeats the first point after a wrap)',
    'at least one curve is demanded only when some value of a plotted channel, in a frame before the last one, is strictly '
    'inside its scale (the plotted interval [first X, last X) does not have to contain the last frame)',
    'a log pass of one frame has no depth interval to plot: only "no malformed file is left behind" is required',
    'plot margins, paper width and view box units are read from PlotConstants (they define "the margins" of the statement)',
    'polylines are attributed to curves by their stroke attributes (LIS CODI/COLO, LgFormat Color/LineStyle); a polyline '
    'whose stroke matches no curve is checked against the union of all tracks of the plot',
]
BOUNDS = {
    'quick': '(a) 3 tracks x (72 linear + 30 logarithmic) scale pairs x 90-140 boundary floats x 6 back-up modes (75 294 evaluations); '
             '(b) 6 639 plots of 12 frames (plus 1, 2, 3, 5 frame passes): 16 PRES tracks x (4 linear modes x 6 scales + GRAD x 4 scales) '
             'x 9 data shapes with one curve at scale 0; 15 FILM grids x 7 depth scales x plot scales {0, 200, 1000} x up/down x shape '
             'rotations (a third) with 4 curves from 3 outputs, destinations 1/2/12/BOTH/ALL, missing COLO / MODE columns; 29 built-in '
             'formats x 9 shape rotations x 3 scales for LIS and for LAS input (half of the non-default scales); PlotLogs on LIS with '
             'FILM/PRES tables, on LIS and LAS with every format (a third of the rotations)',
    'thorough': 'as quick, with a second curve of the same output on every PRES plot, frames in {12, 25, 2, 1} and plot scales '
                '{0, 200, 1000} in the PRES product (24 192 plots), every rotation in the FILM and format products, 25 / 60 frame passes',
}
LEVEL_TEXT = ('Every combination of the stated alphabets is evaluated on the real transforms and compared with exact arithmetic; '
              'every plot of the enumerated configurations is parsed and every curve point compared with the geometry of the '
              'configuration, so a point outside the track, a mis-wrapped position or a plot that is not produced for one of these '
              'inputs cannot be missed.  Inputs outside the alphabets are not covered.')
LEVEL_NOTE = ('trusted: models/lis_ref.py and models/las_ref.py producers, the documented three/four track layouts, '
              'PlotConstants (margins), expat')

EPS = Fraction(1, 2 ** 53)

# =====================================================================================================================
# Part (a): line transforms
# =====================================================================================================================
TRACKS = [(0.0, 1.0), (3.2, 5.6), (-2.0, 7.0)]
LIN_EDGES = [0.0, 1.0, -1.0, 20.0, -80.0, 150.0, 1e-3, -1e-3, 1e6]
LOG_EDGES = [2.0, 20.0, 0.2, 2000.0, 1e-5, 1e5]
MODE_NAMES = ['ALL', 'NONE', 'ONCE', 'TWICE', 'LEFT', 'RIGHT']
MAXF = sys.float_info.max
MINSUB = 5e-324


def _nbrs(x):
    if not math.isfinite(x):
        return []
    return [x, math.nextafter(x, math.inf), math.nextafter(x, -math.inf)]


def values_for(lL, rL, log):
    """Boundary floats for one scale, simplest first, finite, without duplicates."""
    out = [0.0, MINSUB, -MINSUB, 1e-300, -1e-300]
    width = rL - lL
    for k in range(0, 4):
        for e in (lL, rL):
            for s in ((0,) if k == 0 else (1, -1)):
                out.extend(_nbrs(e + s * k * width))
    if log:
        ratio = rL / lL
        for k in range(-3, 5):
            try:
                out.extend(_nbrs(lL * ratio ** k))
            except OverflowError:
                pass
        out.extend([math.sqrt(lL * rL), 1.0])
    else:
        out.append(lL + width / 2)
    out.extend([1e300, -1e300, MAXF, -MAXF])
    seen = set()
    res = []
    for v in out:
        if math.isfinite(v) and (v, math.copysign(1, v)) not in seen:
            seen.add((v, math.copysign(1, v)))
            res.append(v)
    return res


def offscale_expected(mode, w):
    """Set of acceptable offScale() results for wrap count w under a back-up mode."""
    if w == 0:
        return {0}
    sgn = -1 if w < 0 else 1
    if mode == 'ALL':
        return {0}
    if mode == 'NONE':
        return {sgn}
    if mode in ('ONCE', 'TWICE'):
        lim = 1 if mode == 'ONCE' else 2
        return {0} if abs(w) <= lim else {sgn}
    side = -1 if mode == 'LEFT' else 1
    if sgn != side:
        return {sgn}
    return {0} if abs(w) == 1 else {0, sgn}


def _dec(x):
    return decimal.Decimal(x)


def exact_p(lL, rL, val, log):
    """(p, tolerance on the position in units of the track width, i.e. on p) as Fraction, from exact arithmetic.
    p is the normalised scale position: 0 at the left edge, 1 at the right edge."""
    if not log:
        fl, fr, fv = Fraction(lL), Fraction(rL), Fraction(val)
        p = (fv - fl) / (fr - fl)
        # fl(val - lL), fl(rL - lL), quotient: three roundings; a subnormal difference has an absolute error
        num = abs(fv - fl)
        errn = max(EPS * num, Fraction(1, 2 ** 1075))
        errp = errn / abs(fr - fl) + 3 * EPS * abs(p)
        return p, errp
    ctx = decimal.Context(prec=60)
    dl, dr, dv = _dec(lL), _dec(rL), _dec(val)
    q = ctx.divide(dv, dl)
    L = ctx.log10(q)
    D = ctx.log10(ctx.divide(dr, dl))
    p = ctx.divide(L, D)
    fq = Fraction(q)
    dq = max(EPS, Fraction(1, 2 ** 1075) / fq)          # relative error of fl(val / lL), absolute 2^-1075 when subnormal
    if dq > Fraction(1, 4):
        dq = Fraction(1)                                # the quotient keeps no bits: anything goes
    fL, fD, fp = abs(Fraction(L)), abs(Fraction(D)), abs(Fraction(p))
    ln10 = Fraction(4343, 10000)
    errL = dq * ln10 * 2 + 2 * EPS * fL
    errD = EPS * ln10 * 2 + 2 * EPS * fD
    errp = (errL + fp * errD) / fD + 2 * EPS * fp + Fraction(1, 10 ** 50)
    return Fraction(p), errp


def make_trans(log, lP, rP, lL, rL, mode):
    from TotalDepth.util.plot import PRESCfg
    bu = getattr(PRESCfg, 'BACKUP_' + mode)
    cls = PRESCfg.LineTransLog10 if log else PRESCfg.LineTransLin
    return cls(lP, rP, lL, rL, bu)


def check_trans(case):
    """case: {'part':'a','log':bool,'track':[lP,rP],'scale':[lL,rL],'val':v,'mode':name} -> (violations, outcome, nontrivial)."""
    from TotalDepth.util.plot import PRESCfg
    log, (lP, rP), (lL, rL), val, mode = case['log'], case['track'], case['scale'], case['val'], case['mode']
    kind = 'log' if log else 'lin'
    bad = []
    head = 'LineTrans%s(%r, %r, %r, %r, BACKUP_%s)' % ('Log10' if log else 'Lin', lP, rP, lL, rL, mode)
    try:
        t = make_trans(log, lP, rP, lL, rL, mode)
    except Exception as err:  # noqa
        bad.append(({'kind': 'ctor_raises', 'scale_kind': kind, 'exc': type(err).__name__}, '%s: %s: %s' % (head, type(err).__name__, err)))
        return bad, ('ctor', type(err).__name__), True
    W = Fraction(rP) - Fraction(lP)
    in_domain = not (log and val <= 0)
    # ---- wrapPos
    try:
        got = t.wrapPos(val)
    except Exception as err:  # noqa
        if in_domain:
            bad.append(({'kind': 'wrappos_raises', 'scale_kind': kind, 'exc': type(err).__name__},
                        '%s.wrapPos(%r): %s: %s; every finite value%s has a wrap count and a position'
                        % (head, val, type(err).__name__, err, ' > 0' if log else '')))
        return bad, ('raise', type(err).__name__), True
    try:
        w, pos = got
        wi = int(w)
        ok_types = (wi == w) and isinstance(pos, (int, float))
    except Exception:  # noqa
        ok_types = False
    if not ok_types:
        bad.append(({'kind': 'wrappos_result_type', 'scale_kind': kind}, '%s.wrapPos(%r) = %r' % (head, val, got)))
        return bad, ('badtype',), True
    if not (math.isfinite(pos) and lP <= pos <= rP):
        k = 'pos_outside_track' if in_domain else 'log_nonpositive_pos_outside_track'
        bad.append(({'kind': k, 'scale_kind': kind}, '%s.wrapPos(%r) = (%r, %r): position not in [%r, %r]' % (head, val, wi, pos, lP, rP)))
    if in_domain:
        p, errp = exact_p(lL, rL, val, log)
        l2p = Fraction(lP) + p * W
        tol = 4 * (errp * W + 2 * EPS * (W + abs(Fraction(lP)) + abs(Fraction(rP))))
        if math.isfinite(pos):
            unwrapped = Fraction(pos) + wi * W
            if abs(unwrapped - l2p) > tol:
                bad.append(({'kind': 'wrap_identity', 'scale_kind': kind},
                            '%s.wrapPos(%r) = (%r, %r): position + wrap*width = %.17g but the scale position is %.17g (tolerance %.3g)'
                            % (head, val, wi, pos, float(unwrapped) if abs(unwrapped) < 10 ** 300 else math.inf,
                               float(l2p) if abs(l2p) < 10 ** 300 else math.inf, float(tol))))
        # ---- L2P (only where the exact position is representable)
        if abs(l2p) < Fraction(10) ** 300:
            try:
                lp = t.L2P(val)
                if log:
                    cancel = abs(Fraction(math.log10(lL))) / abs(Fraction(math.log10(rL / lL)))
                else:
                    cancel = abs(Fraction(lL)) / abs(Fraction(rL) - Fraction(lL))
                tol2 = tol + 8 * EPS * (abs(l2p) + W * (1 + cancel) + abs(Fraction(lP)))
                if not math.isfinite(lp) or abs(Fraction(lp) - l2p) > tol2:
                    bad.append(({'kind': 'l2p_value', 'scale_kind': kind}, '%s.L2P(%r) = %r, exact %.17g (tolerance %.3g)'
                                % (head, val, lp, float(l2p), float(tol2))))
            except Exception as err:  # noqa
                bad.append(({'kind': 'l2p_raises', 'scale_kind': kind, 'exc': type(err).__name__},
                            '%s.L2P(%r): %s: %s' % (head, val, type(err).__name__, err)))
    # ---- offScale for the wrap returned and for the small wraps
    offs = []
    for ww in [wi] + (list(range(-4, 5)) if case.get('all_wraps') else []):
        try:
            o = t.offScale(ww)
            left, right = t.isOffScaleLeft(ww), t.isOffScaleRight(ww)
        except Exception as err:  # noqa
            bad.append(({'kind': 'offscale_raises', 'mode': mode, 'exc': type(err).__name__}, '%s.offScale(%r): %s: %s' % (head, ww, type(err).__name__, err)))
            continue
        offs.append(o)
        exp = offscale_expected(mode, ww)
        if o not in exp or isinstance(o, bool):
            bad.append(({'kind': 'offscale', 'mode': mode, 'side': 'left' if ww < 0 else 'right' if ww > 0 else 'none'},
                        '%s.offScale(%r) = %r, expected %s' % (head, ww, o, ' or '.join(str(e) for e in sorted(exp)))))
        elif bool(left) != (o == -1) or bool(right) != (o == 1):
            bad.append(({'kind': 'offscale_predicates', 'mode': mode}, '%s: offScale(%r) = %r but isOffScaleLeft = %r, isOffScaleRight = %r'
                        % (head, ww, o, left, right)))
    return bad, (wi if abs(wi) < 10 ** 6 else 'big', pos, tuple(offs)), (wi != 0 or not in_domain)


def shards_a(tier):
    out = []
    for ti in range(len(TRACKS)):
        for e in LIN_EDGES:
            out.append({'part': 'a', 'log': False, 't': ti, 'left': e})
        for e in LOG_EDGES:
            out.append({'part': 'a', 'log': True, 't': ti, 'left': e})
    return out


def run_shard_a(shard, res):
    log = shard['log']
    lP, rP = TRACKS[shard['t']]
    lL = shard['left']
    for rL in (LOG_EDGES if log else LIN_EDGES):
        if rL == lL:
            continue
        vals = values_for(lL, rL, log)
        for vi, val in enumerate(vals):
            for mi, mode in enumerate(MODE_NAMES):
                case = {'part': 'a', 'log': log, 'track': [lP, rP], 'scale': [lL, rL], 'val': val, 'mode': mode}
                if vi == 0:
                    case['all_wraps'] = True
                bad, outcome, nontrivial = check_trans(case)
                res.case(('a', log, lP, rP, lL, rL, val.hex(), mode), nontrivial=nontrivial, outcome=outcome,
                         sample=case if (vi == 7 and mi == 2 and rL == (LOG_EDGES if log else LIN_EDGES)[-1]) else None)
                for sig, msg in bad:
                    res.violate(sig, case, msg)
                if outcome and outcome[0] == 'raise':
                    res.count('a_raises_' + outcome[1])


# =====================================================================================================================
# Part (b): whole plots
# =====================================================================================================================
# ---- geometry known from the documentation (Plot.py / Track.py docstrings, FILMCfg "Four track" comment), in inches
T3 = {'1': (0.0, 2.4), 'D': (2.4, 3.2), '2': (3.2, 5.6), '3': (5.6, 8.0)}
F4 = {'D': (0.0, 1.0), '1': (1.0, 2.75), '2': (2.75, 4.5), '3': (4.5, 6.25), '4': (6.25, 8.0)}
ORDER3 = ['1', 'D', '2', '3']
ORDER4 = ['D', '1', '2', '3', '4']

CODI_STYLE = {'LLIN': ('0.500', None), 'LSPO': ('0.500', '2,2'), 'LDAS': ('0.500', '4,4'), 'LGAP': ('0.500', '6,2'),
              'HLIN': ('1.500', None), 'HSPO': ('1.500', '2,2'), 'HDAS': ('1.500', '4,4'), 'HGAP': ('1.500', '6,2')}
COLO_STYLE = {'BLAC': 'black', 'RED ': 'red', 'BLUE': 'blue', 'GREE': 'green', 'AQUA': 'aqua', None: 'black'}
XML_LINE_STYLE = {None: None, 'LG_SOLID_LINE': None, 'LG_DOT_LINE': '2,2', 'LG_DASH_LINE': '4,4', 'LG_LONG_DASH_LINE': '6,2'}
MODE_BACKUP = {'SHIF': 'ONCE', 'GRAD': 'NONE', 'NB  ': 'NONE', 'WRAP': 'ALL', 'X10 ': 'ALL', None: 'ALL'}
ABSENT = None
SHAPES = ['const', 'ramp', 'edges', 'spike', 'neg0', 'absent', 'wrapabs', 'tiny', 'allabs', 'negfirst', 'absneg']


def trac_span(trac, four):
    """(left, right) in inches of a PRES TRAC entry on a three (T) or four (F) track film; None when it names no track."""
    s = trac.strip()
    half = None
    if s[:2] in ('LH', 'RH'):
        half, s = s[:2], s[2:]
    table, order, letter = (F4, ORDER4, 'F') if four else (T3, ORDER3, 'T')
    if len(s) < 2 or s[0] != letter or s[1] not in table:
        return None
    lo, hi = table[s[1]]
    if half:
        mid = (lo + hi) / 2
        return (lo, mid) if half == 'LH' else (mid, hi)
    if len(s) == 3:
        if s[2] not in table or order.index(s[2]) < order.index(s[1]):
            return None
        hi = table[s[2]][1]
    return (lo, hi)


def shape_values(shape, lo, hi, log, n):
    """n channel values (float, or ABSENT) of a data shape laid over the scale lo..hi."""
    if log:
        a, b = math.log10(lo), math.log10(hi)
        at = lambda t: 10.0 ** (a + (b - a) * t)      # noqa
    else:
        at = lambda t: lo + (hi - lo) * t             # noqa
    mid = at(0.5)
    frac = lambda i: (i / (n - 1)) if n > 1 else 0.0  # noqa
    if shape == 'const':
        return [mid] * n
    if shape == 'ramp':
        return [at(-1.25 + 4.5 * frac(i)) for i in range(n)]
    if shape == 'edges':
        seq = [lo, hi, mid, hi, lo, at(-1.0), at(2.0), mid, at(1.0 + 1e-9), at(-1e-9), hi, lo]
        return [seq[i % len(seq)] for i in range(n)]
    if shape == 'spike':
        out = [at(0.3 + 0.4 * frac(i)) for i in range(n)]
        for i, v in ((2, 1e30), (5, -1e30), (8, 1e30), (9, -1e30), (10, 1.5e38)):
            if i < n:
                out[i] = v
        if n == 1:
            out[0] = 1e30
        return out
    if shape == 'tiny':
        out = [mid] * n
        for i, v in ((1, 1e-30), (3, -1e-30), (4, 1e-38), (7, 1e-30), (8, 1e-30)):
            if i < n:
                out[i] = v
        if n == 1:
            out[0] = 1e-30
        return out
    if shape == 'neg0':
        seq = [mid, 0.0, -abs(mid) - 1.0, mid, -1e30, 0.0, at(0.25), -1e-30, at(0.75), -5.0, 0.0, mid]
        return [seq[(i + (1 if n == 1 else 0)) % len(seq)] for i in range(n)]
    if shape == 'negfirst':      # the first values are zero / negative (no position on a log scale), positive ones follow
        seq = [0.0, -abs(mid) - 1.0, 0.0, mid, at(0.25), at(0.75), -5.0, mid, at(0.4), 0.0, mid, at(0.6)]
        return [seq[i % len(seq)] for i in range(n)]
    if shape == 'absneg':        # absent, then negative, then positive
        seq = [ABSENT, -5.0, mid, at(0.3), ABSENT, -1e30, at(0.6), mid, 0.0, at(0.2), ABSENT, mid]
        return [seq[i % len(seq)] for i in range(n)]
    if shape == 'absent':
        out = [at(0.2 + 0.6 * frac(i)) for i in range(n)]
        for i in (0, 4, 5, n - 1):
            if 0 <= i < n:
                out[i] = ABSENT
        return out
    if shape == 'wrapabs':
        out = [at(-1.25 + 4.5 * frac(i)) for i in range(n)]
        for i in (3, 6, 7, n - 1):
            if 0 <= i < n:
                out[i] = ABSENT
        return out
    if shape == 'allabs':
        return [ABSENT] * n
    raise ValueError(shape)


# ---- input producers -------------------------------------------------------------------------------------------------
def stored68(v):
    """The double a code 68 word holds for v (nearest representable)."""
    from models import lis_ref as L
    return float(L.dec68(L.enc68_nearest(Fraction(v))))


def channel_values(case):
    """Per data channel the list of values (float / ABSENT) a reader must see, for this case."""
    n = case['n']
    out = []
    for mnem, units, shape, lo, hi, log in case['chans']:
        vals = shape_values(shape, lo, hi, log, n)
        if case['input'] == 'LIS':
            vals = [ABSENT if v is ABSENT else stored68(v) for v in vals]
        if case.get('absent') is not None:
            # the format specification declares this number as "no value": a reading equal to it is absent too
            vals = [ABSENT if (v is ABSENT or v == case['absent']) else v for v in vals]
        out.append(vals)
    return out


def x_values(case):
    d = 1.0 if case['down'] else -1.0
    return [1000.0 + d * 0.5 * f for f in range(case['n'])]


def film_rows(cfg):
    return [[f[0].ljust(4).encode(), f[1].ljust(4).encode(), f[2].ljust(4).encode(), f[3].ljust(4).encode(), f[4].ljust(4).encode()]
            for f in cfg['film']]


def pres_table(cfg):
    from models import lis_ref as L
    has_colo = any(r[8] is not None for r in cfg['pres'])
    has_mode = all(r[5] is not None for r in cfg['pres'])
    cols = [b'MNEM', b'OUTP', b'STAT', b'TRAC', b'CODI', b'DEST'] + ([b'MODE'] if has_mode else []) + [b'FILT', b'LEDG', b'REDG'] \
        + ([b'COLO'] if has_colo else [])
    rows = []
    for mnem, outp, trac, codi, dest, mode, ledg, redg, colo in cfg['pres']:
        row = [mnem.ljust(4).encode(), outp.ljust(4).encode(), b'ALLO', trac.ljust(4).encode(), codi.ljust(4).encode(), dest.ljust(4).encode()]
        if has_mode:
            row.append(mode.ljust(4).encode())
        row += [0.5, float(ledg), float(redg)]
        if has_colo:
            row.append((colo or 'BLAC').ljust(4).encode())
        rows.append(row)
    return L.table_record(34, b'PRES', cols, rows)


def build_lis(case):
    """An LIS file: file header, [FILM, PRES], DFSR (explicit DEPT in code 68, channels in code 68), data records, trailer."""
    from models import lis_ref as L
    recs = [L.file_head_tail(128)]
    cfg = case['cfg']
    if cfg['kind'] == 'tables':
        recs.append(L.table_record(34, b'FILM', [b'MNEM', b'GCOD', b'GDEC', b'DEST', b'DSCA'], film_rows(cfg)))
        recs.append(pres_table(cfg))
    if case.get('api'):
        # the constants an API header is made of (PlotLogs -A): the plot area then starts below a header of some depth
        recs.append(L.table_record(34, b'CONS', [b'MNEM', b'STAT', b'PUNI', b'TUNI', b'VALU'],
                                   [[b'WN  ', b'ALLO', b'    ', b'    ', b'WELL 1'], [b'FN  ', b'ALLO', b'    ', b'    ', b'FIELD'],
                                    [b'CN  ', b'ALLO', b'    ', b'    ', b'COMPANY'], [b'BS  ', b'ALLO', b'IN  ', b'IN  ', (8.5, b'IN  ')],
                                    [b'EDF ', b'ALLO', b'FEET', b'FEET', (100.0, b'FEET')], [b'DD  ', b'ALLO', b'FEET', b'FEET', (1200.0, b'FEET')]]))
    absent = Fraction(-3997, 4) if case.get('absent') is None else Fraction(case['absent'])
    # the X axis may be recorded in another unit than the one the plot interval is asked in (tenths of an inch against feet)
    xunits, xfactor = (b'.1IN', 120) if case.get('xunits') == '.1IN' else (b'FEET', 1)
    # 'sb': (samples, bursts) of every data channel (each frame then holds that many copies of the channel's value);
    # 'indirect': the X axis is not a channel but a value at the head of each data record plus the frame spacing (entry blocks 13-15)
    sa, bu = case.get('sb', (1, 1))
    indirect = bool(case.get('indirect'))
    ebs = [(1, 66, b'\x00'), (2, 66, b'\x00'), (4, 66, bytes([255 if case['down'] else 1])),
           (8, 68, L.enc68(Fraction(1, 2) * xfactor)), (9, 65, xunits), (12, 68, L.enc68(absent))]
    ebs += [(13, 66, b'\x01'), (14, 65, xunits), (15, 66, bytes([68]))] if indirect else [(13, 66, b'\x00')]
    dsbs = [] if indirect else [L.dsb(b'DEPT', xunits, 4, 1, 68)]
    for mnem, units, _s, _lo, _hi, _log in case['chans']:
        dsbs.append(L.dsb(mnem.ljust(4).encode(), units.ljust(4).encode(), 4 * sa * bu, sa, 68))
    recs.append(L.dfsr(ebs, dsbs))
    xs = x_values(case)
    chv = channel_values(case)
    frames = []
    for f in range(case['n']):
        by = b'' if indirect else L.enc68(Fraction(xs[f]) * xfactor)
        for vals in chv:
            v = vals[f]
            by += (L.enc68(absent) if v is ABSENT else L.enc68(Fraction(v))) * (sa * bu)
        frames.append(by)
    fpr = case.get('fpr', 4)
    for i in range(0, len(frames), fpr):
        recs.append(L.data_record(0, frames[i:i + fpr], L.enc68(Fraction(xs[i]) * xfactor) if indirect else None))
    recs.append(L.file_head_tail(129))
    data, _lay = L.build_file(recs)
    return data


def build_las(case):
    from models import las_ref as R
    xs = x_values(case)
    chv = channel_values(case)
    frames = []
    for f in range(case['n']):
        row = [repr(xs[f])]
        for vals in chv:
            row.append(R.CELL_NULL if vals[f] is ABSENT else repr(float(vals[f])))
        frames.append(row)
    curves = [('DEPT', 'FT', '', 'DEPTH')] + [(m.strip(), u.strip(), '', 'CURVE %d' % i) for i, (m, u, _s, _a, _b, _l) in enumerate(case['chans'])]
    content = R.make_content(vers='2.0', null='-999.25', curves=curves, frames=frames)
    return R.render(content)


# ---- model of the plot configuration -----------------------------------------------------------------------------------
_FORMATS = None


def formats():
    """Built-in LgFormat files read as plain XML: uid -> {'file', 'tracks': {id: (l, r)}, 'curves': [dict]}, sorted by file name."""
    global _FORMATS
    if _FORMATS is None:
        from mc import seams
        d = os.path.join(seams.REPO, 'src', 'TotalDepth', 'util', 'plot', 'formats')
        out = {}
        for fn in sorted(os.listdir(d)):
            root = ET.parse(os.path.join(d, fn)).getroot()
            ns = root.tag[:root.tag.index('}') + 1] if root.tag.startswith('{') else ''
            uid = root.get('UniqueId')
            txt = lambda e, name: (e.find(ns + name).text if e.find(ns + name) is not None else None)   # noqa
            many = lambda e, name: len(e.findall(ns + name)) > 1                                        # noqa
            tracks, curves = {}, []
            for t in root.findall(ns + 'LgTrack'):
                tid = t.get('UniqueId')
                tracks[tid] = (float(txt(t, 'LeftPosition') or 0.0), float(txt(t, 'RightPosition') or 0.0))
                for c in t.findall(ns + 'LgCurve'):
                    ch = txt(c, 'ChannelName')
                    if ch is None:
                        continue
                    ll, rl = txt(c, 'LeftLimit'), txt(c, 'RightLimit')
                    col = txt(c, 'Color') or '000000'
                    try:
                        stroke = 'rgb(%d,%d,%d)' % tuple(int(col[i:i + 2], 16) for i in (0, 2, 4))
                    except ValueError:
                        stroke = None
                    style = (stroke, XML_LINE_STYLE.get(txt(c, 'LineStyle'), 'unknown'), '0.500')
                    if stroke is None or style[1] == 'unknown' or many(c, 'Color') or many(c, 'LineStyle'):
                        style = None            # the file does not say it unambiguously: any stroke may be this curve
                    unsure = any(many(c, name) for name in ('LeftLimit', 'RightLimit', 'Transform', 'ChannelName'))
                    curves.append({'id': c.get('UniqueId'), 'outp': ch.strip(), 'track': tid,
                                   'lo': float(ll) if ll is not None else 0.0, 'hi': float(rl) if rl is not None else 0.0,
                                   'explicit': ll is not None and rl is not None and not unsure,
                                   'log': txt(c, 'Transform') == 'LG_LOGARITHMIC',
                                   'style': style})
            out[uid] = {'file': fn, 'tracks': tracks, 'curves': curves}
        _FORMATS = out
    return _FORMATS


def model_curves(case, film_id=None):
    """Curves the configuration puts on the plotted film: list of dict(id, outp, span, lo, hi, log, backup, style)."""
    cfg = case['cfg']
    out = []
    if cfg['kind'] == 'tables':
        film_id = film_id or cfg['plot_film']
        films = {f[0].strip(): f for f in cfg['film']}
        four = films[film_id][1].strip() == 'LLLL'
        for mnem, outp, trac, codi, dest, mode, ledg, redg, colo in cfg['pres']:
            d = dest.strip()
            on = (d == film_id) or (d == 'ALL') or (d == 'BOTH' and len(films) == 2) or \
                 (d not in films and d not in ('ALL', 'BOTH', 'NEIT') and film_id in d)
            if not on or d == 'NEIT':
                continue
            w, dash = CODI_STYLE.get(codi, ('0.500', None))
            out.append({'id': mnem, 'outp': outp.strip(), 'span': trac_span(trac, four), 'lo': stored68(ledg), 'hi': stored68(redg),
                        'log': mode == 'GRAD', 'backup': MODE_BACKUP.get(mode, 'ALL'), 'certain': True,
                        'style': (COLO_STYLE.get(colo, None), dash, w)})
    else:
        fm = formats()[cfg['uid']]
        for c in fm['curves']:
            out.append({'id': c['id'], 'outp': c['outp'], 'span': fm['tracks'].get(c['track']), 'lo': c['lo'], 'hi': c['hi'],
                        'log': c['log'], 'backup': None, 'certain': c['explicit'] and c['lo'] != c['hi'] and (not c['log'] or min(c['lo'], c['hi']) > 0),
                        'style': c['style']})
    return out


def norm_name(s):
    return s.strip().upper()


# ---- SVG oracle --------------------------------------------------------------------------------------------------------
def parse_svg(path):
    """(root, viewBox as 4 floats or None, [(attrs, [(x, y) or None], output name or None)] for every polyline in document
    order); raises ET.ParseError.  The output name comes from the "Output <name> START/END" comments Plot.py writes around
    the curves of one output channel (None when there is no such comment)."""
    import re
    parser = ET.XMLParser(target=ET.TreeBuilder(insert_comments=True))
    root = ET.parse(path, parser=parser).getroot()
    vb = root.get('viewBox')
    box = None
    if vb is not None:
        try:
            box = [float(t) for t in vb.replace(',', ' ').split()]
            if len(box) != 4 or not all(math.isfinite(t) for t in box):
                box = None
        except ValueError:
            box = None
    polys = []
    current = None
    for el in root.iter():
        if not isinstance(el.tag, str):
            if el.tag is ET.Comment:
                m = re.search(r'Output (.*?) (START|END)', el.text or '')
                if m:
                    current = m.group(1).strip() if m.group(2) == 'START' else None
            continue
        tag = el.tag.rsplit('}', 1)[-1]
        if tag == 'polyline':
            pts = []
            for tok in (el.get('points') or '').split():
                try:
                    xs, ys = tok.split(',')
                    pts.append((float(xs), float(ys)))
                except ValueError:
                    pts.append(None)
            polys.append((dict(el.attrib), pts, current))
    return root, box, polys


def margins_px():
    from TotalDepth.util.plot import PlotConstants as PC
    k = PC.VIEW_BOX_UNITS_PER_PLOT_UNITS
    u = PC.DEFAULT_PLOT_UNITS
    left = PC.MarginQtrInch.left.convert(u).value
    right = PC.MarginQtrInch.right.convert(u).value
    width = PC.STANDARD_PAPER_WIDTH.convert(u).value
    return k * left, k * (width - right), k


TOL_PX = 0.0501        # coordinates are written with one decimal


def check_svg(path, case, curves, sub=False):
    """Geometric oracle for one output file.  curves: model_curves() restricted to channels present in the input.
    sub: the plot covers only part of the pass (no curve is demanded, everything else is).
    Returns (violations, summary)."""
    bad = []
    desc = describe(case)
    if not os.path.exists(path) or os.path.getsize(path) == 0:
        bad.append(({'kind': 'no_plot_file', 'input': case['input'], 'entry': case['entry']}, '%s: no output file / empty file' % desc))
        return bad, ('nofile',)
    try:
        root, box, polys = parse_svg(path)
    except ET.ParseError as err:
        bad.append(({'kind': 'svg_not_well_formed', 'input': case['input']}, '%s: output does not parse as XML: %s' % (desc, err)))
        return bad, ('parse_error',)
    if root.tag.rsplit('}', 1)[-1] != 'svg':
        bad.append(({'kind': 'svg_root'}, '%s: root element is %r' % (desc, root.tag)))
    if box is None:
        bad.append(({'kind': 'svg_no_viewbox'}, '%s: root element has no usable viewBox: %r' % (desc, root.get('viewBox'))))
        return bad, ('noviewbox',)
    mleft, mright, k = margins_px()
    all_spans = [c['span'] for c in curves if c['span']]
    chv = dict(zip([norm_name(c[0]) for c in case['chans']], channel_values(case)))
    groups = {}
    npts = 0
    for attrs, pts, outp in polys:
        # attribution: first by the output channel named in the surrounding comment, then by the stroke
        style = (attrs.get('stroke'), attrs.get('stroke-dasharray'), attrs.get('stroke-width'))
        pool = [c for c in curves if outp is not None and norm_name(c['outp']) == norm_name(outp)] or curves
        cands = [c for c in pool if c['style'] == style]
        if cands:
            cands = cands + [c for c in pool if c['style'] is None]
        else:
            cands = pool
        key = tuple(sorted(c['id'] for c in cands))
        spans = [c['span'] for c in cands if c['span']]
        complete = len(spans) == len(cands) and len(cands) > 0
        for pt in pts:
            npts += 1
            if pt is None or not (math.isfinite(pt[0]) and math.isfinite(pt[1])):
                bad.append(({'kind': 'curve_point_not_finite'}, '%s: polyline %r has a point that is not a pair of finite numbers' % (desc, attrs.get('points', '')[:120])))
                continue
            x, y = pt
            if not (box[0] - TOL_PX <= x <= box[0] + box[2] + TOL_PX and box[1] - TOL_PX <= y <= box[1] + box[3] + TOL_PX):
                bad.append(({'kind': 'curve_point_outside_viewbox', 'axis': 'x' if not (box[0] - TOL_PX <= x <= box[0] + box[2] + TOL_PX) else 'y'},
                            '%s: curve point (%s, %s) outside the viewBox %r' % (desc, x, y, box)))
            if not (mleft - TOL_PX <= x <= mright + TOL_PX):
                bad.append(({'kind': 'curve_point_outside_margins', 'side': 'left' if x < mleft else 'right'},
                            '%s: curve point (%s, %s): x outside the plot margins [%s, %s]' % (desc, x, y, mleft, mright)))
            elif complete and not any(mleft + k * a - TOL_PX <= x <= mleft + k * b + TOL_PX for a, b in spans):
                bad.append(({'kind': 'curve_point_outside_track', 'side': 'left' if all(x < mleft + k * a for a, b in spans) else 'right'},
                            '%s: curve point (%s, %s) of curve %s: x outside its track %s (px %s)'
                            % (desc, x, y, '/'.join(c['id'] for c in cands), spans,
                               [(round(mleft + k * a, 1), round(mleft + k * b, 1)) for a, b in spans])))
            edge_spans = spans if complete else all_spans
            on_edge = any(abs(x - (mleft + k * e)) <= 2 * TOL_PX for sp in edge_spans for e in sp)
            g = groups.setdefault(key, {'cands': cands, 'ys': set(), 'complete': complete})
            if not on_edge:
                g['ys'].add(round(y, 1))
    for key, g in groups.items():
        if not g['cands'] or not all(c['span'] for c in g['cands']):
            continue
        limit = 0
        for c in g['cands']:
            vals = chv.get(norm_name(c['outp']))
            if vals is None:
                continue
            # (a channel of several samples per frame holds samples x bursts values per frame; its samples have depths of their own)
            limit += sum(1 for v in vals if v is not ABSENT) * case.get('sb', (1, 1))[0] * case.get('sb', (1, 1))[1]
        if len(g['ys']) > limit:
            bad.append(({'kind': 'more_points_than_values'},
                        '%s: curve(s) %s: %d distinct depths carry a data point but the channel(s) hold %d non-absent values'
                        % (desc, '/'.join(c['id'] for c in g['cands']), len(g['ys']), limit)))
    need = None if sub else curve_certain(case, curves, chv)
    if need and npts == 0:
        bad.append(({'kind': 'no_curve_in_plot', 'input': case['input'], 'entry': case['entry']},
                    '%s: the file holds no curve point although %s has values inside its scale' % (desc, need)))
    summary = (len(polys), npts, h64(repr([p for _a, p, _o in polys])))
    return bad, summary


def curve_certain(case, curves, chv):
    """Id of a curve that must show at least one point: a value strictly inside the scale in a frame before the last."""
    for c in curves:
        if not c.get('certain') or not c['span']:
            continue
        vals = chv.get(norm_name(c['outp']))
        if not vals:
            continue
        for v in vals[:-1]:
            if v is ABSENT:
                continue
            if c['log']:
                if v <= 0:
                    continue
                p = (math.log10(v) - math.log10(c['lo'])) / (math.log10(c['hi']) - math.log10(c['lo']))
            else:
                p = (v - c['lo']) / (c['hi'] - c['lo'])
            if 0.02 <= p <= 0.98:
                return c['id']
    return None


def describe(case):
    cfg = case['cfg']
    if cfg['kind'] == 'tables':
        what = 'FILM %s PRES %s' % (['/'.join(f) for f in cfg['film']],
                                    [' '.join(str(x) for x in r if x is not None) for r in cfg['pres']])
    else:
        what = 'LgFormat %s' % cfg['uid']
    return '%s input via %s, %s, scale %s, %d frames %s, channels %s' % (
        case['input'], case['entry'], what, case['scale'], case['n'], 'down' if case['down'] else 'up',
        ['%s:%s on %g..%g%s' % (c[0].strip(), c[2], c[3], c[4], ' log' if c[5] else '') for c in case['chans']])


# ---- running one plot --------------------------------------------------------------------------------------------------
_SCRATCH = None


def scratch():
    global _SCRATCH
    from mc import seams
    d = os.path.join(seams.SCRATCH, 'c19-%d' % os.getpid())
    if _SCRATCH != d or not os.path.isdir(d):
        os.makedirs(d, exist_ok=True)
        _SCRATCH = d
    return d


def drop_scratch():
    global _SCRATCH
    if _SCRATCH and os.path.isdir(_SCRATCH):
        shutil.rmtree(_SCRATCH, ignore_errors=True)
    _SCRATCH = None


class _Opts:
    def __init__(self, scale, lgformat):
        self.recurse = False
        self.keepGoing = False
        self.LgFormat = lgformat
        self.apiHeader = False
        self.LgFormat_min = 0
        self.scale = scale
        self.jobs = 0
        self.glob = None


def exc_sig(err):
    """Small, stable classification of an exception raised by the implementation: type, the attribute an AttributeError
    names, and the innermost function of the library on the stack."""
    import re
    import traceback
    d = {'exc': type(err).__name__}
    m = re.search(r"has no attribute '(\w+)'", str(err))
    if m:
        d['missing'] = m.group(1)
    own = os.path.abspath(__file__)
    lib = [f for f in traceback.extract_tb(err.__traceback__) if os.path.abspath(f.filename) != own and 'TotalDepth' in f.filename]
    if lib:
        d['where'] = '%s:%s' % (os.path.basename(lib[-1].filename), lib[-1].name)
    return d


def trace_tail(err):
    import traceback
    tb = traceback.extract_tb(err.__traceback__)
    own = os.path.abspath(__file__)
    frames = [f for f in tb if os.path.abspath(f.filename) != own]
    return ' <- '.join('%s:%d %s' % (os.path.basename(f.filename), f.lineno, f.name) for f in reversed(frames[-4:]))


class _LogCapture:
    """PlotLogs reports a failed file only through logging (errors are swallowed): collect ERROR/CRITICAL records
    while it runs, so that a missing plot can be classified by its cause."""

    def __enter__(self):
        import logging

        class H(logging.Handler):
            def __init__(self):
                super().__init__(logging.ERROR)
                self.lines = []

            def emit(self, record):
                try:
                    self.lines.append(record.getMessage())
                except Exception:  # noqa  (a malformed logging call is not what is examined here)
                    self.lines.append(str(record.msg))

        self.logging = logging
        self.prev = logging.root.manager.disable
        self.handler = H()
        self.others = list(logging.root.handlers)
        logging.root.handlers[:] = [self.handler]          # nothing is printed while capturing
        logging.disable(logging.WARNING)                   # ERROR and CRITICAL only
        return self

    def __exit__(self, *exc):
        self.logging.root.handlers[:] = self.others
        self.logging.disable(self.prev)
        return False

    def cause(self):
        """{'exc':..., 'where':...} parsed from the last logged traceback, or {}."""
        import re
        for text in reversed(self.handler.lines):
            if 'Traceback' not in text:
                continue
            files = re.findall(r'File "([^"]+)", line \d+, in (\w+)', text)
            last = [ln for ln in text.strip().splitlines() if ln and not ln.startswith(' ')][-1]
            d = {'exc': last.split(':')[0].strip()}
            m = re.search(r"has no attribute '(\w+)'", last)
            if m:
                d['missing'] = m.group(1)
            lib = [(f, fn) for f, fn in files if 'TotalDepth' in f]
            if lib:
                d['where'] = '%s:%s' % (os.path.basename(lib[-1][0]), lib[-1][1])
            return d
        return {}

    def text(self):
        import re
        t = ' | '.join(ln.strip().splitlines()[-1] for ln in self.handler.lines if ln.strip())
        return re.sub(r'c19-\d+', 'c19-<pid>', t)[:600]


def gen_logs_dir(tier):
    """PlotLogs over a directory of two LIS files with different curve sets, formats chosen by 'at least k curves' (-X k):
    what is plotted for a file must not depend on the other file."""
    uids = [u for u in formats() if format_channels(u, True)]
    picks = uids[:3] if tier == 'quick' else uids[:5]
    for a in picks:
        for b in picks:
            if a == b:
                continue
            for k in ((1,) if tier == 'quick' else (1, 2)):
                yield {'part': 'd', 'uids': [a, b], 'min': k, 'n': 12}


def _plots_of(outdir, stem):
    out = []
    for root, _dirs, files in os.walk(outdir):
        for f in files:
            if f.endswith('.svg') and f.startswith(stem):
                out.append(f[len(stem):])
    return sorted(out)


def run_dir(case):
    from TotalDepth import PlotLogs
    d = scratch()
    for name in os.listdir(d):
        p = os.path.join(d, name)
        shutil.rmtree(p, ignore_errors=True) if os.path.isdir(p) else os.remove(p)
    files = {}
    for stem, uid in zip(('a', 'b'), case['uids']):
        chans = [[name, 'UNIT', SHAPES[1 + i % 3], stored68(lo), stored68(hi), log] for i, (name, lo, hi, log) in enumerate(format_channels(uid, True))]
        sub = {'part': 'b', 'input': 'LIS', 'entry': 'PlotLogs', 'cfg': {'kind': 'xml', 'uid': uid}, 'chans': chans, 'n': case['n'], 'down': False, 'scale': 0}
        files[stem] = build_lis(sub)
    opts = _Opts(0, [])
    opts.LgFormat_min = case['min']
    bad = []
    alone = {}
    try:
        for stem, data in files.items():
            din = os.path.join(d, 'alone_' + stem, 'in')
            os.makedirs(din)
            with open(os.path.join(din, stem + '.lis'), 'wb') as f:
                f.write(data)
            with _LogCapture():
                PlotLogs.PlotLogPasses(din, os.path.join(d, 'alone_' + stem, 'out'), opts)
            alone[stem] = _plots_of(os.path.join(d, 'alone_' + stem, 'out'), stem + '.lis')
        din = os.path.join(d, 'both', 'in')
        os.makedirs(din)
        for stem, data in files.items():
            with open(os.path.join(din, stem + '.lis'), 'wb') as f:
                f.write(data)
        with _LogCapture():
            PlotLogs.PlotLogPasses(din, os.path.join(d, 'both', 'out'), opts)
        both = {stem: _plots_of(os.path.join(d, 'both', 'out'), stem + '.lis') for stem in files}
    except Exception as err:  # noqa
        sig = {'kind': 'plot_raises', 'input': 'LIS', 'entry': 'PlotLogs directory'}
        sig.update(exc_sig(err))
        return [(sig, 'PlotLogs on a directory of two LIS files (formats %r, -X %d): %s: %s' % (case['uids'], case['min'], type(err).__name__, err))], ('raise',), True
    for stem in sorted(files):
        if both[stem] != alone[stem]:
            bad.append(({'kind': 'plots_depend_on_other_files'},
                        'PlotLogs -X %d: %s.lis (curves of %s) gives plots %r on its own but %r beside %s.lis (curves of %s)'
                        % (case['min'], stem, case['uids'][stem == 'b'], alone[stem], both[stem], 'b' if stem == 'a' else 'a', case['uids'][stem != 'b'])))
        if not alone[stem]:
            bad.append(({'kind': 'no_plot_file', 'input': 'LIS', 'entry': 'PlotLogs directory'},
                        'PlotLogs -X %d wrote no plot for a file holding every curve of format %s' % (case['min'], case['uids'][stem == 'b'])))
    return bad, h64(repr((alone, both))), True


def run_plot(case):
    """Produce the plot(s) of one case with the real implementation and apply the oracle.
    Returns (violations [(sig, msg)], outcome, nontrivial)."""
    import io
    from TotalDepth.LIS.core import EngVal, File, FileIndexer, LogiRec, Mnem
    from TotalDepth.util.plot import Plot
    bad = []
    desc = describe(case)
    cfg = case['cfg']
    d = scratch()
    for name in os.listdir(d):
        p = os.path.join(d, name)
        shutil.rmtree(p, ignore_errors=True) if os.path.isdir(p) else os.remove(p)
    curves_all = model_curves(case)
    have = {norm_name(c[0]) for c in case['chans']}
    curves = [c for c in curves_all if norm_name(c['outp']) in have]
    chv = channel_values(case)
    nontrivial = any(v is ABSENT for vals in chv for v in vals) or bool(curves) and not all(
        _inside(c, v) for c in curves for v in dict(zip([norm_name(x[0]) for x in case['chans']], chv))[norm_name(c['outp'])] if v is not ABSENT)
    single = case['n'] < 2
    outs = []
    ret = None
    logcap = None
    second_out = None
    try:
        if case['input'] == 'LIS':
            data = build_lis(case)
        else:
            text = build_las(case)
    except AssertionError as err:
        raise RuntimeError('producer refused the case %r: %s' % (case, err))
    try:
        if case['entry'] == 'PlotLogs':
            from TotalDepth import PlotLogs
            fin = os.path.join(d, 'in.lis' if case['input'] == 'LIS' else 'in.las')
            with open(fin, 'wb' if case['input'] == 'LIS' else 'w') as f:
                f.write(data if case['input'] == 'LIS' else text)
            fout = os.path.join(d, 'out', 'plot')
            os.makedirs(os.path.dirname(fout), exist_ok=True)
            opts = _Opts(case['scale'], [cfg['uid']] if cfg['kind'] == 'xml' else [])
            opts.apiHeader = bool(case.get('api'))
            with _LogCapture() as logcap:
                plp = PlotLogs.PlotLogPasses(fin, fout, opts)
            ret = (plp.plotLogInfo.lisFileCntr, plp.plotLogInfo.lasFileCntr, plp.plotLogInfo.logPassCntr)
            outs = sorted(os.path.join(d, 'out', n) for n in os.listdir(os.path.join(d, 'out')))
        elif case['input'] == 'LIS':
            fr = File.FileRead(io.BytesIO(data), 'fid', keepGoing=False)
            idx = FileIndexer.FileIndex(fr)
            passes = list(idx.genLogPasses())
            if len(passes) != 1:
                raise RuntimeError('generated LIS file has %d log passes' % len(passes))
            lp = passes[0].logPass
            if cfg['kind'] == 'tables':
                tells = [(p.tellFilm, p.tellPres) for p in idx.genPlotRecords(fromInternalRecords=True)]   # the yielded object is reused
                if len(tells) != 1:
                    raise RuntimeError('generated LIS file has %d plot record sets' % len(tells))
                fr.seekLr(tells[0][0])
                lr_film = LogiRec.LrTableRead(fr)
                fr.seekLr(tells[0][1])
                lr_pres = LogiRec.LrTableRead(fr)
                plot = Plot.PlotReadLIS(lr_film, lr_pres, theScale=case['scale'])
                film = Mnem.Mnem(cfg['plot_film'].ljust(4).encode())
            else:
                plot = Plot.PlotReadXML(cfg['uid'], case['scale'])
                film = cfg['uid']
            fout = os.path.join(d, 'plot.svg')
            xs = x_values(case)      # the interval first X .. last X as written to the file (exact in code 68)
            wanted = True
            if case.get('other_first'):
                # one Plot object serving several log passes, as a driver that plots a whole file does: it is first asked about a
                # pass that holds none of the plotted channels (the answer is not judged), then about this one
                other = dict(case, chans=[['ZZ%d' % i, c[1], c[2], c[3], c[4], c[5]] for i, c in enumerate(case['chans'])], n=3)
                fr_o = File.FileRead(io.BytesIO(build_lis(other)), 'other', keepGoing=False)
                lp_o = list(FileIndexer.FileIndex(fr_o).genLogPasses())[0].logPass
                try:
                    plot.hasDataToPlotLIS(lp_o, film)
                except Exception:  # noqa
                    pass
                wanted = bool(plot.hasDataToPlotLIS(lp, film))
                if curves and not wanted:
                    bad.append(({'kind': 'has_data_false', 'input': 'LIS', 'entry': case['entry']},
                                '%s: hasDataToPlotLIS() is False for a pass that holds plotted channels, after the same Plot object was asked about another pass' % desc))
            ret = plot.plotLogPassLIS(fr, lp, EngVal.EngVal(xs[0], b'FEET'), EngVal.EngVal(xs[-1], b'FEET'), film, fout,
                                      frameStep=1, title='C19')
            outs = [fout] if os.path.exists(fout) else []
            if case.get('second'):
                # a caller that asked the plot's PRES configuration which curves an output feeds and then pruned the lists it was
                # given (for a legend of its own): the next plot is as complete as the first
                pc = getattr(plot, '_presCfg', None)
                try:
                    for outp in list(pc.outpChIDs(film)):
                        got_ids = pc.outpCurveIDs(film, outp)
                        if isinstance(got_ids, list):
                            del got_ids[:]
                except Exception:  # noqa
                    pass
                fout3 = os.path.join(d, 'plot_again.svg')
                plot.plotLogPassLIS(fr, lp, EngVal.EngVal(xs[0], b'FEET'), EngVal.EngVal(xs[-1], b'FEET'), film, fout3, frameStep=1, title='C19')

                def _lines(path):
                    return sorted((len(pts), str(name)) for _a, pts, name in parse_svg(path)[2]) if os.path.exists(path) else None
                if outs and _lines(fout3) != _lines(fout):
                    bad.append(({'kind': 'plot_changed_by_pruning_a_list_the_configuration_handed_out', 'input': 'LIS'},
                                '%s: the same interval plotted again after the caller emptied the lists returned by outpCurveIDs(): curves %r, the first time %r'
                                % (desc, _lines(fout3), _lines(fout))))
            if case.get('second') and case['n'] >= 8:
                # the same Plot and LogPass objects asked for a part of the pass (scrolling): judged like any plot
                fout2 = os.path.join(d, 'plot_second.svg')
                a, b = (3, case['n'] - 3) if case['n'] < 30 else ((9 * case['n']) // 20, (11 * case['n']) // 20)
                plot.plotLogPassLIS(fr, lp, EngVal.EngVal(xs[a], b'FEET'), EngVal.EngVal(xs[b], b'FEET'), film, fout2,
                                    frameStep=1, title='C19 second interval')
                second_out = fout2
        else:
            from TotalDepth.LAS.core import LASRead
            las = LASRead.LASRead(io.StringIO(text), 'las')
            plot = Plot.PlotReadXML(cfg['uid'], case['scale'])
            fout = os.path.join(d, 'plot.svg')
            ret = plot.plotLogPassLAS(las, las.x_axis_start, las.x_axis_stop, cfg['uid'], fout, frameStep=1, title='C19')
            outs = [fout] if os.path.exists(fout) else []
    except Exception as err:  # noqa  the implementation failed to plot
        if isinstance(err, RuntimeError) and 'generated LIS' in str(err):
            raise
        if single:
            # one frame: there is no depth interval to plot, nothing is demanded of a call that refuses
            return bad, ('single_raise', type(err).__name__), True
        sig = {'kind': 'plot_raises', 'input': case['input'], 'entry': case['entry']}
        sig.update(exc_sig(err))
        bad.append((sig, ('%s: %s: %s [%s]' % (desc, type(err).__name__, err, trace_tail(err))).replace(d, '<scratch>')))
        return bad, ('raise', type(err).__name__), True
    # ---- which files must exist
    summaries = []
    if single:
        for p in outs:
            if p.endswith('.svg') and os.path.getsize(p):
                try:
                    parse_svg(p)
                except ET.ParseError as perr:
                    bad.append(({'kind': 'svg_not_well_formed', 'input': case['input']}, '%s: output does not parse as XML: %s' % (desc, perr)))
        return bad, ('single', len(outs)), True
    if case['entry'] == 'PlotLogs':
        svgs = [p for p in outs if p.endswith('.svg')]
        if cfg['kind'] == 'tables':
            want = sorted(f[0].strip() for f in cfg['film'] if [c for c in model_curves(case, f[0].strip()) if norm_name(c['outp']) in have])
            for fid in want:
                path = os.path.join(d, 'out', 'plot_0000_%s.svg' % fid)
                cs = [c for c in model_curves(case, fid) if norm_name(c['outp']) in have]
                if path not in svgs:
                    sig = {'kind': 'no_plot_file', 'input': case['input'], 'entry': case['entry']}
                    sig.update(logcap.cause())
                    bad.append((sig, '%s: no plot for FILM %s (files written: %s; logged: %s)'
                                % (desc, fid, [os.path.basename(p) for p in outs], logcap.text())))
                    continue
                b, s = check_svg(path, case, cs)
                bad += b
                summaries.append(s)
        else:
            path = os.path.join(d, 'out', 'plot_0000_%s.svg' % cfg['uid'])
            if curves and path not in svgs:
                sig = {'kind': 'no_plot_file', 'input': case['input'], 'entry': case['entry']}
                sig.update(logcap.cause())
                bad.append((sig, '%s: no plot written (files: %s, counters lis/las/passes %r; logged: %s)'
                            % (desc, [os.path.basename(p) for p in outs], ret, logcap.text())))
            for p in svgs:
                b, s = check_svg(p, case, curves)
                bad += b
                summaries.append(s)
    else:
        if curves:
            if not outs:
                bad.append(({'kind': 'no_plot_file', 'input': case['input'], 'entry': case['entry']}, '%s: returned %r and wrote no file' % (desc, ret)))
        for p in outs:
            b, s = check_svg(p, case, curves)
            bad += b
            summaries.append(s)
        if second_out is not None:
            b, s = check_svg(second_out, case, curves, sub=True)
            bad += [(dict(sg, second_interval=True), 'second plot (the middle part of the pass) with the same Plot and LogPass objects: ' + m) for sg, m in b]
            summaries.append(s)
    return bad, tuple(summaries), nontrivial


def _inside(c, v):
    if not c.get('certain'):
        return False
    if c['log'] and v <= 0:
        return False
    lo, hi = sorted((c['lo'], c['hi']))
    return lo < v < hi


# ---- case generators ---------------------------------------------------------------------------------------------------
LIN_SCALES = [(0.0, 150.0), (150.0, 0.0), (-80.0, 20.0), (-1.0, 1.0), (1e-3, -1e-3), (0.0, 1e6)]
LOG_SCALES = [(0.2, 2000.0), (2000.0, 0.2), (2.0, 20.0), (1e-5, 1e5)]
TRACS3 = ['T1', 'T2', 'T3', 'T23', 'TD', 'LHT1', 'RHT1', 'LHT2', 'RHT2', 'LHT3', 'RHT3']
TRACS4 = ['F1', 'F2', 'F3', 'F4', 'FD']
MODES = ['WRAP', 'SHIF', 'NB  ', 'GRAD', 'X10 ']
FILM_EEE = ['1', 'EEE', '----', 'PF1', 'D200']
FILM_LLLL = ['1', 'LLLL', '1111', 'PF1', 'D200']
GRIDS = [('EEE', '----'), ('E20', '-4--'), ('E2E', '-1--'), ('E2E', '-2--'), ('E3E', '-3--'), ('E4E', '-4--'), ('EEB', '----'),
         ('EBE', '----'), ('BBB', '----'), ('LLLL', '1111'), ('EEE', 'EEE-'), ('EB0', '----'), ('E1E', '-4--'), ('E40', '-4--'),
         ('E2E', '-2- ')]
DSCAS = ['D200', 'D500', 'DM  ', 'S5  ', 'S2  ', 'D20 ', 'D40 ']
SCALES = [0, 200, 1000]


def tables_case(film, pres, chans, n=12, down=False, scale=0, entry='Plot', plot_film='1', fpr=4):
    return {'part': 'b', 'input': 'LIS', 'entry': entry, 'fpr': fpr,
            'cfg': {'kind': 'tables', 'film': film, 'pres': pres, 'plot_film': plot_film},
            'chans': chans, 'n': n, 'down': down, 'scale': scale}


def gen_pres(tier):
    """B1: every PRES track x mode x scale x shape with one curve (thorough: plus a second curve of the same output)."""
    ns = [12] if tier == 'quick' else [12, 2, 1, 25]
    scales = [0] if tier == 'quick' else SCALES
    for four, tracs in ((False, TRACS3), (True, TRACS4)):
        film = [FILM_LLLL if four else FILM_EEE]
        for trac in tracs:
            for mode in MODES:
                for lo, hi in (LOG_SCALES if mode == 'GRAD' else LIN_SCALES):
                    slo, shi = stored68(lo), stored68(hi)
                    for shape in SHAPES:
                        for n in ns:
                            for scale in scales:
                                if (n != 12 and scale != 0):
                                    continue
                                pres = [['CRV', 'CH0', trac, 'LLIN', '1', mode, lo, hi, None]]
                                if tier != 'quick':
                                    other = ('F4' if trac != 'F4' else 'F1') if four else ('T3' if trac != 'T3' else 'T1')
                                    pres.append(['CMP', 'CH0', other, 'HDAS', '1', 'WRAP', 0.0, 100.0, None])
                                yield tables_case(film, pres, [['CH0', 'GAPI', shape, slo, shi, mode == 'GRAD']], n=n, scale=scale,
                                                  fpr=4 if n > 4 else 1)


def three_curves(four=False, dest='1', colo=True):
    a, b, c = (('F1', 'F23', 'F4') if four else ('T1', 'T23', 'T3'))
    return [['GR', 'GR', a, 'LLIN', dest, 'WRAP', 0.0, 150.0, 'GREE' if colo else None],
            ['GRB', 'GR', c, 'LGAP', dest, 'SHIF', 150.0, 0.0, 'RED ' if colo else None],
            ['ILD', 'ILD', b, 'LDAS', dest, 'GRAD', 0.2, 2000.0, 'BLUE' if colo else None],
            ['SP', 'SP', a, 'HSPO', dest, 'NB  ', -80.0, 20.0, 'AQUA' if colo else None]]


def three_chans(rot):
    specs = [('GR', 'GAPI', 0.0, 150.0, False), ('ILD', 'OHMM', 0.2, 2000.0, True), ('SP', 'MV', -80.0, 20.0, False)]
    return [[m, u, SHAPES[(rot + 3 * i) % len(SHAPES)], stored68(lo), stored68(hi), log] for i, (m, u, lo, hi, log) in enumerate(specs)]


def gen_film(tier):
    """B2: FILM grids x depth scales x plot scale x direction x destinations, four curves from three outputs."""
    rots = range(len(SHAPES))
    for gcod, gdec in GRIDS:
        four = gcod == 'LLLL'
        for dsca in (DSCAS if (gcod, gdec) == ('EEE', '----') else ['D200', 'DM  ']):
            for scale in SCALES:
                for down in (False, True):
                    for rot in rots:
                        if tier == 'quick' and (rot + len(gcod + gdec + dsca) + scale // 100 + down) % 3:
                            continue
                        film = [['1', gcod, gdec, 'PF1', dsca]]
                        yield tables_case(film, three_curves(four), three_chans(rot), down=down, scale=scale)
    # destinations and a second film; COLO column absent; MODE column absent
    for dest, films, plot_film in (('BOTH', 2, '2'), ('ALL', 2, '1'), ('ALL', 1, '1'), ('12', 2, '2'), ('2', 2, '2')):
        for rot in rots:
            film = [['1', 'EEE', '----', 'PF1', 'D200'], ['2', 'E20', '-4--', 'PF2', 'D500']][:films]
            yield tables_case(film, three_curves(False, dest), three_chans(rot), plot_film=plot_film)
    for rot in rots:
        yield tables_case([FILM_EEE], three_curves(False, '1', colo=False), three_chans(rot))
        pres = [[r[0], r[1], r[2], r[3], r[4], None, r[6], r[7], r[8]] for r in three_curves() if r[5] != 'GRAD']
        yield tables_case([FILM_EEE], pres, three_chans(rot))
    # few frames; frames per data record 1 (every frame its own record) and 4 (n <= 4: the whole pass is one record)
    ns = [(2, 1), (3, 1), (1, 1), (5, 4), (2, 4), (3, 4)] + ([(25, 4), (60, 7), (4, 4), (4, 3)] if tier != 'quick' else [])
    for n, fpr in ns:
        for rot in rots:
            for down in (False, True):
                yield tables_case([FILM_EEE], three_curves(), three_chans(rot), n=n, down=down, fpr=fpr)
    # an X axis that is implied (a value per data record plus the frame spacing) and channels of several samples and bursts per frame
    for indirect in (False, True):
        for sb in ((2, 8), (1, 4), (3, 1)):
            for rot in (0, 2):
                for down in (False, True):
                    for film in (FILM_EEE, ['1', 'EEE', '----', 'PF1', 'D20 ']):
                        c = tables_case([film], three_curves(), three_chans(rot), n=24, down=down, fpr=4)
                        yield dict(c, sb=list(sb), indirect=indirect)
    # channel / curve names a LIS file may hold that are awkward inside an SVG (the plot names each curve in a comment and a legend)
    for name in ('E---', '----', 'A-B', 'C--D', '-', 'A&B', '<GR>', 'A"B', "A'B"):
        for rot in (0, 3):
            pres = [[name, name, 'T1', 'LLIN', '1', 'WRAP', 0.0, 150.0, None], ['GR', 'GR', 'T3', 'LDAS', '1', 'SHIF', 150.0, 0.0, None]]
            chans = [[name, 'GAPI', SHAPES[rot], stored68(0.0), stored68(150.0), False], ['GR', 'GAPI', SHAPES[rot + 1], stored68(0.0), stored68(150.0), False]]
            yield tables_case([FILM_EEE], pres, chans)


def format_channels(uid, lis):
    """Data channels for a built-in format: one per distinct ChannelName (LIS: names of at most 4 characters)."""
    seen, out = set(), []
    for c in formats()[uid]['curves']:
        name = c['outp']
        if norm_name(name) in seen or not name.isascii() or (lis and len(name) > 4) or not name or any(ch in name for ch in ' .:~#\t'):
            continue
        seen.add(norm_name(name))
        lo, hi, log = c['lo'], c['hi'], c['log']
        if lo == hi or (log and min(lo, hi) <= 0):
            lo, hi, log = 0.0, 1.0, False
        out.append((name, lo, hi, log))
    return out


def gen_xml(tier, input_kind, entry):
    rots = range(len(SHAPES))
    for uid in formats():
        chs = format_channels(uid, input_kind == 'LIS')
        if not chs:
            continue
        for scale in SCALES:
            for rot in rots:
                if entry == 'PlotLogs' and (rot + scale // 100) % 3:
                    continue
                if tier == 'quick' and entry == 'Plot' and scale != 0 and (rot + scale // 200) % 2:
                    continue
                chans = []
                for i, (name, lo, hi, log) in enumerate(chs):
                    slo, shi = (stored68(lo), stored68(hi)) if input_kind == 'LIS' else (lo, hi)
                    chans.append([name, 'UNIT', SHAPES[(rot + i) % len(SHAPES)], slo, shi, log])
                for down in ((False, True) if (rot % 3 == 0 and scale == 0) else (False,)):
                    for n in ((12, 1) if (rot == 1 and scale == 0) else (12,)):
                        yield {'part': 'b', 'input': input_kind, 'entry': entry, 'cfg': {'kind': 'xml', 'uid': uid},
                               'chans': chans, 'n': n, 'down': down, 'scale': scale}


def gen_absent(tier):
    """The format specification declares 0.0 / -9999 (not the usual -999.25) as the absent value; SP's scale -80..20 has 0 inside."""
    for absent in (0.0, -9999.0):
        for rot in range(len(SHAPES)):
            for entry in ('Plot', 'PlotLogs'):
                c = tables_case([FILM_EEE], three_curves(), three_chans(rot), entry=entry)
                c['absent'] = absent
                yield c


def gen_xunits(tier):
    """The X axis recorded in tenths of an inch, the plot interval asked for in feet (Plot entry; PlotLogs uses the file's units)."""
    for rot in range(len(SHAPES)):
        for down in (False, True):
            c = tables_case([FILM_EEE], three_curves(), three_chans(rot), down=down)
            c['xunits'] = '.1IN'
            yield c
    for uid in list(formats())[:(2 if tier == 'quick' else 6)]:
        chs = format_channels(uid, True)
        if chs:
            chans = [[name, 'UNIT', SHAPES[(2 + i) % len(SHAPES)], stored68(lo), stored68(hi), log] for i, (name, lo, hi, log) in enumerate(chs)]
            yield {'part': 'b', 'input': 'LIS', 'entry': 'Plot', 'cfg': {'kind': 'xml', 'uid': uid}, 'chans': chans, 'n': 12, 'down': False, 'scale': 0, 'xunits': '.1IN'}


def gen_second(tier):
    """A second plot of part of the pass with the same Plot / LogPass objects."""
    for rot in range(len(SHAPES)):
        for down in (False, True):
            for scale in (SCALES if tier != 'quick' else [0, 200]):
                for n, fpr, film in ((12, 4, FILM_EEE), (120, 20, ['1', 'EEE', '----', 'PF1', 'D40 '])):
                    c = tables_case([film], three_curves(), three_chans(rot), n=n, down=down, scale=scale, fpr=fpr)
                    c['second'] = True
                    yield c
                    if scale == 0:
                        yield dict(c, other_first=True)
    for uid in list(formats())[:(3 if tier == 'quick' else 8)]:
        chs = format_channels(uid, True)
        if not chs:
            continue
        chans = [[name, 'UNIT', SHAPES[(1 + i) % len(SHAPES)], stored68(lo), stored68(hi), log] for i, (name, lo, hi, log) in enumerate(chs)]
        yield {'part': 'b', 'input': 'LIS', 'entry': 'Plot', 'cfg': {'kind': 'xml', 'uid': uid}, 'chans': chans, 'n': 12, 'down': False, 'scale': 0, 'second': True}


def gen_logs_tables(tier):
    for scale in SCALES:
        for rot in range(len(SHAPES)):
            for down in (False, True):
                film = [['1', 'EEE', '----', 'PF1', 'D200'], ['2', 'E20', '-4--', 'PF2', 'D500']]
                c = tables_case(film, three_curves(False, 'BOTH' if rot % 2 else '1'), three_chans(rot), down=down, scale=scale, entry='PlotLogs')
                yield c
                if rot % 3 == 0:
                    yield dict(c, api=True)        # with an API header above the plot area (-A)
                if rot % 3 == 1 and scale == 0:
                    # every curve goes to the second film only: the first film has nothing to plot, the second one has
                    yield tables_case(film, three_curves(False, '2'), three_chans(rot), down=down, scale=scale, entry='PlotLogs')
    for n, fpr in ((1, 1), (2, 1), (2, 4)):
        yield tables_case([FILM_EEE], three_curves(), three_chans(1), n=n, entry='PlotLogs', fpr=fpr)


GROUPS = {
    'pres': gen_pres,
    'film': gen_film,
    'xml_lis': lambda tier: gen_xml(tier, 'LIS', 'Plot'),
    'xml_las': lambda tier: gen_xml(tier, 'LAS', 'Plot'),
    'logs_tables': gen_logs_tables,
    'logs_xml_lis': lambda tier: gen_xml(tier, 'LIS', 'PlotLogs'),
    'logs_xml_las': lambda tier: gen_xml(tier, 'LAS', 'PlotLogs'),
    'logs_dir': gen_logs_dir,
    'absent': gen_absent,
    'second': gen_second,
    'xunits': gen_xunits,
}
CHUNK = {'pres': (60, 200), 'film': (40, 80), 'logs_dir': (1, 2)}     # cases per shard (quick, thorough); other groups: (20, 25), a plot from a
# LgFormat file costs about ten times a plot from a PRES table


def shards(tier):
    out = shards_a(tier)
    for g in GROUPS:
        n = sum(1 for _ in GROUPS[g](tier))
        step = CHUNK.get(g, (20, 25))[0 if tier == 'quick' else 1]
        for lo in range(0, n, step):
            out.append({'part': 'b', 'group': g, 'lo': lo, 'hi': min(n, lo + step)})
    return out


def case_key(case):
    return repr(sorted(case.items(), key=lambda kv: kv[0]))


def run_shard(shard, tier):
    res = Result()
    if shard['part'] == 'a':
        run_shard_a(shard, res)
        return res
    try:
        for i, case in enumerate(itertools.islice(GROUPS[shard['group']](tier), shard['lo'], shard['hi'])):
            bad, outcome, nontrivial = run_dir(case) if case['part'] == 'd' else run_plot(case)
            res.case(case_key(case), nontrivial=nontrivial, outcome=outcome, sample=case if i == 0 else None)
            res.count('plots_' + shard['group'])
            for sig, msg in bad:
                res.violate(sig, case, msg)
    finally:
        drop_scratch()
    return res


def replay(case):
    if case['part'] == 'a':
        bad, _o, _n = check_trans(case)
    else:
        try:
            bad, _o, _n = run_dir(case) if case['part'] == 'd' else run_plot(case)
        finally:
            drop_scratch()
    return [{'sig': sig, 'case': case, 'msg': msg} for sig, msg in bad]
