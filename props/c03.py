"""C03 - DLIS logical files and their tables decode to what was encoded (E1 enumeration)."""
import io
import itertools

from mc.run import Result, h64
from models import rp66_ref as R

ID = 'C03'
LEVEL = 'exploration'
ENGINE = 'E1 small-scope enumerator'
DESIGN_REF = 'DESIGN.md section 4, C03'
TECHNIQUE = ('bounded exhaustive enumeration of EFLR content models (set x template descriptor x representation code x '
             'object component shapes x record sequences with encrypted records) written by an independent producer and '
             'decoded by the real LogicalIndex; tables compared cell by cell')
RULE = ('shape D (one attribute deep): set role/name x one template column over role x all 16 subsets of {C,R,U,V} x all 19 '
        'supported codes x count {0,1,2} (and 127, 128, 130, 300 for 4 codes, in the template and overriding it) x 0-2 objects whose component ranges over {omitted, absent, every subset of '
        'overriding {C,R,U,V}}; shape W (across columns): every 2-3 column template over {ordinary with default, ordinary '
        'without, invariant, invariant with every characteristic} x every legal object shape word over {override, absent, trailing-omitted} x 0-2 objects; '
        'shape F (across records): 1-2 logical files x 0-2 further sets (among them a second ORIGIN and a WELL-REFERENCE set) x an encrypted EFLR / IFLR at every position x '
        '{one segment, split across a visible record boundary}. non-trivial = anything but a single default column with no '
        'objects; outcome = hash of the decoded tables')
ASSUMPTIONS = ['a cell is marked absent iff the object attribute is None or its component descriptor is the absent-attribute role (either marking accepted)',
               'duplicate object names / duplicate labels are not generated (the statement does not speak about replacement)',
               'labels are always present in template attributes (required by RP66V1 3.2.2.2) and never in object attributes',
               'a value list of zero elements and "no value" are not distinguished']
BOUNDS = {'quick': 'shape D with <= 1 object full and 2 objects reduced; shape W 2-3 columns, <= 2 objects; shape F all positions',
          'thorough': 'shape D with 2 objects over the full component alphabet for 6 codes; shape W as quick with 3 value codes'}
LEVEL_TEXT = ('Every content model of the stated alphabets is encoded from the standard by models/rp66_ref.py and decoded by the '
              'real indexer; set type/name, labels, object names and every cell (count, code, units, values, absent marking) '
              'must equal the model with omitted characteristics taken from the template.')
LEVEL_NOTE = 'trusted: models/rp66_ref.py; bounds as stated'

CODES = [19, 2, 5, 6, 7, 12, 13, 14, 15, 16, 17, 18, 20, 21, 22, 23, 24, 26, 27]
VALUES = {
    2: [1.5, -153.0], 5: [b'\x42\x99\x00\x00', b'\xc1\x10\x00\x00', b'\xc2\x99\x00\x00', b'\x40\x40\x00\x00'],   # 153, -1 (odd exponent), -153, 0.25
     6: [b'\x0c\x44\x00\x80', b'\x80\xc0\x00\x00', b'\x0c\xc4\x00\x80', b'\x80\x3f\x00\x00', b'\x00\x00\x00\x00', b'\x12\x00\x56\x34'],   # 153, -1 (odd exponent), -153, 0.25, zero, zero with fraction bits set (E = 0, S = 0)
    7: [0.1, -1e300], 12: [-128, 127], 13: [-32768, 32767], 14: [-2 ** 31, 2 ** 31 - 1], 15: [0, 255], 16: [0, 65535],
    17: [0, 2 ** 32 - 1], 18: [127, 16384], 19: [b'', b'Ab 1'], 20: [b'hello world', b'x' * 200],
    21: [(1987, 0, 4, 19, 21, 20, 15, 620), (2021, 2, 12, 31, 23, 59, 59, 999)], 22: [0, 300],
    23: [(0, 0, b'N'), (300, 255, b'')], 24: [(b'TYPE', (1, 2, b'N')), (b'', (16384, 0, b'LONG-NAME'))], 26: [0, 1],
    27: [b'', b'm/s2'],
}
GLOBAL = {'count': 1, 'code': 19, 'units': b''}


def vals(code, count, salt=0):
    a = VALUES[code]
    return [a[(i + salt) % len(a)] for i in range(count)]


# ------------------------------------------------------------------------------------------------
# model -> bytes / expectation
# ------------------------------------------------------------------------------------------------
def col_eff(col):
    return {'count': col['count'] if col.get('count') is not None else 1,
            'code': col['code'] if col.get('code') is not None else 19,
            'units': col['units'] if col.get('units') is not None else b'',
            'values': col.get('values')}


def encode_set(s):
    by = R.set_component(s['type'], s.get('name'), {'SET': R.ROLE_SET, 'RSET': R.ROLE_RSET, 'RDSET': R.ROLE_RDSET}[s.get('role', 'SET')])
    for col in s['template']:
        e = col_eff(col)
        by += R.attr_component(R.ROLE_INVATR if col.get('inv') else R.ROLE_ATTRIB, label=col['label'], count=col.get('count'),
                               code=col.get('code'), units=col.get('units'), values=col.get('values'), value_code=e['code'])
    noninv = [col_eff(c) for c in s['template'] if not c.get('inv')]
    for obj in s['objects']:
        by += R.object_component(obj['name'])
        for k, comp in enumerate(obj['comps']):
            if comp == 'absent':
                by += R.attr_component(R.ROLE_ABSATR)
            else:
                code = comp['code'] if comp.get('code') is not None else noninv[k]['code']
                by += R.attr_component(R.ROLE_ATTRIB, count=comp.get('count'), code=comp.get('code'), units=comp.get('units'),
                                       values=comp.get('values'), value_code=code)
    return by


def norm_model_value(code, v):
    if code == 5:
        return float(R.isingl_exact(v))
    if code == 6:
        return float(R.vsingl_exact(v))
    if code == 2:
        import struct
        return struct.unpack('>f', struct.pack('>f', v))[0]
    return v


def cell(code, count, units, values):
    return (count, code, units, tuple(norm_model_value(code, v) for v in (values or [])))


def expected_table(s):
    rows = []
    effs = [col_eff(c) for c in s['template']]
    for obj in s['objects']:
        cells = []
        k = 0
        for c, e in zip(s['template'], effs):
            if c.get('inv'):
                cells.append(cell(e['code'], e['count'], e['units'], e['values']))
                continue
            comp = obj['comps'][k] if k < len(obj['comps']) else None
            k += 1
            if comp is None:
                cells.append(cell(e['code'], e['count'], e['units'], e['values']))
            elif comp == 'absent':
                cells.append('absent')
            else:
                code = comp['code'] if comp.get('code') is not None else e['code']
                count = comp['count'] if comp.get('count') is not None else e['count']
                units = comp['units'] if comp.get('units') is not None else e['units']
                if comp.get('values') is not None:
                    cells.append(cell(code, count, units, comp['values']))
                else:   # value taken from the template (decoded with the template's code)
                    cells.append((count, code, units, tuple(norm_model_value(e['code'], v) for v in (e['values'] or []))))
        rows.append((tuple(obj['name']), cells))
    return (s['type'], s.get('name') if s.get('name') is not None else b'', [c['label'] for c in s['template']], rows)


def norm_value(v):
    from TotalDepth.RP66V1.core import RepCode
    if isinstance(v, RepCode.DateTime):
        return (v.year, v.tz, v.month, v.day, v.hour, v.minute, v.second, v.millisecond)
    if isinstance(v, RepCode.ObjectReference):
        return (v.T, (v.N.O, v.N.C, v.N.I))
    if isinstance(v, RepCode.ObjectName):
        return (v.O, v.C, v.I)
    return v


def observed_table(eflr):
    rows = []
    labels = [a.label for a in eflr.template.attrs]
    unique = [i for i, lb in enumerate(labels) if labels.count(lb) == 1]
    names = [obj.name for obj in eflr.objects]
    for obj in eflr.objects:
        cells = []
        for a in obj.attrs:
            if a is None or a.component_descriptor.is_absent_attribute:
                cells.append('absent')
            else:
                cells.append((a.count, a.rep_code, a.units, tuple(norm_value(v) for v in (a.value or []))))
        # the lesser accessors agree with the positional ones: a cell looked up by its column label, a row by its name
        for i in unique:
            if i < len(obj.attrs):
                try:
                    same = obj[labels[i]] is obj.attrs[i]
                except Exception as err:  # noqa
                    same = False
                if not same:
                    cells[i] = ('lookup by label %r gives another cell than position %d' % (labels[i], i), cells[i])
        if len(obj) != len(obj.attrs):
            cells.append('len(object) = %r' % len(obj))
        if names.count(obj.name) == 1:
            try:
                same = eflr[obj.name] is obj
            except Exception as err:  # noqa
                same = False
            if not same:
                cells.append('lookup of the row by its name gives another row')
        rows.append(((obj.name.O, obj.name.C, obj.name.I), cells))
    for i in unique:
        if eflr.template[labels[i]] is not eflr.template.attrs[i]:
            labels[i] = ('template lookup by label gives another column', labels[i])
    return (eflr.set.type, eflr.set.name, labels, rows)


FILE_HEADER = {'type': b'FILE-HEADER', 'name': b'0', 'template': [
    {'label': b'SEQUENCE-NUMBER', 'code': 20}, {'label': b'ID', 'code': 20}],
    'objects': [{'name': (2, 0, b'5'), 'comps': [{'values': [b'       197']}, {'values': [b'MSCT_197LTP'.ljust(65)]}]}]}
ORIGIN = {'type': b'ORIGIN', 'template': [{'label': b'FILE-ID', 'code': 20}, {'label': b'FILE-SET-NUMBER', 'code': 18}],
          'objects': [{'name': (2, 0, b'DLIS_DEFINING_ORIGIN'), 'comps': [{'values': [b'HOLE']}, {'values': [41]}]}]}


# An ORIGIN set carrying the attributes a producer normally writes (RP66V1 5.2.1); used by the converters' well section.
ORIGIN_FULL = {'type': b'ORIGIN', 'template': [
    {'label': b'FILE-ID', 'code': 20}, {'label': b'FILE-SET-NUMBER', 'code': 18}, {'label': b'CREATION-TIME', 'code': 21},
    {'label': b'WELL-NAME', 'code': 20}, {'label': b'FIELD-NAME', 'code': 20}, {'label': b'PRODUCER-NAME', 'code': 20},
    {'label': b'COMPANY', 'code': 20}],
    'objects': [{'name': (2, 0, b'DLIS_DEFINING_ORIGIN'), 'comps': [
        {'values': [b'HOLE']}, {'values': [41]}, {'values': [(2011, 0, 8, 20, 9, 30, 15, 0)]}, {'values': [b'WELL 1']},
        {'values': [b'WILDCAT']}, {'values': [b'ACME LOGGING']}, {'values': [b'ANY OIL COMPANY']}]}]}


def lrtype_for(s):
    if s['type'] == b'FILE-HEADER':
        return 0
    if s['type'] in (b'ORIGIN', b'WELL-REFERENCE'):
        return 1
    return s.get('lrtype', 5)


def build(case_files, layout):
    """case_files: list of logical files, each a list of items: set model | 'ENC_EFLR' | 'ENC_IFLR'."""
    recs = []
    exp = []
    for lf in case_files:
        tables = []
        for item in lf:
            if item == 'ENC_EFLR':
                payload = R.position_coded(3, 20)
                recs.append({'eflr': True, 'type': 5, 'payload': payload, 'encrypted': True})
            elif item == 'ENC_IFLR':
                recs.append({'eflr': False, 'type': 0, 'payload': R.position_coded(5, 14), 'encrypted': True})
            else:
                payload = encode_set(item)
                rec = {'eflr': True, 'type': lrtype_for(item), 'payload': payload}
                if layout == 'split' and len(payload) >= 2:
                    rec['cuts'] = [len(payload) // 2]
                    rec['newvr'] = [False, True]
                recs.append(rec)
                tables.append((lrtype_for(item), expected_table(item)))
        exp.append(tables)
    data, _lay = R.build_file(recs)
    return data, exp


def features(case_files):
    inv = zero = False
    for lf in case_files:
        for item in lf:
            if isinstance(item, dict):
                inv = inv or any(c.get('inv') for c in item['template'])
                zero = zero or any(len(o['comps']) == 0 for o in item['objects'])
    return inv, zero


def check_files(case_files, layout='one', reindex=True):
    from TotalDepth.RP66V1.core import LogicalFile
    data, exp = build(case_files, layout)
    try:
        stream = io.BytesIO(data)
        stream.seek((0, 80, len(data), 84)[len(data) % 4])      # a caller's file object is where the caller left it (after recognising the label, after writing it)
        index_object = LogicalFile.LogicalIndex(stream)
        with index_object as idx:
            got = [[(pe.eflr.lr_type, observed_table(pe.eflr)) for pe in lf.eflrs] for lf in idx.logical_files]
            kept = idx.logical_files
            # presenting a table (as the scan tools print it, rows sorted by name and in file order) is a query: the table read
            # afterwards - by position, by label, by name - is the table read before
            from TotalDepth.RP66V1.core import stringify
            for lf in idx.logical_files:
                for pe in lf.eflrs:
                    for srt in (True, False):
                        try:
                            pe.eflr.table_as_strings(stringify.stringify_object_by_type, sort=srt)
                        except Exception:  # noqa  (what the rendering does with a value is C18's business)
                            pass
            shown = [[(pe.eflr.lr_type, observed_table(pe.eflr)) for pe in lf.eflrs] for lf in idx.logical_files]
            if shown != got:
                return [({'kind': 'table_changed_by_rendering'}, 'after table_as_strings(sort=True / False) the tables read differently: %r before, %r after'
                         % ([t for f in got for t in f if t not in [u for g in shown for u in g]][:1], [t for f in shown for t in f if t not in [u for g in got for u in g]][:1]))], ('render',)
        # the logical files taken from the open index are plain in-memory tables: a caller that keeps them reads them after the
        # index is closed as before
        try:
            after = [[(pe.eflr.lr_type, observed_table(pe.eflr)) for pe in lf.eflrs] for lf in kept]
        except Exception as err:  # noqa
            after = '%s: %s' % (type(err).__name__, err)
        if after != got:
            return [({'kind': 'logical_files_change_when_the_index_closes'}, 'the logical files kept from the open index read %s after it is closed, %d logical files before'
                     % (('%d logical files' % len(after)) if isinstance(after, list) else after, len(got)))], ('closed',)
        if reindex:
            # indexing again through the same object (enter, leave, enter) must give the same logical files
            with index_object as idx:
                again = [[(pe.eflr.lr_type, observed_table(pe.eflr)) for pe in lf.eflrs] for lf in idx.logical_files]
            if again != got:
                return [({'kind': 'second_indexing_differs'}, 'indexing the file a second time through the same LogicalIndex gives %d logical '
                         'files, the first time %d' % (len(again), len(got)))], ('reindex',)
    except Exception as err:  # noqa
        inv, zero = features(case_files)
        return [({'kind': 'index_raises', 'exc': type(err).__name__, 'invariant_column': inv, 'object_without_components': zero},
                 '%s: %s' % (type(err).__name__, err))], ('raise', type(err).__name__)
    bad = []
    if len(got) != len(exp):
        bad.append(({'kind': 'logical_file_count'}, '%d logical files, %d were written' % (len(got), len(exp))))
    for f, (g, e) in enumerate(zip(got, exp)):
        if len(g) != len(e):
            bad.append(({'kind': 'table_count'}, 'logical file %d: %d tables, %d written' % (f, len(g), len(e))))
            continue
        for t, ((gt, gtab), (et, etab)) in enumerate(zip(g, e)):
            if gt != et or gtab[0] != etab[0] or gtab[1] != etab[1]:
                bad.append(({'kind': 'set_type_name'}, 'file %d table %d: (lr type, set type, name)=%r written %r'
                            % (f, t, (gt, gtab[0], gtab[1]), (et, etab[0], etab[1]))))
            if gtab[2] != etab[2]:
                bad.append(({'kind': 'labels'}, 'file %d table %d: labels %r written %r' % (f, t, gtab[2], etab[2])))
            if [r[0] for r in gtab[3]] != [r[0] for r in etab[3]]:
                bad.append(({'kind': 'object_names'}, 'file %d table %d: objects %r written %r'
                            % (f, t, [r[0] for r in gtab[3]], [r[0] for r in etab[3]])))
                continue
            for (name, gc), (_n, ec) in zip(gtab[3], etab[3]):
                if len(gc) != len(ec):
                    bad.append(({'kind': 'cell_count'}, 'object %r has %d cells, template has %d' % (name, len(gc), len(ec))))
                    continue
                for j, (a, b) in enumerate(zip(gc, ec)):
                    if a != b or (a != 'absent' and [type(x) for x in a[3]] != [type(x) for x in b[3]]):
                        what = 'absent_marking' if 'absent' in (a, b) else 'cell'
                        bad.append(({'kind': what}, 'file %d table %d object %r column %d: decoded %r encoded %r' % (f, t, name, j, a, b)))
    return bad, h64(repr(got))


# ------------------------------------------------------------------------------------------------
# enumeration
# ------------------------------------------------------------------------------------------------
def subsets(items):
    for r in range(len(items) + 1):
        for c in itertools.combinations(items, r):
            yield set(c)


def template_cols(code_list):
    """One-column templates: role x subset of {C,R,U,V} x code x count."""
    for inv in (False, True):
        for sub in subsets('CRUV'):
            codes = code_list if 'R' in sub else [19]
            counts = [0, 1, 2] if 'C' in sub else [1]
            for code in codes:
                for count in counts:
                    col = {'label': b'COL-A', 'inv': inv}
                    if 'C' in sub:
                        col['count'] = count
                    if 'R' in sub:
                        col['code'] = code
                    if 'U' in sub:
                        col['units'] = b'ft'
                    if 'V' in sub:
                        col['values'] = vals(code, count)
                    yield col


def object_comps(col, full):
    """Component options for one ordinary column: omitted, absent, every subset of overriding {C,R,U,V}."""
    e = col_eff(col)
    yield None
    yield 'absent'
    alt_codes = [16, 20] if not full else [16, 20, 7, 23]
    for sub in subsets('CRUV'):
        if not sub:
            yield {}
            continue
        for code in (alt_codes if 'R' in sub else [None]):
            for count in ([0, 2] if 'C' in sub else [None]):
                comp = {}
                if count is not None:
                    comp['count'] = count
                if code is not None:
                    comp['code'] = code
                if 'U' in sub:
                    comp['units'] = b'\xb5s/ft^2'      # two characters outside the units alphabet: the reader warns, the units are what was encoded
                if 'V' in sub:
                    ecode = code if code is not None else e['code']
                    ecount = count if count is not None else e['count']
                    comp['values'] = vals(ecode, ecount, salt=1)
                yield comp


SETS = [('SET', b'PARAMETER', None, 5), ('SET', b'PARAMETER', b'', 5), ('RSET', b'TOOL', b'name 1', 5),
        ('RDSET', b'440-CUSTOM', b'\xb0N', 200), ('SET', b'x' * 255, b'y' * 255, 255), ('SET', b'', None, 5)]


def mkset(k, template, objects):
    role, typ, name, lrtype = SETS[k % len(SETS)]
    s = {'role': role, 'type': typ, 'template': template, 'objects': objects, 'lrtype': lrtype}
    if name is not None:
        s['name'] = name
    return s


def gen_D(tier, code):
    """Shape D for the template columns whose code is `code`."""
    full = tier == 'thorough' and code in (19, 2, 16, 20, 21, 23)
    k = 0
    names = [(0, 0, b'OBJ0'), (1, 1, b'OBJ1')]
    for col in template_cols([code]):
        if col_eff(col)['code'] != code:
            continue
        if col.get('inv'):
            for nobj in (0, 1, 2):
                k += 1
                yield mkset(k, [col], [{'name': names[i], 'comps': []} for i in range(nobj)])
            continue
        opts = list(object_comps(col, full))
        k += 1
        yield mkset(k, [col], [])
        for c0 in opts:
            k += 1
            yield mkset(k, [col], [{'name': names[0], 'comps': [] if c0 is None else [c0]}])
        second = opts if full else [None, 'absent', {}, {'values': vals(col_eff(col)['code'], col_eff(col)['count'], 1)}]
        for c0 in opts:
            for c1 in second:
                k += 1
                yield mkset(k, [col], [{'name': names[0], 'comps': [] if c0 is None else [c0]},
                                       {'name': names[1], 'comps': [] if c1 is None else [c1]}])


def gen_big_counts(code):
    """Counts that need a two-byte UVARI (128, 130, 300; 127 is the last one-byte count): in the template, and overriding it in an object,
    each followed by another column so that a mis-read count shows."""
    names = [(1, 1, b'OBJ1'), (0, 0, b'OBJ0')]      # not in name order: the file's order is the table's order
    k = 0
    for cnt in (127, 128, 130, 300):
        second = {'label': b'NEXT', 'code': 16, 'values': [7]}
        tcol = {'label': b'BIG', 'code': code, 'count': cnt, 'values': vals(code, cnt)}
        k += 1
        yield mkset(k, [tcol, second], [{'name': names[0], 'comps': []}, {'name': names[1], 'comps': [{}, {'values': [9]}]}])
        small = {'label': b'BIG', 'code': code, 'values': vals(code, 1)}
        k += 1
        yield mkset(k, [small, second], [{'name': names[0], 'comps': [{'count': cnt, 'values': vals(code, cnt, 1)}, {'values': [9]}]},
                                         {'name': names[1], 'comps': [{'count': cnt, 'values': vals(code, cnt, 2)}]}])


def gen_W(tier, ncols, vcode):
    cols_alpha = ['Av', 'A', 'I', 'If']      # If: an invariant attribute with every characteristic present (descriptor 0x5F)
    names = [(1, 1, b'OBJ1'), (0, 0, b'OBJ0')]
    k = 0
    for word in itertools.product(cols_alpha, repeat=ncols):
        template = []
        for j, w in enumerate(word):
            col = {'label': b'C%d' % j, 'code': vcode if j % 2 == 0 else 16}
            code = col['code']
            if w == 'Av':
                col['values'] = vals(code, 1)
            elif w in ('I', 'If'):
                col['inv'] = True
                col['values'] = vals(code, 1, 1)
                col['units'] = b'a$#b'
                if w == 'If':
                    col['count'] = 1
            template.append(col)
        nonidx = [j for j, w in enumerate(word) if w not in ('I', 'If')]
        shapes = []
        for n in range(len(nonidx) + 1):              # n components present, the rest trailing-omitted
            for sw in itertools.product(('override', 'absent'), repeat=n):
                shapes.append(sw)
        def comps_for(sw, salt):
            out = []
            for pos, what in enumerate(sw):
                col = template[nonidx[pos]]
                out.append('absent' if what == 'absent' else {'values': vals(col['code'], 1, salt)})
            return out
        k += 1
        yield mkset(k, template, [])
        for s0 in shapes:
            k += 1
            yield mkset(k, template, [{'name': names[0], 'comps': comps_for(s0, 1)}])
            for s1 in shapes:
                k += 1
                yield mkset(k, template, [{'name': names[0], 'comps': comps_for(s0, 1)}, {'name': names[1], 'comps': comps_for(s1, 0)}])


def extra_sets():
    t1 = [{'label': b'LONG-NAME', 'code': 20, 'values': [b'default']}, {'label': b'VAL', 'code': 2, 'units': b'm'}]
    return [
        mkset(0, t1, [{'name': (0, 0, b'P1'), 'comps': [{'values': [b'one']}, {'values': [1.5]}]},
                      {'name': (0, 0, b'P2'), 'comps': ['absent']}]),
        mkset(2, [{'label': b'ONLY', 'inv': True, 'code': 16, 'values': [7]}], [{'name': (0, 0, b'E1'), 'comps': []}]),
        mkset(3, [{'label': b'A', 'code': 23, 'count': 2, 'values': vals(23, 2)}], []),
        # a logical file may hold further ORIGIN sets and a WELL-REFERENCE set (RP66V1 5.2, 5.2.2): they are tables like any other
        {'type': b'ORIGIN', 'name': b'OR1', 'template': [{'label': b'FILE-ID', 'code': 20}, {'label': b'FILE-SET-NUMBER', 'code': 18}],
         'objects': [{'name': (7, 0, b'SECOND_ORIGIN'), 'comps': [{'values': [b'HOLE 2']}, {'values': [42]}]}]},
        {'type': b'WELL-REFERENCE', 'template': [{'label': b'PERMANENT-DATUM', 'code': 20}, {'label': b'ABOVE-PERMANENT-DATUM', 'code': 2, 'units': b'm'}],
         'objects': [{'name': (2, 0, b'WR'), 'comps': [{'values': [b'MSL']}, {'values': [12.5]}]}]},
        # the sets that define frames, and PATH which shares its logical record type (4) with FRAME
        {'type': b'CHANNEL', 'name': b'chs', 'lrtype': 3, 'template': [{'label': b'LONG-NAME', 'code': 20}, {'label': b'REPRESENTATION-CODE', 'code': 15},
                                                                     {'label': b'UNITS', 'code': 27}, {'label': b'DIMENSION', 'code': 18}],
         'objects': [{'name': (1, 0, b'DEPT'), 'comps': [{'values': [b'depth']}, {'values': [7]}, {'values': [b'm']}, {'values': [1]}]}]},
        {'type': b'FRAME', 'name': b'frs', 'lrtype': 4, 'template': [{'label': b'DESCRIPTION', 'code': 20}, {'label': b'CHANNELS', 'code': 23}],
         'objects': [{'name': (1, 0, b'FT'), 'comps': [{'values': [b'frame type']}, {'values': [(1, 0, b'DEPT')]}]}]},
        {'type': b'PATH', 'name': b'pth', 'lrtype': 4, 'template': [{'label': b'FRAME-TYPE', 'code': 23}, {'label': b'WELL-REFERENCE-POINT', 'code': 23}],
         'objects': [{'name': (1, 0, b'P1'), 'comps': [{'values': [(1, 0, b'FT')]}, {'values': [(2, 0, b'WR')]}]}]},
    ]


def gen_F(tier):
    ex = extra_sets()
    further = [[]] + [[e] for e in ex] + [[a, b] for a in ex for b in ex if a is not b]
    for nfiles in (1, 2):
        for f0 in further:
            for f1 in (further[:9] + further[-4:] if nfiles == 2 else [None]):
                base = [[FILE_HEADER, ORIGIN] + f0]
                if f1 is not None:
                    base.append([FILE_HEADER, ORIGIN] + f1)
                yield base, None
                total = sum(len(x) for x in base)
                for enc in ('ENC_EFLR', 'ENC_IFLR'):
                    for pos in range(total + 1):
                        files = [list(x) for x in base]
                        p = pos
                        for fl in files:
                            if p <= len(fl) and not (p == len(fl) and fl is not files[-1] and False):
                                fl.insert(p, enc)
                                break
                            p -= len(fl)
                        yield files, (enc, pos)


def shards(tier):
    out = [{'gen': 'D', 'code': c, 'part': p, 'of': 4} for c in CODES for p in range(4)]
    out += [{'gen': 'W', 'ncols': n, 'vcode': v} for n in (2, 3) for v in ([19] if tier == 'quick' else [19, 21, 24])]
    out += [{'gen': 'F', 'layout': lay, 'part': p, 'of': 12} for lay in ('one', 'split') for p in range(12)]
    return out


def jsonable(x):
    if isinstance(x, bytes):
        return {'b': x.hex()}
    if isinstance(x, dict):
        return {k: jsonable(v) for k, v in x.items()}
    if isinstance(x, (list, tuple)):
        return [jsonable(v) for v in x]
    return x


def unjson(x):
    if isinstance(x, dict):
        if set(x) == {'b'}:
            return bytes.fromhex(x['b'])
        return {k: unjson(v) for k, v in x.items()}
    if isinstance(x, list):
        return [unjson(v) for v in x]
    return x


def fix_types(files):
    """After JSON: object names and compound values back to tuples."""
    def tup(v):
        if isinstance(v, list):
            return tuple(tup(i) for i in v)
        return v
    for lf in files:
        for s in lf:
            if not isinstance(s, dict):
                continue
            for c in s['template']:
                if c.get('values') is not None:
                    c['values'] = [tup(v) for v in c['values']]
            for o in s['objects']:
                o['name'] = tup(o['name'])
                for comp in o['comps']:
                    if isinstance(comp, dict) and comp.get('values') is not None:
                        comp['values'] = [tup(v) for v in comp['values']]
    return files


def run_shard(shard, tier):
    res = Result()
    if shard['gen'] == 'F':
        for i, (files, ins) in enumerate(gen_F(tier)):
            if i % shard['of'] != shard['part']:
                continue
            bad, outcome = check_files(files, shard['layout'])
            # differential: inserting an encrypted record leaves the tables unchanged (expected side already excludes it)
            case = {'files': jsonable(files), 'layout': shard['layout']}
            res.case(h64(repr(case)), nontrivial=True, outcome=outcome, sample=case if i == 5 else None)
            res.count('shape_F')
            for sig, msg in bad:
                if ins is not None:
                    sig = dict(sig, encrypted_inserted=ins[0])
                res.violate(sig, case, msg)
        return res
    gen = gen_D(tier, shard['code']) if shard['gen'] == 'D' else gen_W(tier, shard['ncols'], shard['vcode'])
    if shard['gen'] == 'D' and shard['code'] in (16, 19, 2, 23, 5, 6):
        # (the modulo filter below spreads these over the shards of the code as well)
        gen = itertools.chain(gen_big_counts(shard['code']), gen)
    for i, s in enumerate(gen):
        if i % shard.get('of', 1) != shard.get('part', 0):
            continue
        files = [[FILE_HEADER, ORIGIN, s]]
        layout = 'split' if i % 5 == 4 else 'one'
        bad, outcome = check_files(files, layout)
        case = {'files': jsonable(files), 'layout': layout}
        trivial = (not s['objects']) and len(s['template']) == 1 and set(s['template'][0]) <= {'label', 'inv'}
        res.case(h64(repr(case)), nontrivial=not trivial, outcome=outcome, sample=case if i in (40, 41, 42, 43) and shard.get('code', 19) == 19 else None)
        res.count('shape_' + shard['gen'])
        for sig, msg in bad:
            res.violate(sig, case, msg)
    return res


def replay(case):
    files = fix_types(unjson(case['files']))
    bad, _ = check_files(files, case.get('layout', 'one'))
    return [{'sig': s, 'case': case, 'msg': m} for s, m in bad]
