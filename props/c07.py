"""C07 - Representation codes decode per the standards; encoders invert decoders.

Bounded exhaustive enumeration of words / byte strings / doubles through the real decoders and encoders
(pRepCode, freshly built cRepCode and cpRepCode, the RepCode dispatch, RP66V1 code_read and the *_len helpers,
ReadBIT.bytes_to_float / gen_floats) compared with the exact reference definitions in models/num_ref.py.
"""
import io
import itertools
import math
from fractions import Fraction

from mc.run import Result, h64

ID = 'C07'
LEVEL = 'exploration'
DESIGN_REF = 'DESIGN.md section 4, C07; section 2.4 num_ref; section 2.5 compiled code; section 5 F4, F5, F16'
ENGINE = 'E1 small-scope enumerator'
TECHNIQUE = 'exhaustive word / byte-string / double-pattern enumeration against exact (Fraction) reference codecs'
LEVEL_TEXT = ('every word of the stated covers (all 2^8, all 2^16, the 32 bit field cover, in the thorough tier all 2^32 '
              'for the listed decoders) and every byte string / double of the stated alphabets is pushed through the '
              'real decoders and encoders, rebuilt from the current sources, and compared with exact rational '
              'reference values; nothing is sampled')
LEVEL_NOTE = ('trusted: models/num_ref.py reads LIS-79 and RP66V1 appendix B correctly (tied to the worked examples '
              'quoted in the repository docstrings/tests); the numpy block references used for 2^32 sweeps are compared '
              'with the Fraction definitions on every block; decoders that stay at a field cover are not claimed for '
              'the words outside it')
SINGLE_OUTCOME_OK = False

S6 = [0x0000, 0x0001, 0x7FFF, 0x8000, 0xFFFF, 0x5555]


def _s_thorough():
    out = list(S6)
    out += [1 << k for k in range(1, 15)]
    out += [(1 << k) - 1 for k in range(2, 15)]
    out += [0xFFFF ^ ((1 << k) - 1) for k in range(1, 15)]
    out += [0xAAAA, 0x00FF, 0xFF00, 0x0F0F, 0xF0F0, 0x1234, 0xFEDC, 0x7FFE, 0x8001, 0xBFFF]
    seen, res = set(), []
    for v in out:
        if v not in seen:
            seen.add(v)
            res.append(v)
    return res


S_T = _s_thorough()

BOUNDS = {
    'quick': ('8 bit codes (LIS 56/66/77; SSHORT, USHORT, STATUS): all 2^8 words; 16 bit codes (LIS 49/79; SNORM, UNORM): all 2^16; '
              '32 bit codes (LIS 50, 68 x {p,c,cp}, 70, 73 each as pRepCode, cRepCode, RepCode.readBytes, RepCode.readRepCode on a '
              'real LIS FileRead; FSINGL, ISINGL, VSINGL, SLONG, ULONG through code_read; ReadBIT.bytes_to_float, gen_floats; to68 x '
              '{p,c,cp} re-encode, writeBytes/readBytes 68 and 73): field cover = high half all 2^16 x low half in '
              '{0000,0001,7FFF,8000,FFFF,5555} and vice versa = 786,396 distinct words; FDOUBL: sign x all 2^11 exponents x 54 '
              'mantissa patterns; variable length codes UVARI, ORIGIN, IDENT, UNITS, ASCII, OBNAME, OBJREF, DTIME: all 16105 byte '
              'strings of length <= 4 over {00,01,02,7F,80,BF,C0,FF,41,20} x {600 byte legal-character tail, no tail} x {start '
              'index 0, 3}; to68 doubles: sign x binary exponents -160..130 x 15 mantissa patterns + specials; '
              'writeBytes/readBytes 66 all 2^8'),
    'thorough': ('as quick with the 32 bit field cover widened to %d special half-words (%d distinct words) for every 32 bit decoder, '
                 'PLUS all 2^32 words for: pRepCode.from68, cRepCode.from68, cpRepCode.from68 (each against the exact reference, hence '
                 'with each other), cRepCode.to68 and cpRepCode.to68 re-encoding of every decoded word, cRepCode.from50 (signed word as '
                 'the library unpacks it), cRepCode.from70 (unsigned word; signed word for the negative half), pRepCode.from50 and '
                 'pRepCode.from70 (signed and, for the negative half, unsigned word), RP66V1 FSINGL, ISINGL, VSINGL (each 2^20 word block '
                 'read through one LogicalData, consumption checked) and ReadBIT.gen_floats (each block as one byte string). NOT run to '
                 '2^32 (they stay at the widened field cover): pRepCode.to68, from73, RepCode.readBytes/readRepCode, SLONG, ULONG, '
                 'bytes_to_float.  to68 doubles: sign x every binary exponent -1074..1023 x ~1600 mantissa '
                 'patterns (all single bits, bit pairs, low/high runs)' % (len(S_T), 2 * len(S_T) * 65536 - len(S_T) ** 2)),
}
RULE = ('each word / (code, byte string, tail, start index) / double pattern is enumerated once (generators produce distinct '
        'descriptors; the 32 bit covers and sweeps are counted, not stored); non-trivial = a word that is neither all zero nor all '
        'one bits, a non-empty byte string, a non-zero number; outcome = the tuple of values / exceptions the implementations returned')
ASSUMPTIONS = [
    'VSINGL follows RP66V1 B.6 as the standard words it, (0.5 + M) * 2**(E-128) with M = m/2**23 and the byte layout fixed by the '
    "standard's example 0C 44 00 80 = 153 (this is not the DEC F_floating scaling); S=1, E=0 is undefined and excluded",
    'words whose standard value is above the double range (code 50 with huge exponents) or is an IEEE infinity/NaN are outside the value '
    'oracle: only "raises nothing, consumes the right number of bytes" is checked; code 50 words whose value is below the double range '
    'must decode to one of the two doubles that bracket the value (any rounding)',
    'content the standard does not assign a value to (non-minimal UVARI, identifier / units / ASCII bytes outside the permitted '
    'character sets, DTIME fields out of range, STATUS > 1) may be refused with an ExceptionRepCode; if it is decoded only the number '
    'of bytes consumed is compared',
    'fromNN(word) of pRepCode/cRepCode is fed the word exactly as the module\'s own STRUCT_RC_NN unpacks it (signed for 49, 50, 56, 70, '
    '73, 79); for 49, 50, 70 the unsigned spelling used by the repository tests is fed as well',
    '"in range" for the 2^-22 bound means LIS68 minimum -2^127 <= v <= (1-2^-23)*2^127 and |v| >= 2^-129 (full 23 bit fraction); '
    'outside it only bit-for-bit agreement of the three encoders is required',
    'the compiled decoders are rebuilt from the current .pyx/.cpp sources into scratch (mc.seams.install_ext); the in-tree .so files are never imported',
]

ALPHABET = [0x00, 0x01, 0x02, 0x7F, 0x80, 0xBF, 0xC0, 0xFF, 0x41, 0x20, 0x25]      # the last three: 'A', blank, '%' (a format character)
VAR_CODES = ['UVARI', 'ORIGIN', 'IDENT', 'UNITS', 'ASCII', 'OBNAME', 'OBJREF', 'DTIME']
_LEGAL = b'ABCDEFGHIJKLMNOPQRSTUVWXYZ0123456789'
TAIL = bytes(_LEGAL[(i * 7 + 3) % len(_LEGAL)] for i in range(600))
DT_FILL = bytes([0x57, 0x14, 0x13, 0x15, 0x14, 0x0F, 0x02, 0x6C])   # the standard's DTIME example
PRE = b'\xC1\x8F\x05'
FIX_TAIL = b'\xA5\x5A\xC3'
BLOCK = 1 << 20
BLOCKS_PER_SHARD = 16

F_Q = [0, 1, 1 << 28, (1 << 29) - 1, 1 << 29, (1 << 29) + 1, (1 << 30) - 1, 1 << 30, (1 << 30) + 1, (1 << 52) - 1,
       0x5555555555555, 0xAAAAAAAAAAAAA, 1 << 51, (1 << 52) - (1 << 29), (1 << 52) - (1 << 30)]


def _f_patterns(tier):
    if tier == 'quick':
        return F_Q
    out = list(F_Q)
    for k in range(52):
        out += [1 << k, (1 << k) - 1, (1 << 52) - (1 << k), ((1 << k) + 1) & ((1 << 52) - 1)]
    for j in range(52):
        for k in range(j + 1, 52):
            out.append((1 << j) | (1 << k))
    seen, res = set(), []
    for v in out:
        if v not in seen:
            seen.add(v)
            res.append(v)
    return res


def _enc_range(tier):
    return (-160, 130) if tier == 'quick' else (-1074, 1023)


SPECIAL_NUMBERS = [0.0, -0.0, 1.0, -1.0, 153.0, -153.0, math.ldexp(1.0, 127), -math.ldexp(1.0, 127),
                   math.ldexp(1 - 2.0 ** -23, 127), -math.ldexp(1 - 2.0 ** -23, 127), math.ldexp(1 - 2.0 ** -24, 127),
                   math.ldexp(1 - 2.0 ** -53, 127), -math.ldexp(1 - 2.0 ** -53, 127), math.ldexp(1.0, -129), -math.ldexp(1.0, -129),
                   math.ldexp(1 - 2.0 ** -53, -129), math.ldexp(1.0, -151), -math.ldexp(1.0, -151), math.ldexp(1.0, -152),
                   math.ldexp(1.5, -151), 5e-324, -5e-324, 1.7976931348623157e308, -1.7976931348623157e308,
                   0, 1, -1, 2, 153, -153, (1 << 24) + 1, (1 << 31) - 1, -(1 << 31), 1 << 62]


# ----------------------------------------------------------------------------------------------------------
# context (per process, lazy)
# ----------------------------------------------------------------------------------------------------------
class _Ctx:
    pass


_CTX = None


def prepare(tier):
    """Parent process, before the pool forks: build the extensions once and self-test the reference model."""
    from mc import seams
    from models import num_ref
    seams.build_ext()
    num_ref.self_test()


def ctx():
    global _CTX
    if _CTX is not None:
        return _CTX
    import logging
    logging.disable(logging.WARNING)     # UNITS logs a warning per illegal character; to68 logs at debug level
    from mc import seams
    mods = seams.install_ext()
    from TotalDepth.LIS.core import RepCode, pRepCode, File, PhysRec
    from TotalDepth.RP66V1.core import RepCode as R66
    from TotalDepth.RP66V1.core.File import LogicalData
    from TotalDepth.BIT import ReadBIT
    from models import num_ref
    C = _Ctx()
    C.RepCode, C.p, C.c, C.cp = RepCode, pRepCode, mods['cRepCode'], mods['cpRepCode']
    C.File, C.PhysRec, C.R, C.LogicalData, C.BIT, C.nr = File, PhysRec, R66, LogicalData, ReadBIT, num_ref
    C.struct = {rc: getattr(RepCode, 'STRUCT_RC_%d' % rc) for rc in num_ref.LIS_SIZE}
    C.lis_from = {}
    for rc in num_ref.LIS_SIZE:
        C.lis_from[rc] = [('p', getattr(pRepCode, 'from%d' % rc)), ('c', getattr(C.c, 'from%d' % rc))]
    C.lis_from[68].append(('cp', C.cp.from68))
    C.to68 = [('p', pRepCode.to68), ('c', C.c.to68), ('cp', C.cp.to68)]
    C.dispatch = {'from68': 'cp' if RepCode.from68 is C.cp.from68 else ('c' if RepCode.from68 is C.c.from68 else 'p'),
                  'to68': 'cp' if RepCode.to68 is C.cp.to68 else ('c' if RepCode.to68 is C.c.to68 else 'p')}
    C.len_helper = {'UVARI': R66.UVARI_len, 'ORIGIN': R66.ORIGIN_len, 'IDENT': R66.IDENT_len, 'OBNAME': R66.OBNAME_len}
    _CTX = C
    return C


def _hx(w, size=4):
    return '0x%0*x' % (2 * size, w)


def _isnum(v):
    return isinstance(v, (int, float)) and not isinstance(v, bool)


# ----------------------------------------------------------------------------------------------------------
# LIS fixed length codes
# ----------------------------------------------------------------------------------------------------------
def _lis_value_sig(C, rc, impl, w, got, want):
    """Classify a wrong value.  Registered defect classes are recognised by their exact wrong formula only."""
    if rc == 50 and _isnum(got):
        m, e = C.nr.lis50_fields(w)
        if e < 0 and got == 0 and want != 0:
            return {'kind': 'from50_negative_exponent', 'impl': impl}
        if e >= 1024:
            try:
                masked = math.ldexp(m, (e & 0x3FF) - 15)
            except OverflowError:
                masked = None
            if masked is not None and got == masked:
                return {'kind': 'from50_exponent_masked_to_10_bits', 'impl': impl}
    return {'kind': 'decode_value', 'code': 'LIS%d' % rc, 'impl': impl}


def _lis_call(C, rc, impl, fn, args, w, want, bad, shown=None):
    size = C.nr.LIS_SIZE[rc]
    shown = repr(args) if shown is None else shown
    try:
        got = fn(*args)
    except Exception as err:  # noqa - the implementation raised on a bit pattern
        bad.append(({'kind': 'decode_raise', 'code': 'LIS%d' % rc, 'impl': impl, 'exc': type(err).__name__},
                    'LIS code %d word %s via %s%s raised %s: %s' % (rc, _hx(w, size), impl, shown, type(err).__name__, err)))
        return 'raise:' + type(err).__name__
    if want is None:
        return 'unspecified'
    if isinstance(want, tuple):
        if not _isnum(got) or not (want[1] <= got <= want[2]):
            bad.append((_lis_value_sig(C, rc, impl, w, got, want[1]),
                        'LIS code %d word %s via %s%s = %r, the standard defines a value between %r and %r'
                        % (rc, _hx(w, size), impl, shown, got, want[1], want[2])))
        return got
    if not _isnum(got) or got != want:
        bad.append((_lis_value_sig(C, rc, impl, w, got, want),
                    'LIS code %d word %s via %s%s = %r, the standard defines %r' % (rc, _hx(w, size), impl, shown, got, want)))
    return got


def _file_for(C, payload):
    PR = C.PhysRec
    by = io.BytesIO(PR.PR_PRH_LEN_FORMAT.pack(PR.PR_PRH_LENGTH + len(payload)) + PR.PR_PRH_ATTR_FORMAT.pack(0) + payload)
    return C.File.FileRead(theFile=by, theFileId='C07', keepGoing=True)


def _lis_want(C, rc, w):
    """The double the standard's value is exactly; None when it has none; for code 50 words whose value lies below the
    double range (exponent field near -32768) the pair ('between', lo, hi) of the two doubles that bracket it - any
    rounding of the standard's value is accepted, nothing else is."""
    if rc == 50:
        d = C.nr.lis50_double(w)
        if d is None:
            m, e = C.nr.lis50_fields(w)
            e -= 15
            if m != 0 and e < -1074:
                lo = m >> min(-1074 - e, 64)        # floor(m * 2**(e + 1074))
                return ('between', math.ldexp(lo, -1074), math.ldexp(lo + 1, -1074))
        return d
    exact = C.nr.LIS_DECODE[rc](w)
    return exact if isinstance(exact, int) else C.nr.as_double(exact)


def check_lis_file(C, rc, words, per_word_bad):
    """readRepCode(rc, file) on a real LIS FileRead holding `words` in one physical record: each read must give the
    standard's value, and after len(words) reads exactly all the bytes must have been consumed.
    per_word_bad(k) -> list to append (sig, msg) to for word k."""
    size = C.nr.LIS_SIZE[rc]
    outs = []
    step = 60000 // size
    for base in range(0, len(words), step):
        chunk = words[base:base + step]
        f = _file_for(C, b''.join(w.to_bytes(size, 'big') for w in chunk))
        for k, w in enumerate(chunk):
            outs.append(_lis_call(C, rc, 'RepCode.readRepCode', C.RepCode.readRepCode, (rc, f), w, _lis_want(C, rc, w),
                                  per_word_bad(base + k), shown='(%d, <FileRead>)' % rc))
        left = None
        try:
            if f.hasLd():
                left = 'data left after %d reads of %d bytes' % (len(chunk), size)
            else:
                try:
                    extra = C.RepCode.readRepCode(rc, f)
                    left = 'a further read returned %r instead of raising' % (extra,)
                except Exception:  # noqa - expected: nothing left
                    pass
        except Exception as err:  # noqa
            left = 'hasLd raised %s' % err
        if left:
            per_word_bad(base + len(chunk) - 1).append(({'kind': 'consumed', 'code': 'LIS%d' % rc, 'impl': 'RepCode.readRepCode'},
                                                        'LIS code %d through FileRead: %s' % (rc, left)))
    return outs


def check_lis_word(C, rc, w, bad, with_file=True):
    size = C.nr.LIS_SIZE[rc]
    b = w.to_bytes(size, 'big')
    want = _lis_want(C, rc, w)
    lw = C.struct[rc].unpack(b)[0]
    outs = []
    for impl, fn in C.lis_from[rc]:
        outs.append(_lis_call(C, rc, impl, fn, (lw,), w, want, bad))
        if lw != w and rc in (49, 50, 70) and impl != 'cp':
            outs.append(_lis_call(C, rc, impl + '/unsigned-word', fn, (w,), w, want, bad))
    outs.append(_lis_call(C, rc, 'RepCode.readBytes', C.RepCode.readBytes, (rc, b), w, want, bad))
    if with_file:
        outs += check_lis_file(C, rc, [w], lambda k: bad)
    return outs


# ----------------------------------------------------------------------------------------------------------
# RP66V1 fixed length codes and BIT
# ----------------------------------------------------------------------------------------------------------
def check_rp66_fixed(C, rc, w, bad):
    nr = C.nr
    size = nr.RP66_FIXED_SIZE[rc]
    name = nr.RP66_NAME[rc]
    data = w.to_bytes(size, 'big') + FIX_TAIL
    exact = nr.RP66_FIXED_DECODE[rc](w)
    conforming = exact is not None and (rc != 26 or w in (0, 1))
    want = exact if isinstance(exact, int) else nr.as_double(exact)
    ld = C.LogicalData(data)
    try:
        got = C.R.code_read(rc, ld)
    except Exception as err:  # noqa
        bad.append(({'kind': 'decode_raise', 'code': name, 'impl': 'RP66V1.code_read', 'exc': type(err).__name__},
                    '%s bytes %s raised %s: %s' % (name, data[:size].hex(), type(err).__name__, err)))
        return 'raise:' + type(err).__name__
    if ld.index != size:
        bad.append(({'kind': 'consumed', 'code': name, 'impl': 'RP66V1.code_read'},
                    '%s bytes %s consumed %d bytes, the standard says %d' % (name, data[:size].hex(), ld.index, size)))
    if conforming and want is not None and (not _isnum(got) or got != want):
        bad.append(({'kind': 'decode_value', 'code': name, 'impl': 'RP66V1.code_read'},
                    '%s bytes %s = %r, the standard defines %r' % (name, data[:size].hex(), got, want)))
    return got if conforming and want is not None else 'unspecified'


def check_bit(C, w, bad):
    nr = C.nr
    b = w.to_bytes(4, 'big')
    exact = nr.isingl(w)
    want = nr.as_double(exact)
    outs = []
    try:
        got = C.BIT.bytes_to_float(b)
        tailed = C.BIT.bytes_to_float(b + FIX_TAIL)        # the four bytes in front of other data: only they count
        if tailed != got and not (tailed != tailed and got != got):
            bad.append(({'kind': 'consumed', 'code': 'BIT', 'impl': 'ReadBIT.bytes_to_float'},
                        'bytes_to_float(%s + %d more bytes) = %r but bytes_to_float(%s) = %r: more than four bytes were used'
                        % (b.hex(), len(FIX_TAIL), tailed, b.hex(), got)))
        if not _isnum(got) or got != want:
            bad.append(({'kind': 'decode_value', 'code': 'BIT', 'impl': 'ReadBIT.bytes_to_float'},
                        'bytes_to_float(%s) = %r, IBM single value is %r' % (b.hex(), got, want)))
        outs.append(got)
    except Exception as err:  # noqa
        bad.append(({'kind': 'decode_raise', 'code': 'BIT', 'impl': 'ReadBIT.bytes_to_float', 'exc': type(err).__name__},
                    'bytes_to_float(%s) raised %s: %s' % (b.hex(), type(err).__name__, err)))
        outs.append('raise')
    try:
        gl = list(C.BIT.gen_floats(b))
        if len(gl) != 1:
            bad.append(({'kind': 'bit_gen_floats_count'}, 'gen_floats(%s) yielded %d values' % (b.hex(), len(gl))))
        else:
            outs.append(gl[0])
            sig = gen_floats_sig(C, exact, want, gl[0])
            if sig:
                bad.append((sig, 'gen_floats(%s) = %r, IBM single (= RP66V1 ISINGL) value is %r' % (b.hex(), gl[0], want)))
    except Exception as err:  # noqa
        bad.append(({'kind': 'decode_raise', 'code': 'BIT', 'impl': 'ReadBIT.gen_floats', 'exc': type(err).__name__},
                    'gen_floats(%s) raised %s: %s' % (b.hex(), type(err).__name__, err)))
        outs.append('raise')
    return outs


_F16_FACTOR = Fraction(1 << 24, (1 << 24) - 1)


def gen_floats_sig(C, exact, want, got):
    if _isnum(got) and got == want:
        return None
    if _isnum(got) and got == float(exact * _F16_FACTOR):
        return {'kind': 'bit_gen_floats_divisor_0xffffff'}    # exactly the factor 2^24/(2^24-1), nothing else
    return {'kind': 'bit_gen_floats_value'}


# ----------------------------------------------------------------------------------------------------------
# encoders
# ----------------------------------------------------------------------------------------------------------
def _to68_call(impl, fn, v, bad, what):
    try:
        ww = fn(v)
    except Exception as err:  # noqa
        bad.append(({'kind': 'to68_raise', 'impl': impl, 'exc': type(err).__name__}, 'to68(%s) via %s raised %s: %s' % (what, impl, type(err).__name__, err)))
        return None
    if isinstance(ww, bool) or not isinstance(ww, int) or not 0 <= ww < 1 << 32:
        bad.append(({'kind': 'to68_not_a_word', 'impl': impl}, 'to68(%s) via %s returned %r' % (what, impl, ww)))
        return None
    return ww


def _reencode_sig(w, ww, impl):
    if w == 0x80000000:
        return {'kind': 'to68_reencode', 'word': '0x80000000', 'got': _hx(ww), 'impl': impl}
    return {'kind': 'to68_reencode_other', 'impl': impl}


def check_to68_word(C, w, bad):
    """Encoding the decoded value of word w must give an equivalent word (one with the same standard value), the three
    encoders must agree, and writeBytes/readBytes(68) must round-trip."""
    nr = C.nr
    x = nr.lis68(w)
    v = nr.as_double(x)
    words = {}
    for impl, fn in C.to68:
        ww = _to68_call(impl, fn, v, bad, '%r = value of %s' % (v, _hx(w)))
        if ww is None:
            continue
        words[impl] = ww
        if nr.lis68(ww) != x:
            bad.append((_reencode_sig(w, ww, impl),
                        'to68(from68(%s) = %r) via %s = %s which decodes to %r' % (_hx(w), v, impl, _hx(ww), nr.as_double(nr.lis68(ww)))))
    if len(set(words.values())) > 1:
        bad.append(({'kind': 'to68_disagree'}, 'to68(%r) differs between implementations: %s'
                    % (v, ', '.join('%s=%s' % (k, _hx(x_)) for k, x_ in sorted(words.items())))))
    try:
        bts = C.RepCode.writeBytes(v, 68)
        if not isinstance(bts, (bytes, bytearray)) or len(bts) != 4:
            bad.append(({'kind': 'writeBytes_form', 'code': 'LIS68'}, 'writeBytes(%r, 68) = %r' % (v, bts)))
        else:
            ww = nr.word(bts)
            if nr.lis68(ww) != x:
                bad.append((_reencode_sig(w, ww, 'RepCode.writeBytes'), 'writeBytes(%r, 68) = %s which decodes to %r, not to the value written'
                            % (v, bts.hex(), nr.as_double(nr.lis68(ww)))))
            rb = C.RepCode.readBytes(68, bytes(bts))
            if not _isnum(rb) or rb != nr.as_double(nr.lis68(ww)):
                bad.append(({'kind': 'write_read_roundtrip', 'code': 'LIS68'}, 'readBytes(68, writeBytes(%r, 68)) = %r' % (v, rb)))
    except Exception as err:  # noqa
        bad.append(({'kind': 'writeBytes_raise', 'code': 'LIS68', 'exc': type(err).__name__}, 'writeBytes(%r, 68) raised %s: %s' % (v, type(err).__name__, err)))
    return tuple(sorted(words.items()))


def check_write_int(C, rc, v, bad):
    """writeBytes(v, rc) must be the standard's bytes and readBytes must give v back (integer codes of the dispatch table)."""
    size = C.nr.LIS_SIZE[rc]
    want = C.nr.int_encode(v, size, signed=rc in (73, 79, 56))
    try:
        bts = C.RepCode.writeBytes(v, rc)
        if bytes(bts) != want:
            bad.append(({'kind': 'writeBytes_value', 'code': 'LIS%d' % rc}, 'writeBytes(%r, %d) = %r, the standard says %s' % (v, rc, bts, want.hex())))
        rb = C.RepCode.readBytes(rc, bytes(bts))
        if rb != v:
            bad.append(({'kind': 'write_read_roundtrip', 'code': 'LIS%d' % rc}, 'readBytes(%d, writeBytes(%r, %d)) = %r' % (rc, v, rc, rb)))
        return bytes(bts)
    except Exception as err:  # noqa
        bad.append(({'kind': 'writeBytes_raise', 'code': 'LIS%d' % rc, 'exc': type(err).__name__}, 'writeBytes(%r, %d) raised %s: %s' % (v, rc, type(err).__name__, err)))
        return 'raise'


def check_to68_value(C, v, bad):
    """A number (float or int): the three encoders agree bit for bit; in range the decoded result is within one part in 2^22."""
    nr = C.nr
    exact = Fraction(v)
    in_range = nr.LIS68_MIN <= exact <= nr.LIS68_MAX
    normal = abs(exact) >= nr.LIS68_SMALLEST_NORMAL
    what = v.hex() if isinstance(v, float) else repr(v)
    words = {}
    for impl, fn in C.to68:
        ww = _to68_call(impl, fn, v, bad, what)
        if ww is None:
            continue
        words[impl] = ww
        dec = nr.lis68(ww)
        if exact == 0:
            if dec != 0:
                bad.append(({'kind': 'to68_zero', 'impl': impl}, 'to68(%s) via %s = %s which decodes to %r' % (what, impl, _hx(ww), nr.as_double(dec))))
        elif in_range and normal:
            if abs(dec - exact) * (1 << 22) >= abs(exact):
                if exact == nr.LIS68_MIN:
                    sig = {'kind': 'to68_minus_2pow127', 'impl': impl, 'got': _hx(ww)}
                else:
                    sig = {'kind': 'to68_relative_error', 'impl': impl}
                bad.append((sig, 'to68(%s = %r) via %s = %s which decodes to %r: relative error %.3g >= 2^-22'
                            % (what, v, impl, _hx(ww), nr.as_double(dec), float(abs(dec - exact) / abs(exact)))))
    if len(set(words.values())) > 1:
        bad.append(({'kind': 'to68_disagree'}, 'to68(%s) differs between implementations: %s'
                    % (what, ', '.join('%s=%s' % (k, _hx(x_)) for k, x_ in sorted(words.items())))))
    return tuple(sorted(words.items()))


# ----------------------------------------------------------------------------------------------------------
# variable length codes
# ----------------------------------------------------------------------------------------------------------
def _var_value(name, v):
    if name in ('UVARI', 'ORIGIN'):
        return v
    if name in ('IDENT', 'UNITS', 'ASCII'):
        return bytes(v)
    if name == 'OBNAME':
        return (v.O, v.C, bytes(v.I))
    if name == 'OBJREF':
        return (bytes(v.T), (v.N.O, v.N.C, bytes(v.N.I)))
    if name == 'DTIME':
        return (v.year, v.tz, v.month, v.day, v.hour, v.minute, v.second, v.millisecond)
    return v


def var_data(name, s, tail, offset, pos=0):
    if name == 'DTIME':
        body = DT_FILL[:pos] + s
        if tail:
            body += DT_FILL[len(body):] + TAIL
    else:
        body = s + (TAIL if tail else b'')
    return PRE[:offset] + body


def check_var(C, name, s, tail, offset, pos=0):
    """Returns (bad, outcome)."""
    nr = C.nr
    bad = []
    data = var_data(name, s, tail, offset, pos)
    ref = nr.decode(name, data, offset)
    rc = nr.RP66_CODE[name]
    ld = C.LogicalData(data)
    ld.seek(offset)
    desc = '%s on bytes %s%s starting at index %d' % (name, data[offset:offset + 12].hex(), '...' if len(data) > offset + 12 else '', offset)
    try:
        got = C.R.code_read(rc, ld)
        raised = None
    except Exception as err:  # noqa
        raised = err
    if ref.status == 'short':
        if raised is None:
            bad.append(({'kind': 'short_input_returned', 'code': name},
                        '%s (only %d bytes available, fewer than the value needs) returned %r instead of raising' % (desc, len(data) - offset, got)))
            return bad, (name, 'short', 'returned')
        return bad, (name, 'short', type(raised).__name__)
    if raised is not None:
        if ref.conforming or not isinstance(raised, C.R.ExceptionRepCode):
            bad.append(({'kind': 'decode_raise', 'code': name, 'impl': 'RP66V1.code_read', 'exc': type(raised).__name__},
                        '%s raised %s: %s (the standard consumes %d bytes)' % (desc, type(raised).__name__, raised, ref.consumed)))
        return bad, (name, 'raise', type(raised).__name__)
    consumed = ld.index - offset
    if consumed != ref.consumed:
        bad.append(({'kind': 'consumed', 'code': name, 'impl': 'RP66V1.code_read'}, '%s consumed %d bytes, the standard says %d' % (desc, consumed, ref.consumed)))
    val = None
    if ref.conforming:
        try:
            val = _var_value(name, got)
        except Exception as err:  # noqa
            val = 'unreadable result %r: %s' % (got, err)
        if val != ref.value:
            bad.append(({'kind': 'decode_value', 'code': name, 'impl': 'RP66V1.code_read'}, '%s = %r, the standard defines %r' % (desc, val, ref.value)))
        elif name in ('DTIME', 'OBNAME', 'OBJREF'):
            # the decoded object is the caller's: what the caller does to it does not show in a later decoding of the same bytes
            try:
                for attr in ('year', 'tz', 'hour', 'O', 'C', 'T'):
                    if hasattr(got, attr):
                        try:
                            setattr(got, attr, 77)
                        except Exception:  # noqa  (immutable results cannot be aliased)
                            pass
                ld2 = C.LogicalData(data)
                ld2.seek(offset)
                val2 = _var_value(name, C.R.code_read(rc, ld2))
            except Exception as err:  # noqa
                val2 = '%s: %s' % (type(err).__name__, err)
            if val2 != ref.value:
                bad.append(({'kind': 'decode_value_after_caller_changed_an_earlier_result', 'code': name},
                            '%s: decoded again after the caller changed the first result: %r, the standard defines %r' % (desc, val2, ref.value)))
    helper = C.len_helper.get(name)
    if helper is not None:
        try:
            hl = helper(data, offset)
        except Exception as err:  # noqa
            hl = 'raise %s' % type(err).__name__
        if hl != ref.consumed:
            bad.append(({'kind': 'len_helper', 'code': name}, '%s_len(bytes, %d) = %r but decoding consumes %d bytes (%s)' % (name, offset, hl, ref.consumed, desc)))
    return bad, (name, 'ok', consumed, repr(val))


# ----------------------------------------------------------------------------------------------------------
# size tables and too-short fixed length inputs
# ----------------------------------------------------------------------------------------------------------
def check_api(C):
    """Returns list of (key, bad, outcome)."""
    nr = C.nr
    out = []
    for rc, size in sorted(nr.LIS_SIZE.items()):
        bad = []
        try:
            got = C.RepCode.lisSize(rc)
        except Exception as err:  # noqa
            got = 'raise %s' % type(err).__name__
        if got != size:
            bad.append(({'kind': 'size_table', 'code': 'LIS%d' % rc}, 'lisSize(%d) = %r, the standard says %d' % (rc, got, size)))
        if C.struct[rc].size != size:
            bad.append(({'kind': 'size_table', 'code': 'LIS%d' % rc}, 'STRUCT_RC_%d.size = %d, the standard says %d' % (rc, C.struct[rc].size, size)))
        out.append((('lisSize', rc), bad, got))
        for k in range(size):
            for fill in (0x00, 0xFF):
                bad = []
                try:
                    r = C.RepCode.readBytes(rc, bytes([fill]) * k)
                    bad.append(({'kind': 'short_input_returned', 'code': 'LIS%d' % rc}, 'readBytes(%d, %d bytes) returned %r instead of raising' % (rc, k, r)))
                    oc = 'returned'
                except Exception as err:  # noqa
                    oc = type(err).__name__
                out.append((('lis_short', rc, k, fill), bad, oc))
    for rc, size in sorted(nr.RP66_FIXED_SIZE.items()):
        bad = []
        try:
            got = C.R.rep_code_fixed_length(rc)
        except Exception as err:  # noqa
            got = 'raise %s' % type(err).__name__
        if got != size or not C.R.is_fixed_length(rc):
            bad.append(({'kind': 'size_table', 'code': nr.RP66_NAME[rc]}, 'rep_code_fixed_length(%d) = %r, is_fixed_length = %r, the standard says %d'
                        % (rc, got, C.R.is_fixed_length(rc), size)))
        out.append((('rp66_size', rc), bad, got))
        for k in range(size):
            for fill in (0x00, 0xFF):
                bad = []
                ld = C.LogicalData(bytes([fill]) * k)
                try:
                    r = C.R.code_read(rc, ld)
                    bad.append(({'kind': 'short_input_returned', 'code': nr.RP66_NAME[rc]}, 'code_read(%d) on %d bytes returned %r instead of raising' % (rc, k, r)))
                    oc = 'returned'
                except Exception as err:  # noqa
                    oc = type(err).__name__
                out.append((('rp66_short', rc, k, fill), bad, oc))
    for name in ('UVARI', 'IDENT', 'ASCII', 'ORIGIN', 'OBNAME', 'OBJREF', 'UNITS'):
        rc = nr.RP66_CODE[name]
        bad = []
        fixed = C.R.is_fixed_length(rc)
        try:
            C.R.rep_code_fixed_length(rc)
            raised = False
        except C.R.ExceptionRepCode:
            raised = True
        if fixed or not raised:
            bad.append(({'kind': 'size_table', 'code': name}, '%s is variable length but is_fixed_length = %r, rep_code_fixed_length raised = %r' % (name, fixed, raised)))
        out.append((('rp66_var', rc), bad, (fixed, raised)))
    for name, helper in sorted(C.len_helper.items()):
        for data in (b'', b'\x01', b'\x81\x00'):
            bad = []
            try:
                r = helper(data, len(data))
            except Exception as err:  # noqa
                r = 'raise %s' % type(err).__name__
            if r != 0:
                bad.append(({'kind': 'len_helper', 'code': name}, '%s_len(%r, %d) = %r, documented to be 0 when the index is at the end' % (name, data, len(data), r)))
            out.append((('len_end', name, data.hex()), bad, r))
    return out


# ----------------------------------------------------------------------------------------------------------
# one word through everything of its width
# ----------------------------------------------------------------------------------------------------------
def check_w8(C, w, with_file=True):
    bad, outs = [], []
    for rc in (56, 66, 77):
        outs += check_lis_word(C, rc, w, bad, with_file)
    for rc in (12, 15, 26):
        outs.append(check_rp66_fixed(C, rc, w, bad))
    outs.append(check_write_int(C, 66, w, bad))
    return bad, tuple(map(repr, outs))


def check_w16(C, w, with_file=True):
    bad, outs = [], []
    for rc in (49, 79):
        outs += check_lis_word(C, rc, w, bad, with_file)
    for rc in (13, 16):
        outs.append(check_rp66_fixed(C, rc, w, bad))
    if 79 in C.RepCode.WRITE_BYTES_DESPATCH_MAP:
        outs.append(check_write_int(C, 79, C.nr.sint(w, 16), bad))
    return bad, tuple(map(repr, outs))


def check_w32(C, w, with_file=True):
    bad, outs = [], []
    for rc in (50, 68, 70, 73):
        outs += check_lis_word(C, rc, w, bad, with_file)
    for rc in (2, 5, 6, 14, 17):
        outs.append(check_rp66_fixed(C, rc, w, bad))
    outs += check_bit(C, w, bad)
    outs.append(check_to68_word(C, w, bad))
    outs.append(check_write_int(C, 73, C.nr.sint(w, 32), bad))
    return bad, tuple(map(repr, outs))


def check_w64(C, w):
    bad = []
    out = check_rp66_fixed(C, 7, w, bad)
    return bad, repr(out)


def _trivial_word(w, bits):
    return w == 0 or w == (1 << bits) - 1


# ----------------------------------------------------------------------------------------------------------
# shards
# ----------------------------------------------------------------------------------------------------------
def _cover_set(tier):
    return S6 if tier == 'quick' else S_T


def shards(tier):
    out = [{'leg': 'api'}, {'leg': 'w8'}]
    out += [{'leg': 'w16', 'hi': h} for h in range(16)]
    for name in VAR_CODES:
        out += [{'leg': 'var', 'code': name, 'first': f} for f in range(-1, len(ALPHABET))]
    e0, e1 = _enc_range(tier)
    step = 32 if tier == 'quick' else 8
    out.append({'leg': 'enc_special'})
    out += [{'leg': 'enc', 'e0': e, 'e1': min(e + step - 1, e1)} for e in range(e0, e1 + 1, step)]
    out += [{'leg': 'w32', 'part': 'A', 'c0': c} for c in range(0, 65536, 1024)]
    out += [{'leg': 'w32', 'part': 'B', 'c0': c} for c in range(0, 65536, 1024)]
    out += [{'leg': 'w64', 'e0': e} for e in range(0, 2048, 128)]
    if tier == 'thorough':
        nblocks = (1 << 32) // BLOCK
        out += [{'leg': 'sweep68', 'b0': b} for b in range(0, nblocks, BLOCKS_PER_SHARD)]
        out += [{'leg': 'sweep5070', 'b0': b} for b in range(0, nblocks, BLOCKS_PER_SHARD)]
        out += [{'leg': 'sweeppy', 'b0': b} for b in range(0, nblocks, BLOCKS_PER_SHARD)]
    return out


def _w32_words(shard, tier):
    S = _cover_set(tier)
    inS = set(S)
    c0 = shard['c0']
    if shard['part'] == 'A':
        return [(hi << 16) | lo for hi in range(c0, c0 + 1024) for lo in S]
    return [(hi << 16) | lo for lo in range(c0, c0 + 1024) if lo not in inS for hi in S]


def _fd_mantissas():
    out = [0, 1, 1 << 51, (1 << 52) - 1] + [1 << k for k in range(52)]
    seen, res = set(), []
    for v in out:
        if v not in seen:
            seen.add(v)
            res.append(v)
    return res


_SEEN = {}
_CANON = {}
# simplest-first witnesses tried when a 32 bit word class is first seen, so that every shard reports the same
# (smallest) case for a class and the output does not depend on which shard finishes first
W32_WITNESSES = [0x00000001, 0x00010000, 0x00010001, 0x80000000, 0x80000001, 0xFFFF4000, 0xFFFF0001, 0x04000001, 0x04004000,
                 0xFFFFFFFF, 0x7FFFFFFF, 0x444C8000, 0xBBB38000]


def _canon_w32(sig):
    k = tuple(sorted(sig.items()))
    if k not in _CANON:
        _CANON[k] = None
        C = ctx()
        for w in W32_WITNESSES:
            bad, _ = check_w32(C, w)
            hit = [m for s_, m in bad if s_ == sig]
            if hit:
                _CANON[k] = ({'leg': 'w32', 'word': w}, hit[0])
                break
    return _CANON[k]


def _violate(res, sig, case, msg):
    if case.get('leg') == 'w32':
        canon = _canon_w32(sig)
        if canon is not None:
            case, msg = canon
    res.violate(sig, case, msg)


def _emit(res, bad, case):
    seen = _SEEN.setdefault(id(res), set())
    for sig, msg in bad:
        k = tuple(sorted(sig.items()))
        if k in seen:                     # same class already recorded by this shard: count the instance only
            res.violation_count += 1
            continue
        seen.add(k)
        _violate(res, sig, case, msg)


def _file_leg(C, res, rcs, words, leg):
    """Batch readRepCode over a real FileRead for every word of the shard; violations carry the word's own case."""
    for rc in rcs:
        per = {}

        def per_word_bad(k, per=per):
            return per.setdefault(k, [])
        check_lis_file(C, rc, words, per_word_bad)
        res.count('file_reads', len(words))
        for k, bad in sorted(per.items()):
            _emit(res, bad, {'leg': leg, 'word': words[k]})


def run_shard(shard, tier):
    C = ctx()
    res = Result()
    _SEEN.clear()
    leg = shard['leg']
    if leg == 'api':
        for key, bad, oc in check_api(C):
            res.case(key, nontrivial=True, outcome=(key[0], repr(oc)))
            _emit(res, bad, {'leg': 'api'})
        res.count('dispatch_from68_is_' + C.dispatch['from68'])
        res.count('dispatch_to68_is_' + C.dispatch['to68'])
    elif leg == 'w8':
        words = list(range(256))
        for w in words:
            bad, oc = check_w8(C, w, with_file=False)
            case = {'leg': 'w8', 'word': w}
            res.case(('w8', w), nontrivial=not _trivial_word(w, 8), outcome=oc, sample=case if w == 0xA7 else None)
            _emit(res, bad, case)
        _file_leg(C, res, (56, 66, 77), words, 'w8')
    elif leg == 'w16':
        words = list(range(shard['hi'] << 12, (shard['hi'] + 1) << 12))
        for w in words:
            bad, oc = check_w16(C, w, with_file=False)
            case = {'leg': 'w16', 'word': w}
            res.case(('w16', w), nontrivial=not _trivial_word(w, 16), outcome=oc, sample=case if w == 0xB388 else None)
            _emit(res, bad, case)
        _file_leg(C, res, (49, 79), words, 'w16')
    elif leg == 'w32':
        words = _w32_words(shard, tier)
        for k, w in enumerate(words):
            bad, oc = check_w32(C, w, with_file=False)
            case = {'leg': 'w32', 'word': w}
            if k < 48:
                res.case(('w32', w), nontrivial=not _trivial_word(w, 32), outcome=oc, sample=case if w == 0xBBB38000 else None)
            else:
                res.evaluations += 1
                res.nontrivial_overflow += 0 if _trivial_word(w, 32) else 1
            _emit(res, bad, case)
        _file_leg(C, res, (50, 68, 70, 73), words, 'w32')
        # gen_floats over the concatenation must equal the word-by-word values (offset arithmetic)
        blob = b''.join(w.to_bytes(4, 'big') for w in words)
        try:
            whole = list(C.BIT.gen_floats(blob))
            single = [next(iter(C.BIT.gen_floats(blob[i:i + 4]))) for i in range(0, len(blob), 4)]
            if whole != single:
                k = next(i for i in range(min(len(whole), len(single))) if whole[i] != single[i]) if len(whole) == len(single) else 0
                res.violate({'kind': 'bit_gen_floats_sequence'}, {'leg': 'w32', 'word': words[k]},
                            'gen_floats over %d concatenated words differs from word-by-word decoding at word %d' % (len(words), k))
        except Exception as err:  # noqa
            res.violate({'kind': 'decode_raise', 'code': 'BIT', 'impl': 'ReadBIT.gen_floats', 'exc': type(err).__name__},
                        {'leg': 'w32', 'word': words[0]}, 'gen_floats over concatenated words raised %s: %s' % (type(err).__name__, err))
        res.count('w32_words', len(words))
    elif leg == 'w64':
        for e in range(shard['e0'], shard['e0'] + 128):
            for s in (0, 1):
                for m in _fd_mantissas():
                    w = (s << 63) | (e << 52) | m
                    bad, oc = check_w64(C, w)
                    case = {'leg': 'w64', 'word': w}
                    res.case(('w64', w), nontrivial=not _trivial_word(w, 64), outcome=oc, sample=case if (s, e, m) == (1, 1030, 1 << 51) else None)
                    _emit(res, bad, case)
    elif leg == 'var':
        name = shard['code']
        if shard['first'] < 0:
            strings = [b'']
        else:
            f = ALPHABET[shard['first']]
            strings = [bytes((f,) + rest) for n in range(0, 4) for rest in itertools.product(ALPHABET, repeat=n)]
        for s in strings:
            for pos in ((0, 4) if name == 'DTIME' else (0,)):
                for tail in (True, False):
                    for offset in (0, 3):
                        bad, oc = check_var(C, name, s, tail, offset, pos)
                        case = {'leg': 'var', 'code': name, 'hex': s.hex(), 'tail': tail, 'offset': offset, 'pos': pos}
                        res.case(('var', name, s, tail, offset, pos), nontrivial=len(s) > 0, outcome=oc,
                                 sample=case if s == b'\x80\x80' and tail and offset == 0 else None)
                        _emit(res, bad, case)
    elif leg == 'enc_special':
        for v in SPECIAL_NUMBERS:
            bad = []
            oc = check_to68_value(C, v, bad)
            case = {'leg': 'enc', 'value': v.hex() if isinstance(v, float) else v}
            res.case(('enc', repr(v)), nontrivial=v != 0, outcome=oc, sample=case if v == -153.0 else None)
            _emit(res, bad, case)
    elif leg == 'enc':
        pats = _f_patterns(tier)
        store = tier == 'quick'
        for e in range(shard['e0'], shard['e1'] + 1):
            for sgn in (1.0, -1.0):
                for f in pats:
                    v = sgn * math.ldexp(float((1 << 52) + f), e - 52)
                    bad = []
                    oc = check_to68_value(C, v, bad)
                    case = {'leg': 'enc', 'value': v.hex()}
                    if store or f < 2:
                        res.case(('enc', sgn, e, f), nontrivial=v != 0, outcome=oc)
                    else:
                        res.evaluations += 1
                        res.nontrivial_overflow += 1 if v != 0 else 0
                    _emit(res, bad, case)
    elif leg == 'sweep68':
        import numpy as np
        for b in range(shard['b0'], shard['b0'] + BLOCKS_PER_SHARD):
            sweep68_block(C, np, b * BLOCK, BLOCK, res)
    elif leg == 'sweep5070':
        import numpy as np
        for b in range(shard['b0'], shard['b0'] + BLOCKS_PER_SHARD):
            sweep5070_block(C, np, b * BLOCK, BLOCK, res)
    elif leg == 'sweeppy':
        import numpy as np
        for b in range(shard['b0'], shard['b0'] + BLOCKS_PER_SHARD):
            sweep_py_block(C, np, b * BLOCK, BLOCK, res)
    else:
        raise ValueError(shard)
    return res


# ----------------------------------------------------------------------------------------------------------
# 2^32 sweeps (thorough)
# ----------------------------------------------------------------------------------------------------------
def _bulk_cases(res, w0, n, name):
    res.evaluations += n
    res.nontrivial_overflow += n - (1 if w0 == 0 else 0) - (1 if w0 + n == 1 << 32 else 0)
    res.count(name + '_words', n)


def _decode_block(np, fn, args, n):
    """Run fn over the n arguments; returns (float64 array, {exception name: [count, first index]}).
    Fast path np.fromiter; on any exception fall back to a word-by-word loop that records who raised."""
    try:
        return np.fromiter(map(fn, args), dtype=np.float64, count=n), {}
    except Exception:  # noqa
        pass
    out = np.empty(n, dtype=np.float64)
    errs = {}
    for k, a in enumerate(args):
        try:
            r = fn(a)
            if not _isnum(r):
                raise TypeError('returned %r' % (r,))
            out[k] = r
        except Exception as err:  # noqa
            out[k] = np.nan
            ent = errs.setdefault(type(err).__name__, [0, k])
            ent[0] += 1
    return out, errs


def _report_class(res, sig, case, msg, count):
    _violate(res, sig, case, msg)
    res.violation_count += count - 1


def _report_raises(res, errs, code, impl, w0, form):
    for exc, (count, k) in sorted(errs.items()):
        _report_class(res, {'kind': 'decode_raise', 'code': code, 'impl': impl, 'exc': exc}, {'leg': 'w32', 'word': w0 + k},
                      '%s word %s (%s) via %s raised %s; %d words of this block do' % (code, _hx(w0 + k), form, impl, exc, count), count)


def sweep68_block(C, np, w0, n, res):
    nr = C.nr
    ref = nr.lis68_block(w0, n)
    for k in (0, 1, n // 2, n - 1):      # tie the block reference to the exact definition (harness self-check)
        if nr.as_double(nr.lis68(w0 + k)) != ref[k]:
            raise AssertionError('lis68_block disagrees with lis68 at %s' % _hx(w0 + k))
    rng = range(w0, w0 + n)
    first = []
    for impl, fn in C.lis_from[68]:
        arr, errs = _decode_block(np, fn, rng, n)
        _report_raises(res, errs, 'LIS68', impl, w0, 'unsigned')
        mism = np.flatnonzero((arr != ref) & ~np.isnan(arr))
        if mism.size:
            k = int(mism[0])
            _report_class(res, {'kind': 'decode_value', 'code': 'LIS68', 'impl': impl}, {'leg': 'w32', 'word': w0 + k},
                          'LIS code 68 word %s via %s = %r, the standard defines %r; %d words of block %s do not match'
                          % (_hx(w0 + k), impl, float(arr[k]), float(ref[k]), mism.size, _hx(w0)), int(mism.size))
        first.append(float(arr[0]))
    # encoders (compiled ones): re-encode every decoded value
    vals = ref.tolist()
    enc = {}
    for impl, fn in C.to68:
        if impl == 'p':
            continue
        try:
            enc[impl] = np.fromiter(map(fn, vals), dtype=np.int64, count=n)
        except Exception:  # noqa
            enc[impl] = None
    for impl, arr in sorted(enc.items()):
        if arr is None or ((arr < 0) | (arr >= 1 << 32)).any():
            # word by word through the scalar oracle (raises / non-words are classified there)
            for w in rng:
                bad = []
                check_to68_word(C, w, bad)
                _emit(res, [b for b in bad if b[0].get('impl') == impl], {'leg': 'w32', 'word': w})
            continue
        dec = nr.lis68_array(arr.astype(np.uint32))
        mism = np.flatnonzero(dec != ref)
        for k in mism[:8].tolist():
            w, ww = w0 + k, int(arr[k])
            _violate(res, _reencode_sig(w, ww, impl), {'leg': 'w32', 'word': w},
                        'to68(from68(%s) = %r) via %s = %s which decodes to %r' % (_hx(w), vals[k], impl, _hx(ww), float(dec[k])))
        res.violation_count += max(0, int(mism.size) - 8)
    if enc.get('c') is not None and enc.get('cp') is not None:
        diff = np.flatnonzero(enc['c'] != enc['cp'])
        if diff.size:
            k = int(diff[0])
            _report_class(res, {'kind': 'to68_disagree'}, {'leg': 'w32', 'word': w0 + k},
                          'to68(%r) differs: c=%s cp=%s; %d values of block %s' % (vals[k], _hx(int(enc['c'][k])), _hx(int(enc['cp'][k])), diff.size, _hx(w0)),
                          int(diff.size))
    res.outcomes.add(h64(('sweep68', w0, tuple(first))))
    _bulk_cases(res, w0, n, 'sweep68')


def _sweep50(C, np, impl, fn, rng, form, words, w0, n, res):
    """One block of code 50 words through one decoder (rng: the arguments, signed or unsigned words)."""
    nr = C.nr
    # --- code 50, Cython, signed word as STRUCT_RC_50 unpacks it
    ref, valid = nr.lis50_array(words)
    for k in (0, n // 3, n - 1):
        d = nr.as_double(nr.lis50(w0 + k))
        if (d is not None) != bool(valid[k]) or (d is not None and d != ref[k]):
            raise AssertionError('lis50_array disagrees with lis50 at %s' % _hx(w0 + k))
    arr, errs = _decode_block(np, fn, rng, n)
    _report_raises(res, errs, 'LIS50', impl, w0, form)
    wi = words.astype(np.int64)
    e50 = (wi >> 16) & 0xFFFF
    e50 = np.where(e50 >= 0x8000, e50 - 0x10000, e50) - 15
    m50 = wi & 0xFFFF
    m50 = np.where(m50 >= 0x8000, m50 - 0x10000, m50)
    under = ~valid & (m50 != 0) & (e50 < -1074)
    if under.any():
        # values below the double range: the result must be one of the two doubles that bracket the standard's value
        lo = m50 >> np.minimum(-1074 - e50, 63)
        tiny = 2.0 ** -1074
        out = under & ~np.isnan(arr) & ~((arr >= lo * tiny) & (arr <= (lo + 1) * tiny))
        idx = np.flatnonzero(out)
        if idx.size:
            k = int(idx[0])
            _report_class(res, {'kind': 'decode_value', 'code': 'LIS50', 'impl': impl}, {'leg': 'w32', 'word': w0 + k},
                          'LIS code 50 word %s via %s(%d) = %r, the standard defines a value between %r and %r; %d words of block %s in this class'
                          % (_hx(w0 + k), impl, rng[k], float(arr[k]), float(lo[k] * tiny), float((lo[k] + 1) * tiny), idx.size, _hx(w0)), int(idx.size))
    mism = valid & (arr != ref) & ~np.isnan(arr)
    if mism.any():
        e = (wi >> 16) & 0xFFFF
        e = np.where(e >= 0x8000, e - 0x10000, e)
        m = wi & 0xFFFF
        m = np.where(m >= 0x8000, m - 0x10000, m)
        f4 = mism & (e < 0) & (arr == 0)
        with np.errstate(over='ignore'):
            masked = np.ldexp(m.astype(np.float64), ((e & 0x3FF) - 15).astype(np.int32))
        hi = mism & (e >= 1024) & (arr == masked) & ~f4
        other = mism & ~f4 & ~hi
        for cls, sig in ((f4, {'kind': 'from50_negative_exponent', 'impl': impl}), (hi, {'kind': 'from50_exponent_masked_to_10_bits', 'impl': impl}),
                         (other, {'kind': 'decode_value', 'code': 'LIS50', 'impl': impl})):
            idx = np.flatnonzero(cls)
            if idx.size:
                k = int(idx[0])
                _report_class(res, sig, {'leg': 'w32', 'word': w0 + k},
                              'LIS code 50 word %s via %s(%d) = %r, the standard defines %r; %d words of block %s in this class'
                              % (_hx(w0 + k), impl, rng[k], float(arr[k]), float(ref[k]), idx.size, _hx(w0)), int(idx.size))
    return float(arr[0])


def sweep5070_block(C, np, w0, n, res):
    nr = C.nr
    words = np.arange(w0, w0 + n, dtype=np.uint32)
    signed0 = w0 - (1 << 32) if w0 >= 1 << 31 else w0
    srng = range(signed0, signed0 + n)
    first = [_sweep50(C, np, 'c', C.c.from50, srng, 'signed', words, w0, n, res)]
    # --- code 70, Cython, unsigned word; and the signed word for the negative half
    ref70 = nr.lis70_array(words)
    for k in (0, n // 3, n - 1):
        if nr.as_double(nr.lis70(w0 + k)) != ref70[k]:
            raise AssertionError('lis70_array disagrees with lis70 at %s' % _hx(w0 + k))
    forms = [('c/unsigned-word' if w0 >= 1 << 31 else 'c', range(w0, w0 + n), 'unsigned')]
    if w0 >= 1 << 31:
        forms.append(('c', srng, 'signed'))
    for impl, rng, form in forms:
        arr, errs = _decode_block(np, C.c.from70, rng, n)
        _report_raises(res, errs, 'LIS70', impl, w0, form)
        idx = np.flatnonzero((arr != ref70) & ~np.isnan(arr))
        if idx.size:
            k = int(idx[0])
            _report_class(res, {'kind': 'decode_value', 'code': 'LIS70', 'impl': impl}, {'leg': 'w32', 'word': w0 + k},
                          'LIS code 70 word %s via %s(%d) = %r, the standard defines %r; %d words of block %s'
                          % (_hx(w0 + k), impl, rng[k], float(arr[k]), float(ref70[k]), idx.size, _hx(w0)), int(idx.size))
        first.append(float(arr[0]))
    res.outcomes.add(h64(('sweep5070', w0, tuple(map(repr, first)))))
    _bulk_cases(res, w0, n, 'sweep5070')


def sweep_py_block(C, np, w0, n, res):
    """All words of the block through the pure Python LIS decoders and the RP66V1 / BIT decoders (the latter reading the
    block as one LogicalData / byte string, as the library does for a frame)."""
    nr = C.nr
    words = np.arange(w0, w0 + n, dtype=np.uint32)
    signed0 = w0 - (1 << 32) if w0 >= 1 << 31 else w0
    srng = range(signed0, signed0 + n)
    first = [_sweep50(C, np, 'p', C.p.from50, srng, 'signed', words, w0, n, res)]
    if w0 >= 1 << 31:
        first.append(_sweep50(C, np, 'p/unsigned-word', C.p.from50, range(w0, w0 + n), 'unsigned', words, w0, n, res))
    ref70 = nr.lis70_array(words)
    forms = [('p/unsigned-word' if w0 >= 1 << 31 else 'p', range(w0, w0 + n), 'unsigned')]
    if w0 >= 1 << 31:
        forms.append(('p', srng, 'signed'))
    for impl, rng, form in forms:
        arr, errs = _decode_block(np, C.p.from70, rng, n)
        _report_raises(res, errs, 'LIS70', impl, w0, form)
        idx = np.flatnonzero((arr != ref70) & ~np.isnan(arr))
        if idx.size:
            k = int(idx[0])
            _report_class(res, {'kind': 'decode_value', 'code': 'LIS70', 'impl': impl}, {'leg': 'w32', 'word': w0 + k},
                          'LIS code 70 word %s via %s(%d) = %r, the standard defines %r; %d words of block %s'
                          % (_hx(w0 + k), impl, rng[k], float(arr[k]), float(ref70[k]), idx.size, _hx(w0)), int(idx.size))
        first.append(float(arr[0]))
    blob = words.astype('>u4').tobytes()
    ones = np.ones(n, dtype=bool)
    refs = {'FSINGL': nr.fsingl_array(words), 'ISINGL': (nr.isingl_array(words), ones), 'VSINGL': nr.vsingl_array(words),
            'SLONG': (words.view(np.int32).astype(np.float64), ones), 'ULONG': (words.astype(np.float64), ones)}
    scalar = {'FSINGL': nr.fsingl, 'ISINGL': nr.isingl, 'VSINGL': nr.vsingl, 'SLONG': nr.slong, 'ULONG': nr.ulong}
    for name in ('FSINGL', 'ISINGL', 'VSINGL'):
        ref, valid = refs[name]
        for k in (0, n // 3, n - 1):
            d = nr.as_double(scalar[name](w0 + k))
            if (d is not None and bool(valid[k]) and d != ref[k]) or (d is None and bool(valid[k])):
                raise AssertionError('%s array reference disagrees with the scalar one at %s' % (name, _hx(w0 + k)))
        fn = getattr(C.R, name)
        ld = C.LogicalData(blob)
        try:
            arr = np.fromiter((fn(ld) for _ in range(n)), dtype=np.float64, count=n)
            errs = {}
            if ld.index != 4 * n:
                _violate(res, {'kind': 'consumed', 'code': name, 'impl': 'RP66V1.' + name}, {'leg': 'w32', 'word': w0},
                         '%s read %d times from the block at %s consumed %d bytes, the standard says %d' % (name, n, _hx(w0), ld.index, 4 * n))
        except Exception:  # noqa - find who raised, word by word
            arr, errs = _decode_block(np, lambda k: fn(C.LogicalData(blob[4 * k:4 * k + 4])), range(n), n)
        _report_raises(res, errs, name, 'RP66V1.' + name, w0, 'bytes')
        idx = np.flatnonzero(valid & (arr != ref) & ~np.isnan(arr))
        if idx.size:
            k = int(idx[0])
            _report_class(res, {'kind': 'decode_value', 'code': name, 'impl': 'RP66V1.code_read'}, {'leg': 'w32', 'word': w0 + k},
                          '%s bytes %s = %r, the standard defines %r; %d words of block %s'
                          % (name, _hx(w0 + k), float(arr[k]), float(ref[k]), idx.size, _hx(w0)), int(idx.size))
        first.append(float(arr[0]))
    # BIT: the whole block as one channel of IBM singles
    ref = refs['ISINGL'][0]
    try:
        arr = np.fromiter(C.BIT.gen_floats(blob), dtype=np.float64)
    except Exception as err:  # noqa
        arr = None
        _violate(res, {'kind': 'decode_raise', 'code': 'BIT', 'impl': 'ReadBIT.gen_floats', 'exc': type(err).__name__}, {'leg': 'w32', 'word': w0},
                 'gen_floats over the block at %s raised %s: %s' % (_hx(w0), type(err).__name__, err))
    if arr is not None:
        if arr.size != n:
            _violate(res, {'kind': 'bit_gen_floats_count'}, {'leg': 'w32', 'word': w0}, 'gen_floats over %d words yielded %d values' % (n, arr.size))
        else:
            mism = arr != ref
            if mism.any():
                # the registered defect F16 is recognised by its exact value only: m / (2**24 - 1) scaled by the power of 16
                wi = words.astype(np.int64)
                mant = (wi & 0xFFFFFF).astype(np.float64) / float((1 << 24) - 1)
                f16ref = np.ldexp(mant, (4 * (((wi >> 24) & 0x7F) - 64)).astype(np.int32))
                f16ref = np.where((wi >> 31) & 1 == 1, -f16ref, f16ref)
                f16 = mism & (arr == f16ref)
                for cls, sig in ((f16, {'kind': 'bit_gen_floats_divisor_0xffffff'}), (mism & ~f16, {'kind': 'bit_gen_floats_value'})):
                    idx = np.flatnonzero(cls)
                    if idx.size:
                        k = int(idx[0])
                        _report_class(res, sig, {'leg': 'w32', 'word': w0 + k},
                                      'gen_floats word %s = %r, IBM single value is %r; %d words of block %s in this class'
                                      % (_hx(w0 + k), float(arr[k]), float(ref[k]), idx.size, _hx(w0)), int(idx.size))
            first.append(float(arr[0]))
    res.outcomes.add(h64(('sweeppy', w0, tuple(map(repr, first)))))
    _bulk_cases(res, w0, n, 'sweeppy')


# ----------------------------------------------------------------------------------------------------------
def replay(case):
    C = ctx()
    leg = case['leg']
    if leg == 'w8':
        bad, _ = check_w8(C, case['word'])
    elif leg == 'w16':
        bad, _ = check_w16(C, case['word'])
    elif leg == 'w32':
        bad, _ = check_w32(C, case['word'])
    elif leg == 'w64':
        bad, _ = check_w64(C, case['word'])
    elif leg == 'var':
        bad, _ = check_var(C, case['code'], bytes.fromhex(case['hex']), case['tail'], case['offset'], case.get('pos', 0))
    elif leg == 'enc':
        v = case['value']
        v = float.fromhex(v) if isinstance(v, str) else v
        bad = []
        check_to68_value(C, v, bad)
    elif leg == 'api':
        bad = [b for _, bb, _ in check_api(C) for b in bb]
    else:
        raise ValueError(case)
    return [{'sig': sig, 'case': case, 'msg': msg} for sig, msg in bad]
