"""C13 - Western Atlas BIT log passes decode to the recorded numbers.  Exhaustive small-scope enumeration.

Every case is a *content model* (models/bit_ref.py: passes, channel names, start/stop/spacing, block sizes and the
32 bit IBM words of every channel) turned into file bytes by the independent producer, read by the real
ReadBIT.create_bit_frame_array_from_file and compared value by value with the exact (fractions.Fraction) reading of
the recorded words.
"""
import functools
import io
import itertools
import math
import os
from fractions import Fraction

from mc.run import Result, h64
from models import bit_ref

ID = 'C13'
LEVEL = 'exploration'
ENGINE = 'E1 small-scope enumerator'
TECHNIQUE = 'bounded exhaustive enumeration of file content models against an exact rational IBM-float reference'
DESIGN_REF = 'DESIGN.md section 4, C13; section 5, F16'
SINGLE_OUTCOME_OK = False
LEVEL_TEXT = ('exploration, exhaustive within the bounds: every combination of pass count, channel count, frame count, '
              'frames per block (with a short last block), start/stop/spacing triple in the stated alphabets is produced '
              'as a real file and read by the real reader; every word of the 32-bit field cover goes through the data block '
              'path.  A defect in de-interleaving, marker walking, header offsets, the X axis or the float conversion that '
              'shows on any file within these bounds is found; nothing is claimed beyond them')
LEVEL_NOTE = ('trusted: the reference producer (validated byte-for-byte against the one real file in the repository: '
              'produce(dissect(file)) == file) and the layout notes in ReadBIT.py that it was written from; files with '
              'zero channels, damaged markers, duplicate channel names or a channel called "X   " are outside the statement')
BOUNDS = {
    'quick': 'layout: 1 pass x channels {1,2,3,20} x frames 0..5 x frames/block {1,2,3} x (start,stop,spacing) in '
             '{100,97,0.5,0.25}^3 (3840 files); 2 passes x (channels,frames,frames/block)^2 x 4 start/stop/spacing pairs '
             '(14400 files); values position coded, exactly representable.  cover: every 32 bit word hi16 x lo16 with one '
             'half ranging over all 2^16 and the other over {0,1,0x7FFF,0x8000,0xFFFF,0x5555} (786k words) as frame data in '
             'files of 6 layouts.  big blocks: channels {1,10,20} x frames {16,17,33,40} x frames/block {8,16,17,32} x 2 '
             'directions (both tiers); 27 three-pass and 81 four-pass files.  The repository example file (2 passes, 1472+1440 frames x 10 channels)',
    'thorough': 'layout: 1 pass x channels {1,2,3,4,19,20} x frames 0..7 x frames/block {1,2,3,4} x '
                '{100,97,0.5,0.25,1000.125}^3; 2 passes x (6 x 7 x 4)^2 x 4 pairs; 27 three-pass, 81 four-pass and 32 five-pass files; cover with %d '
                'boundary patterns for the fixed half (all single bits, low and high masks; %.1fM words); example file',
}
RULE = ('full product of the layout alphabets, each file produced once; cover words each placed once; non-trivial = more '
        'than one channel or more than one block (layout) / always (cover: distinct words); outcome = hash of the names '
        'and array bytes the reader returned')
ASSUMPTIONS = [
    'channel names in a header are distinct and none is "X   " (the reader names its computed axis so); names are compared '
    'ignoring trailing blanks',
    'when start == stop the header gives no direction: only X[0] and |X[i]-X[0]| = i*spacing are compared',
    'X is compared with a tolerance of 4 ulp (every enumerated start/spacing is dyadic so any summation order is exact)',
    'the frame count implied by (stop-start)/spacing is not compared with the recorded count (the real file disagrees too)',
]

F16_KIND = 'bit_gen_floats_divisor_0xffffff'
F16_FACTOR = Fraction(1 << 24, (1 << 24) - 1)

EXAMPLE_REL = 'example_data/BIT/data/29_10-_3Z_dwl_DWL_WIRE_1644659.bit'

NAMES20 = ['COND', 'SN  ', 'SP  ', 'GR  ', 'CAL ', 'TEN ', 'SPD ', 'ACQ ', 'AC  ', 'RT  ',
           'CH11', 'CH12', 'CH13', 'CH14', 'CH15', 'CH16', 'CH17', 'CH18', 'CH19', 'CH20']

COVER_LAYOUTS = [(1, 5, 2), (2, 5, 3), (3, 5, 1), (20, 5, 3), (3, 4, 3), (20, 3, 2)]   # channels, frames, frames/block
COVER_FIXED_Q = [0x0000, 0x0001, 0x7FFF, 0x8000, 0xFFFF, 0x5555]
_T_EXTRA = ([1 << k for k in range(16)] + [(1 << k) - 1 for k in range(1, 17)] + [0xFFFF ^ ((1 << k) - 1) for k in range(1, 16)]
            + [0xAAAA, 0x1234, 0xFFFE, 0x7FFE, 0x8001, 0xBFFF, 0x4100, 0x4110, 0xC276, 0xA000, 0x3D68, 0xDB8B, 0x7F00,
               0x00F0, 0x0F00, 0x0FF0, 0x4040, 0x443A, 0x6600, 0x0010, 0x0011])
COVER_FIXED_T = COVER_FIXED_Q + [v for i, v in enumerate(_T_EXTRA) if v not in COVER_FIXED_Q and v not in _T_EXTRA[:i]]
BOUNDS['thorough'] = BOUNDS['thorough'] % (len(COVER_FIXED_T), 2 * 65536 * len(COVER_FIXED_T) / 1e6)
COVER_RANGE = 512


def _tier(tier):
    if tier == 'quick':
        return {'channels': [1, 2, 3, 20], 'frames': [0, 1, 2, 3, 4, 5], 'fpb': [1, 2, 3],
                'xvals': [100, 97, 0.5, 0.25], 'fixed': COVER_FIXED_Q, 'three': True}
    return {'channels': [1, 2, 3, 4, 19, 20], 'frames': [0, 1, 2, 3, 4, 5, 6, 7], 'fpb': [1, 2, 3, 4],
            'xvals': [100, 97, 0.5, 0.25, 1000.125], 'fixed': COVER_FIXED_T, 'three': True}


BIG_CHANNELS = [1, 10, 20]      # blocks as large as in real files (16 frames) and a little beyond
BIG_FRAMES = [16, 17, 33, 40]
BIG_FPB = [8, 16, 17, 32]

X_PAIRS = [((100, 97, 0.5), (97, 100, 0.25)), ((97, 100, 0.25), (100, 97, 0.5)),
           ((100, 97, 0.5), (100, 97, 0.5)), ((0.25, 0.5, 0.25), (100, 0.5, 97))]


def shards(tier):
    t = _tier(tier)
    out = []
    for c in t['channels']:
        for f in t['frames']:
            out.append({'kind': 'one', 'c': c, 'f': f})
    for c1 in t['channels']:
        for f1 in t['frames']:
            for c2 in t['channels']:
                out.append({'kind': 'two', 'c1': c1, 'f1': f1, 'c2': c2})
    if t['three']:
        out.append({'kind': 'three', 'n': 3})
        out.append({'kind': 'three', 'n': 4})
        if tier != 'quick':
            out.append({'kind': 'three', 'n': 5})
    for c in BIG_CHANNELS:
        out.append({'kind': 'big', 'c': c})
    for a in range(0, 0x10000, COVER_RANGE):
        out.append({'kind': 'cover', 'half': 'hi', 'from': a})
    for a in range(0, 0x10000, COVER_RANGE):
        out.append({'kind': 'cover', 'half': 'lo', 'from': a})
    out.append({'kind': 'example'})
    return out


# ---------------------------------------------------------------------------------------------
# content models
# ---------------------------------------------------------------------------------------------
@functools.lru_cache(maxsize=None)
def _enc(value):
    return bit_ref.ibm_encode_exact(Fraction(value))


def position_value(p, c, f):
    """An exactly representable number that names (pass, channel, frame); odd channels negative."""
    v = Fraction((p + 1) * 4096 + (c + 1) * 64 + (f + 1)) + Fraction((c + f) % 4, 4)
    return -v if c % 2 else v


def layout_pass(p, channels, frames, fpb, xyz, odd=False):
    """odd: C13's own files also carry a blank and a lower-case channel name and Latin-1 description text in places (the other
    checks that borrow this generator - C11, C12, C20 - keep plain names: a blank name has no LAS mnemonic to become)."""
    names = NAMES20[:channels] if p % 2 == 0 else (NAMES20[3:] + NAMES20[:3])[:channels]
    if odd and channels >= 2 and (channels + frames + p) % 4 == 0:
        # a channel whose name field is blank is still a channel of the pass (and one spelt in lower case is still that name)
        names = list(names)
        names[(frames + p) % channels] = '    '
        names[(frames + p + 1) % channels] = 'a1b '
    extra = {}
    if odd and (channels + frames + p) % 5 == 1:
        # the two bytes after the channel count are not always null in the field; the reader mentions it and reads on
        extra['null'] = [0x0001, 0x0080, 0xFFFF][(frames + p) % 3]
    if odd and (channels + 2 * frames + p) % 7 == 3:
        # a description in Latin-1 (a field name with a letter above 0x7f): free text, the reader does not interpret it
        extra['description'] = b'TROLL \xd8ST 31/2-A \xb0C'.ljust(72).hex()
    return dict(extra, **{
        'names': names,
        'start': _enc(xyz[0]),
        'stop': _enc(xyz[1]),
        'spacing': _enc(xyz[2]),
        'block_frames': bit_ref.split_frames(frames, fpb),
        'words': [[_enc(position_value(p, c, f)) for f in range(frames)] for c in range(channels)],
    })


def cover_words(half, start, fixed):
    rng = range(start, start + COVER_RANGE)
    if half == 'hi':
        return [(h << 16) | l for h in rng for l in fixed]
    # the words whose high half is also in the full-range set of the 'hi' shards are produced again; harmless
    return [(h << 16) | l for l in rng for h in fixed]


def cover_models(words):
    """Place the words, in order, into one-pass files cycling through COVER_LAYOUTS; the tail is padded with zero words."""
    i = 0
    n = 0
    while i < len(words):
        c, f, fpb = COVER_LAYOUTS[n % len(COVER_LAYOUTS)]
        chunk = words[i:i + c * f]
        i += c * f
        chunk = chunk + [0] * (c * f - len(chunk))
        yield {'passes': [{
            'names': NAMES20[:c], 'start': 0x42640000, 'stop': 0x42610000, 'spacing': 0x40800000,
            'block_frames': bit_ref.split_frames(f, fpb),
            'words': [chunk[k * f:(k + 1) * f] for k in range(c)],
        }]}
        n += 1


# ---------------------------------------------------------------------------------------------
# the oracle for one file
# ---------------------------------------------------------------------------------------------
_DEC = {}


def _decoders():
    from TotalDepth.BIT import ReadBIT
    from TotalDepth.RP66V1.core import pRepCode
    from TotalDepth.RP66V1.core.File import LogicalData
    return ReadBIT, pRepCode, LogicalData


def decode_word(word):
    """(exact value as float, value scaled by the F16 factor as float, messages about the two other decoders)."""
    got = _DEC.get(word)
    if got is None:
        if len(_DEC) > 200000:
            _DEC.clear()
        ReadBIT, pRepCode, LogicalData = _decoders()
        exact = bit_ref.ibm_word_to_fraction(word)
        fexact = float(exact)
        assert Fraction(fexact) == exact   # every IBM single is a double
        fscaled = float(exact * F16_FACTOR)
        b = bit_ref.word_bytes(word)
        other = []
        try:
            v = ReadBIT.bytes_to_float(b)
            if not v == fexact:
                other.append(('bit_header_decoder_disagrees', 'bytes_to_float(%s) = %r, exact value %r' % (b.hex(), v, fexact)))
        except Exception as err:  # noqa
            other.append(('bit_header_decoder_raises', 'bytes_to_float(%s): %s: %s' % (b.hex(), type(err).__name__, err)))
        try:
            v = pRepCode.ISINGL(LogicalData(b))
            if not v == fexact:
                other.append(('bit_isingl_disagrees', 'RP66V1 ISINGL(%s) = %r, exact value %r' % (b.hex(), v, fexact)))
        except Exception as err:  # noqa
            other.append(('bit_isingl_raises', 'ISINGL(%s): %s: %s' % (b.hex(), type(err).__name__, err)))
        got = (fexact, fscaled, other)
        _DEC[word] = got
    return got


def is_f16(observed, fscaled):
    """True iff `observed` is the exact value times 2^24/(2^24-1) to within one unit in the last place."""
    if fscaled == 0.0 or not math.isfinite(observed):
        return False
    return abs(observed - fscaled) <= math.ulp(fscaled)


def _brief(seq):
    return repr(seq) if len(seq) <= 8 else '%s + %d more' % (repr(seq[:4]), len(seq) - 4)


def _norm_name(n):
    if isinstance(n, (bytes, bytearray)):
        n = bytes(n).decode('latin-1')
    return str(n).rstrip(' ')


def _flat(channel):
    import numpy as np
    a = np.asarray(channel.array)
    return a.reshape(-1)


def _summary(result):
    return [(len(b.frame_array.channels), b.frame_count, tuple(_flat(ch).tobytes() for ch in b.frame_array.channels))
            for b in result if getattr(b, 'frame_array', None) is not None]


def check_bytes(model, data):
    """Reads `data` with the implementation and compares with `model`.  Returns ([(sig, msg)], outcome hash)."""
    from TotalDepth.BIT import ReadBIT
    bad = []
    seen = set()

    def add(sig, msg):
        k = tuple(sorted(sig.items()))
        if k not in seen:      # first instance of a class per file is enough
            seen.add(k)
            bad.append((sig, msg))

    # a batch that carries on: a damaged copy of the file (cut inside a pass, one marker byte changed) is read first - how the reader
    # deals with it is not judged here - and must leave nothing behind for the read that follows
    for dmg in (data[:(2 * len(data)) // 3], data[:len(data) // 2] + b'\xff' + data[len(data) // 2 + 1:]):
        try:
            ReadBIT.create_bit_frame_array_from_file(io.BytesIO(dmg))
        except Exception:  # noqa
            pass
    # the block walk the reader is built on keeps its place in the stream although the caller uses the stream between two blocks
    # (the library says so: "Protect file position in case the caller messes with it"): asked is_bit_file() after every block
    if hasattr(ReadBIT, 'yield_tif_blocks') and len(data) < 20000:
        try:
            straight = [(b.tell, b.tif_type, bytes(b.payload)) if hasattr(b, 'payload') else tuple(b) for b in ReadBIT.yield_tif_blocks(io.BytesIO(data))]
            stream = io.BytesIO(data)
            broken = []
            for b in ReadBIT.yield_tif_blocks(stream):
                broken.append((b.tell, b.tif_type, bytes(b.payload)) if hasattr(b, 'payload') else tuple(b))
                ReadBIT.is_bit_file(stream)
            if broken != straight:
                add({'kind': 'bit_block_walk_disturbed_by_the_caller'}, 'yield_tif_blocks() with is_bit_file(stream) asked after every block gives %d blocks, undisturbed %d (or other content)'
                    % (len(broken), len(straight)))
        except Exception as err:  # noqa
            add({'kind': 'bit_read_raises', 'exception': type(err).__name__, 'walk': 'blocks'}, 'block walk raised %s: %s' % (type(err).__name__, err))
    fobj = io.BytesIO(data)
    try:
        # the way the tools use a file object: asked "is this a BIT file?" first, then read through the same object
        plain = all(32 <= b < 127 for p in model['passes'][:1] for b in bytes.fromhex(p.get('description', '20')))
        if not ReadBIT.is_bit_file(fobj) and plain:      # (with other text in the description the answer is not in the statement)
            add({'kind': 'bit_not_recognised'}, 'is_bit_file() is False for a conformant file')
        result = ReadBIT.create_bit_frame_array_from_file(fobj)
    except Exception as err:  # noqa
        add({'kind': 'bit_read_raises', 'exception': type(err).__name__}, 'reading raised %s: %s' % (type(err).__name__, err))
        return bad, ('raise', type(err).__name__)
    try:
        # what was handed out is the caller's: its list of channel names shortened, the file read again
        for b in result[:1]:
            if isinstance(getattr(b, 'channel_names', None), list) and b.channel_names:
                names_before = list(b.channel_names)
                b.channel_names.pop()
        again = _summary(ReadBIT.create_bit_frame_array_from_file(fobj))
        for b in result[:1]:
            if isinstance(getattr(b, 'channel_names', None), list):
                b.channel_names[:] = names_before
        fresh = _summary(ReadBIT.create_bit_frame_array_from_file(io.BytesIO(data)))
    except Exception as err:  # noqa
        add({'kind': 'bit_read_raises', 'exception': type(err).__name__, 'read': 'second'},
            'a second read raised %s: %s' % (type(err).__name__, err))
        return bad, ('raise2', type(err).__name__)
    if not plain or h64(data) % 8 == 0:
        # the by-path twin of the reader gives what the by-file reader gives
        from mc import seams
        os.makedirs(seams.SCRATCH, exist_ok=True)
        path = os.path.join(seams.SCRATCH, 'c13-%d.bit' % os.getpid())
        try:
            with open(path, 'wb') as f:
                f.write(data)
            seams.pin_times(path)
            by_path = _summary(ReadBIT.create_bit_frame_array_from_path(path))
            if by_path != fresh:
                add({'kind': 'bit_read_by_path_differs'}, 'create_bit_frame_array_from_path() gives %r, the same bytes through a file object %r'
                    % ([x[:2] for x in by_path], [x[:2] for x in fresh]))
        except Exception as err:  # noqa
            add({'kind': 'bit_read_raises', 'exception': type(err).__name__, 'read': 'by path'}, 'reading by path raised %s: %s' % (type(err).__name__, err))
        finally:
            if os.path.exists(path):
                os.remove(path)
    if not (_summary(result) == again == fresh):
        add({'kind': 'bit_read_depends_on_the_file_position'},
            'the same bytes read (a) after is_bit_file(), (b) again through the same file object and (c) through a fresh one '
            'give different log passes: %r / %r / %r' % ([x[:2] for x in _summary(result)], [x[:2] for x in again], [x[:2] for x in fresh]))
    passes = model['passes']
    if len(result) != len(passes):
        add({'kind': 'bit_pass_count'}, '%d frame arrays for a file of %d log passes' % (len(result), len(passes)))
    out_hash = []
    for pi, (p, bfa) in enumerate(zip(passes, result)):
        where = 'pass %d' % pi
        fa = getattr(bfa, 'frame_array', None)
        if fa is None:
            add({'kind': 'bit_no_frame_array'}, '%s: no frame array' % where)
            continue
        nframes = bit_ref.pass_frames(p)
        names = [_norm_name(n) for n in p['names']]
        got_names = [_norm_name(ch.ident) for ch in fa.channels[1:]]
        out_hash.append(tuple(got_names))
        if got_names != names:
            add({'kind': 'bit_channel_names'}, '%s: channels %r, header names %r' % (where, got_names, names))
            continue
        if [_norm_name(n) for n in bfa.channel_names] != names:
            add({'kind': 'bit_channel_names_attr'}, '%s: channel_names %r, header names %r' % (where, bfa.channel_names, names))
        arrays = [_flat(ch) for ch in fa.channels]
        out_hash.append(tuple(a.tobytes() for a in arrays))
        counts = [len(a) for a in arrays]
        if any(n != nframes for n in counts) or bfa.frame_count != nframes:
            add({'kind': 'bit_frame_count'},
                '%s: %d values recorded per channel (blocks of %s frames) but channel lengths are %r (X first), frame_count %r'
                % (where, nframes, _brief(p['block_frames']), counts, bfa.frame_count))
            continue
        # ---- values
        words = p['words']
        table = None
        for c, chw in enumerate(words):
            arr = arrays[c + 1].tolist()
            for f, w in enumerate(chw):
                fexact, fscaled, other = decode_word(w)
                for kind, msg in other:
                    add({'kind': kind}, msg)
                obs = arr[f]
                if obs == fexact:
                    continue
                at = '%s channel %d (%r) frame %d: bytes %s record %r, the reader gives %r' \
                     % (where, c, p['names'][c], f, bit_ref.word_bytes(w).hex(), fexact, obs)
                if is_f16(obs, fscaled):
                    add({'kind': F16_KIND},
                        at + ' = exact * 2^24/(2^24-1): gen_floats divides the fraction by 0xFFFFFF instead of 2^24')
                    continue
                if table is None:
                    table = {}
                    for c2, chw2 in enumerate(words):
                        for f2, w2 in enumerate(chw2):
                            e2, s2, _ = decode_word(w2)
                            table.setdefault(e2, (c2, f2))
                            table.setdefault(s2, (c2, f2))
                src = table.get(obs)
                if src is not None and src != (c, f):
                    add({'kind': 'bit_value_from_other_position'},
                        at + ' (equal to the value recorded for channel %d frame %d)' % src)
                else:
                    add({'kind': 'bit_value_wrong'}, at)
        # ---- X axis
        xs = arrays[0].tolist()
        d = bit_ref.x_direction(p)
        start = float(bit_ref.ibm_word_to_fraction(p['start']))
        hdr = 'start %r stop %r spacing %r' % (start, float(bit_ref.ibm_word_to_fraction(p['stop'])),
                                               float(bit_ref.ibm_word_to_fraction(p['spacing'])))
        if nframes and xs[0] != start:
            add({'kind': 'bit_x_axis', 'what': 'start'}, '%s: X[0] = %r, header %s' % (where, xs[0], hdr))
        elif d != 0:
            exp = [float(v) for v in bit_ref.expected_x(p)]
            for i, (g, e) in enumerate(zip(xs, exp)):
                if not abs(g - e) <= 4 * math.ulp(max(abs(e), abs(start))):
                    other_way = float(bit_ref.expected_x(p, -d)[i])
                    what = 'direction' if g == other_way else 'step'
                    add({'kind': 'bit_x_axis', 'what': what},
                        '%s: X[%d] = %r expected %r (%s, %s)' % (where, i, g, e, hdr, 'increasing' if d > 0 else 'decreasing'))
                    break
        else:
            exp = [float(v) for v in bit_ref.expected_x(p, 1)]
            for i, (g, e) in enumerate(zip(xs, exp)):
                if not abs(abs(g - start) - (e - start)) <= 4 * math.ulp(max(abs(e), abs(start))):
                    add({'kind': 'bit_x_axis', 'what': 'step'},
                        '%s: |X[%d] - X[0]| = %r expected %r (%s)' % (where, i, abs(g - start), e - start, hdr))
                    break
    return bad, h64(repr(out_hash))


def check_model(model):
    return check_bytes(model, bit_ref.produce(model))


def _example_path():
    from mc import seams
    for root in (seams.REPO, '/repo'):
        path = os.path.join(root, EXAMPLE_REL)
        if os.path.isfile(path):
            return path
    return None


def check_example():
    path = _example_path()
    if path is None:
        return None
    with open(path, 'rb') as f:
        data = f.read()
    model = bit_ref.dissect(data)
    if bit_ref.produce(model) != data:
        raise RuntimeError('reference producer does not reproduce the example file (harness error)')
    return check_bytes(model, data), model


# ---------------------------------------------------------------------------------------------
def _record(res, key, case, nontrivial, bad, outcome, sample=False):
    res.case(key, nontrivial=nontrivial, outcome=outcome, sample=case if sample else None)
    for sig, msg in bad:
        res.violate(sig, case, msg)


def _shape(model):
    return [(len(p['names']), bit_ref.pass_frames(p), p['block_frames']) for p in model['passes']]


def run_shard(shard, tier):
    res = Result()
    t = _tier(tier)
    kind = shard['kind']
    if kind == 'one':
        c, f = shard['c'], shard['f']
        for fpb in t['fpb']:
            for xyz in itertools.product(t['xvals'], repeat=3):
                model = {'passes': [layout_pass(0, c, f, fpb, xyz, odd=True)]}
                bad, outcome = check_model(model)
                case = {'kind': 'model', 'model': model}
                _record(res, ('one', c, f, fpb, xyz), case, c > 1 or f > fpb, bad, outcome,
                        sample=(fpb == 2 and xyz == (100, 97, 0.5) and c == 2 and f == 3))
                res.count('files')
                res.count('short_last_block', 1 if f % fpb and f > fpb else 0)
                res.count('values', c * f)
    elif kind == 'two':
        c1, f1, c2 = shard['c1'], shard['f1'], shard['c2']
        for fpb1 in t['fpb']:
            for f2 in t['frames']:
                for fpb2 in t['fpb']:
                    for xa, xb in X_PAIRS:
                        model = {'passes': [layout_pass(0, c1, f1, fpb1, xa, odd=True), layout_pass(1, c2, f2, fpb2, xb, odd=True)]}
                        bad, outcome = check_model(model)
                        case = {'kind': 'model', 'model': model}
                        _record(res, ('two', c1, f1, fpb1, c2, f2, fpb2, xa, xb), case, True, bad, outcome)
                        res.count('files')
                        res.count('short_last_block', (1 if f1 % fpb1 and f1 > fpb1 else 0) + (1 if f2 % fpb2 and f2 > fpb2 else 0))
                        res.count('values', c1 * f1 + c2 * f2)
    elif kind == 'three':
        small = [(1, 1, 1), (2, 3, 2), (20, 5, 3)] if shard.get('n', 3) < 5 else [(1, 1, 1), (2, 3, 2)]
        for combo in itertools.product(small, repeat=shard.get('n', 3)):
            model = {'passes': [layout_pass(i, c, f, fpb, (100, 97, 0.5) if i % 2 == 0 else (97, 100, 0.25), odd=True)
                                for i, (c, f, fpb) in enumerate(combo)]}
            bad, outcome = check_model(model)
            _record(res, ('three', combo), {'kind': 'model', 'model': model}, True, bad, outcome)
            res.count('files')
            res.count('values', sum(c * f for c, f, _ in combo))
    elif kind == 'big':
        c = shard['c']
        # and one data block of exactly 64 K bytes / of one frame more (a block's length is a 32-bit word: nothing bounds it at 64 K)
        huge = [(65536 // (4 * c), 65536 // (4 * c)), (65536 // (4 * c) + 1, 65536 // (4 * c) + 1), (65536 // (4 * c) + 9, 65536 // (4 * c) + 1)]
        for f, fpb in [(f, fpb) for f in BIG_FRAMES for fpb in BIG_FPB] + huge:
            if True:
                for xyz in ((100, 97, 0.25), (0.5, 100, 0.5)) if f < 1000 else ((100, 97, 0.25),):
                    model = {'passes': [layout_pass(0, c, f, fpb, xyz, odd=True)]}
                    bad, outcome = check_model(model)
                    _record(res, ('big', c, f, fpb, xyz), {'kind': 'model', 'model': model}, True, bad, outcome)
                    res.count('files')
                    res.count('short_last_block', 1 if f % fpb and f > fpb else 0)
                    res.count('values', c * f)
    elif kind == 'cover':
        words = cover_words(shard['half'], shard['from'], t['fixed'])
        for n, model in enumerate(cover_models(words)):
            bad, outcome = check_model(model)
            case = {'kind': 'model', 'model': model}
            _record(res, ('cover', shard['half'], shard['from'], n), case, True, bad, outcome,
                    sample=(n == 1 and shard['from'] == 0x4000 and shard['half'] == 'hi'))
            res.count('files')
            res.count('values', sum(len(ch) for ch in model['passes'][0]['words']))
        res.count('cover_words', len(words))
        _DEC.clear()
    elif kind == 'example':
        got = check_example()
        if got is None:
            res.count('example_file_missing')
        else:
            (bad, outcome), model = got
            _record(res, ('example',), {'kind': 'example'}, True, bad, outcome)
            res.count('files')
            res.count('values', sum(len(p['names']) * bit_ref.pass_frames(p) for p in model['passes']))
        _DEC.clear()
    else:
        raise ValueError(shard)
    return res


def replay(case):
    if case['kind'] == 'example':
        got = check_example()
        bad = got[0][0] if got else []
    else:
        bad, _ = check_model(case['model'])
    return [{'sig': sig, 'case': case, 'msg': msg} for sig, msg in bad]
