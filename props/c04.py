"""C04 - DLIS frame arrays hold exactly the recorded values; sub-selection commutes; no history dependence."""
import io
import itertools
import struct

import numpy as np

from mc import bfs
from mc.run import Result, h64
from models import rp66_ref as R
from props import c03

ID = 'C04'
LEVEL = 'model_checking'
ENGINE = 'E2 explicit-state search'
DESIGN_REF = 'DESIGN.md section 4, C04'
TECHNIQUE = ('bounded exhaustive enumeration of log passes (channel codes x dimensions x frame counts x IFLR interleavings x '
             'layout) and of every slice/sample/channel-subset selection, plus explicit-state BFS over sequences of populate '
             'calls on the same real LogicalIndex; every populated array compared bit for bit with the content model')
RULE = ('part V: every channel configuration (index code x second channel code x dimensions, 1-3 channels) x n in {1,3} x 4 '
        'selections x every channel subset; part S: 3 configurations x n in 1..5 x every Slice(start,stop,step) with start,stop '
        'in {None,-n..n+1}, step in {None,1..n,-1..-n} selecting >= 1 frame and every Sample(k) x 4 channel sets; part I: two frame '
        'types with every interleaving of <= 6 IFLRs, an empty IFLR at every position, both layouts; part H: BFS over populate '
        'histories (2 frame arrays x 6 selections x 4 channel sets), state = per channel (array length, masked?) + file cursor. '
        'non-trivial = a selection other than None/all channels or more than one frame type; outcome = hash of populated arrays')
ASSUMPTIONS = ['the index channel is scalar (dimension [1]); other channels take dimensions [1], [3], [2,2]',
               'only fixed-length numeric codes 2,5,6,7,12-17 are used as channel codes (the statement\'s domain)',
               'values of the historic float codes are exactly representable in float32']
BOUNDS = {'quick': 'V: n in {1,3}; S: n <= 4; I: <= 5 IFLRs; H: depth 2',
          'thorough': 'V: n in {1,3,5}; S: n <= 6; I: <= 6 IFLRs; H: depth 3'}
LEVEL_TEXT = ('Every populate call of the enumerated selection space is executed on the real index of an independently produced '
              'file and every element compared bit for bit with the model; histories of populate calls are explored breadth '
              'first until the abstract state space (array lengths per channel + reader cursor) closes or the depth bound is hit.')
LEVEL_NOTE = 'trusted: models/rp66_ref.py producer and value encoders'

NUM_CODES = [2, 5, 6, 7, 12, 13, 14, 15, 16, 17]
DTYPES = {2: np.float32, 5: np.float32, 6: np.float32, 7: np.float64, 12: np.int8, 13: np.int16, 14: np.int32,
          15: np.uint8, 16: np.uint16, 17: np.uint32}
DIMS = [[1], [3], [2, 2]]


def vax_bytes(v):
    """Exact RP66 VSINGL bytes of a non-zero integer |v| < 2^23."""
    s = 0x80 if v < 0 else 0
    v = abs(v)
    bl = v.bit_length()
    e = 128 + bl
    m = (v << (24 - bl)) - (1 << 23)          # (v/2^bl - 0.5) * 2^24 ... in units of 2^-24
    assert m % 2 == 0
    m >>= 1                                    # units of 2^-23
    return bytes([((e & 1) << 7) | ((m >> 16) & 0x7F), s | (e >> 1), m & 0xFF, (m >> 8) & 0xFF])


def value(code, k):
    """The k-th model value of a code: (wire bytes, exact value as Python number)."""
    if code == 2:
        v = [k + 0.5, -(k + 0.25), 3.4028234663852886e38, -1.401298464324817e-45][k % 4] if k % 9 == 8 else k + 0.5
        return struct.pack('>f', v), v
    if code == 5:
        n = (k % 200) + 1
        sign = 0x80 if k % 3 == 2 else 0
        by = bytes([0x42 | sign, n, 0, 0])
        if k % 9 == 8:      # beyond both ends of the IEEE single range that the array holds the value in (7.2e75, 5.4e-79, a single denormal)
            by = [b'\x7f\xff\xff\xff', b'\x00\x10\x00\x00', b'\xff\xff\xff\xff', b'\x21\x10\x00\x00'][(k // 9) % 4]
        return by, float(R.isingl_exact(by))
    if code == 6:
        n = (k % 200) + 1
        by = vax_bytes(-n if k % 3 == 2 else n)
        return by, float(R.vsingl_exact(by))
    if code == 7:
        v = [1e300, -2.2250738585072014e-308][k % 2] if k % 9 == 8 else k + 0.25
        return struct.pack('>d', v), v
    lo, hi, fmt = {12: (-128, 127, '>b'), 13: (-32768, 32767, '>h'), 14: (-2 ** 31, 2 ** 31 - 1, '>i'),
                   15: (0, 255, '>B'), 16: (0, 65535, '>H'), 17: (0, 2 ** 32 - 1, '>I')}[code]
    if k % 9 == 8:
        v = [lo, hi][k % 2]
    else:
        base = (k * 37 + 11) % (hi - lo + 1) if code in (12, 15) else (k % 257) * ((hi - lo) // 257) + 3
        v = lo + base if k % 2 == 0 else hi - base      # both halves of the range: values with and without the top bit
    return struct.pack(fmt, v), v


def count_of(dims):
    n = 1
    for d in dims:
        n *= d
    return n


# ------------------------------------------------------------------------------------------------
# model -> file
# ------------------------------------------------------------------------------------------------
def channel_set(types, order='frame'):
    template = [{'label': b'LONG-NAME', 'code': 20}, {'label': b'REPRESENTATION-CODE', 'code': 15},
                {'label': b'UNITS', 'code': 27}, {'label': b'DIMENSION', 'code': 18}]
    objects = []
    for t in types:
        for ch in t['channels']:
            objects.append({'name': (1, ch.get('copy', 0), ch['name'].encode()), 'comps': [
                {'values': [('long ' + ch['name']).encode()]}, {'values': [ch['code']]}, {'values': [ch.get('units', 'm').encode()]},
                {'count': len(ch['dims']), 'values': list(ch['dims'])}]})
    # the CHANNEL set may define its channels in any order; a FRAME object's CHANNELS attribute fixes the order inside a frame
    if order == 'reversed':
        objects = objects[::-1]
    elif order == 'rotated':
        objects = objects[1:] + objects[:1]
    return {'type': b'CHANNEL', 'name': b'chs', 'template': template, 'objects': objects, 'lrtype': 3}


def frame_set(types):
    template = [{'label': b'DESCRIPTION', 'code': 20}, {'label': b'CHANNELS', 'code': 23}, {'label': b'INDEX-TYPE', 'code': 19}]
    objects = []
    for t in types:
        objects.append({'name': (1, 0, t['name'].encode()), 'comps': [
            {'values': [b'frame type ' + t['name'].encode()]},
            {'count': len(t['channels']), 'values': [(1, ch.get('copy', 0), ch['name'].encode()) for ch in t['channels']]},
            {'values': [b'BOREHOLE-DEPTH']}]})
    return {'type': b'FRAME', 'name': b'frs', 'template': template, 'objects': objects, 'lrtype': 4}


def frame_values(ti, t, f):
    """Per channel: list of (bytes, value) for frame f (0-based) of frame type ti."""
    out = []
    for c, ch in enumerate(t['channels']):
        out.append([value(ch['code'], ti * 41 + f * 13 + c * 5 + e) for e in range(count_of(ch['dims']))])
    return out


def build(lp):
    """lp: {'types': [{'name','channels':[{'name','code','dims'}], 'n'}], 'order': [type index per IFLR] or None,
            'empty_at': int or None, 'layout': 'one'|'split', 'extra_sets': [set models written after the FRAME set], 'sul': keyword arguments of rp66_ref.sul_bytes}"""
    types = lp['types']
    order = lp.get('order')
    if order is None:
        order = [ti for ti, t in enumerate(types) for _ in range(t['n'])]
    sets = [c03.FILE_HEADER, c03.ORIGIN_FULL if lp.get('origin') == 'full' else c03.ORIGIN, channel_set(types, lp.get('chan_order', 'frame')), frame_set(types)] + list(lp.get('extra_sets', []))
    recs = [{'eflr': True, 'type': c03.lrtype_for(s), 'payload': c03.encode_set(s)} for s in sets]
    seen = [0] * len(types)
    iflr_rec_index = [[] for _ in types]
    pos = 0
    for ti in order + [None]:
        if lp.get('empty_at') is not None and lp['empty_at'] == pos:
            t0 = types[0]
            recs.append({'eflr': False, 'type': 0, 'payload': R.iflr_payload((1, 0, t0['name'].encode()), 0, b'')})
        if ti is None:
            break
        t = types[ti]
        f = seen[ti]
        seen[ti] += 1
        data = b''.join(b for chv in frame_values(ti, t, f) for b, _v in chv)
        payload = R.iflr_payload((1, 0, t['name'].encode()), f + lp.get('number0', 1), data)
        rec = {'eflr': False, 'type': 0, 'payload': payload}
        if lp.get('layout') == 'split':
            rec['cuts'] = [len(payload) // 2]
            rec['newvr'] = [False, True]
        iflr_rec_index[ti].append(len(recs))
        recs.append(rec)
        pos += 1
    data, lay = R.build_file(recs, sul=R.sul_bytes(**lp['sul'])) if lp.get('sul') else R.build_file(recs)
    return data, lay, iflr_rec_index


def expected_arrays(lp, ti, indices, chsel):
    """chsel: None or set of idents.  Returns per channel a numpy array or None (must be empty)."""
    t = lp['types'][ti]
    out = []
    rows = [frame_values(ti, t, f) for f in indices]
    for c, ch in enumerate(t['channels']):
        if chsel is not None and c != 0 and ch['name'] not in chsel:
            out.append(None)
            continue
        arr = np.empty((len(indices), *ch['dims']), dtype=DTYPES[ch['code']])
        flat = arr.reshape(len(indices), -1)
        with np.errstate(all='ignore'):
            for i, row in enumerate(rows):
                for e, (_b, v) in enumerate(row[c]):
                    flat[i, e] = v
        out.append(arr)
    return out


def make_selection(sel):
    from TotalDepth.common import Slice
    if sel is None:
        return None
    if sel[0] == 'slice':
        return Slice.Slice(sel[1], sel[2], sel[3])
    return Slice.Sample(sel[1])


def model_indices(sel, n):
    if sel is None:
        return list(range(n))
    if sel[0] == 'slice':
        return list(range(n))[slice(sel[1], sel[2], sel[3])]
    k = sel[1]
    if k >= n:
        return list(range(n))
    # reference sample: min(k, n) indices from 0, gaps differing by at most one - the implementation's choice is checked
    # by C15; here the model takes the selector's own index list (read through its public API) as the row choice
    return None


class System:
    def __init__(self, lp):
        from TotalDepth.RP66V1.core import LogicalFile
        self.lp = lp
        data, self.lay, self.iflr_recs = build(lp)
        self.f = io.BytesIO(data)
        self.idx = LogicalFile.LogicalIndex(self.f)
        self.idx.__enter__()
        self.lf = self.idx.logical_files[0]
        # one selector object per selection for the life of the system, as the tools hold one --frame-slice object for
        # every frame array of every logical file they read
        self.selectors = {}
        self.chsets = {}

    def channel_set(self, chs):
        """The caller's set object for a channel list: one object per list for the life of the system (a tool that keeps its
        --channels set and hands it to every populate call)."""
        if chs is None:
            return None
        if self.lp.get('setmode') == 'edited':
            # the other habit of a caller: ONE set for all its requests, emptied and refilled before each (same object, new content)
            one = self.chsets.setdefault('*', set())
            one.clear()
            one.update(chs)
            return one
        if self.lp.get('setmode') == 'list':
            # the names as a list in which the first one comes twice (a caller who joins two lists of names): the same selection
            return list(chs[:1]) + list(chs)
        key = repr(chs)
        if key not in self.chsets:
            self.chsets[key] = set(chs)
        return self.chsets[key]

    def selector(self, sel):
        key = repr(sel)
        if key not in self.selectors:
            self.selectors[key] = make_selection(sel)
        return self.selectors[key]

    def canon(self):
        fr = self.idx._logical_record_index.rp66v1_file
        vr, lrsh = fr.visible_record, fr.logical_record_segment_header
        arrays = tuple((len(ch.array), isinstance(ch.array, np.ma.MaskedArray))
                       for fa in self.lf.log_pass.frame_arrays for ch in fa.channels)
        sels = tuple((k, bfs.generic_state(v, depth=1)) for k, v in sorted(self.selectors.items()) if v is not None)
        sets = tuple((k, tuple(sorted(map(repr, v)))) for k, v in sorted(self.chsets.items()))
        return arrays + (self.f.tell(), vr.position, lrsh.position, lrsh.attributes.attributes, sels, sets)


def step(system, op, check):
    """op = ['populate', type index, selection, channel list or None]"""
    _, ti, sel, chs = op
    lp = system.lp
    n = lp['types'][ti]['n']
    fa = system.lf.log_pass.frame_arrays[ti]
    chsel = None if chs is None else set(chs)
    selector = system.selector(sel)
    try:
        got_n = system.lf.populate_frame_array(fa, selector, system.channel_set(chs))
    except Exception as err:  # noqa
        return [({'kind': 'populate_raises', 'exc': type(err).__name__}, 'populate(%r,%r,%r): %s: %s' % (ti, sel, chs, type(err).__name__, err))]
    if not check:
        return []
    bad = []
    indices = model_indices(sel, n)
    if indices is None:
        indices = selector.indices(n)
        from props import c15
        why = c15.sample_ok(indices, sel[1], n)
        if why:
            bad.append(({'kind': 'sample_rows'}, 'Sample(%d) of %d frames chose %r: %s' % (sel[1], n, indices, why)))
    if got_n != len(indices):
        bad.append(({'kind': 'frame_count'}, 'populate(%r,%r,%r) returned %r frames, selection has %d' % (ti, sel, chs, got_n, len(indices))))
    exp = expected_arrays(lp, ti, indices, chsel)
    for c, (ch, e) in enumerate(zip(fa.channels, exp)):
        a = ch.array
        if e is None:
            if len(a) != 0:
                bad.append(({'kind': 'unselected_channel_not_empty'}, 'channel %d not selected but holds %d frames' % (c, len(a))))
            continue
        if a.dtype != e.dtype:
            bad.append(({'kind': 'dtype'}, 'channel %d dtype %s expected %s' % (c, a.dtype, e.dtype)))
        elif a.shape != e.shape:
            bad.append(({'kind': 'shape'}, 'channel %d shape %r expected %r (selection %r, channels %r)' % (c, a.shape, e.shape, sel, chs)))
        elif np.asarray(a).tobytes() != e.tobytes():
            bad.append(({'kind': 'values', 'code': lp['types'][ti]['channels'][c]['code']},
                        'frame type %d channel %d selection %r channels %r: got %r expected %r' % (ti, c, sel, chs, np.asarray(a).tolist(), e.tolist())))
    if not bad:
        bad.extend(check_accessors(system, ti))
    return bad


def check_accessors(system, ti):
    """The lesser ways of reaching a channel or a frame array agree with the lists: by position, by identity, len, keys, X axis."""
    lp_obj = system.lf.log_pass
    fa = lp_obj.frame_arrays[ti]
    why = []
    try:
        if len(fa) != len(fa.channels):
            why.append('len(frame array) = %r for %d channels' % (len(fa), len(fa.channels)))
        idents = [ch.ident for ch in fa.channels]
        if list(fa.keys()) != idents:
            why.append('keys() %r, channel identities %r' % (list(fa.keys()), idents))
        for i, ch in enumerate(fa.channels):
            if fa[i] is not ch:
                why.append('frame_array[%d] is not channel %d' % (i, i))
            if idents.count(ch.ident) == 1 and (not fa.has(ch.ident) or fa[ch.ident] is not ch):
                why.append('frame_array[%r] is not channel %d' % (ch.ident, i))
            if len(ch) != len(ch.array):
                why.append('len(channel %d) = %r, array of %d frames' % (i, len(ch), len(ch.array)))
            if len(ch.array) and np.asarray(ch[0]).tobytes() != np.asarray(ch.array[0]).tobytes():
                why.append('channel %d [0] differs from its array' % i)
        if fa.channels and fa.x_axis is not fa.channels[0]:
            why.append('x_axis is not the first channel')
        if list(fa.shape) != [ch.shape for ch in fa.channels]:
            why.append('shape %r, channel shapes %r' % (fa.shape, [ch.shape for ch in fa.channels]))
        if len(lp_obj) != len(lp_obj.frame_arrays) or lp_obj[ti] is not fa or not lp_obj.has(fa.ident) or lp_obj[fa.ident] is not fa:
            why.append('log pass lookup of frame array %d by position / identity' % ti)
    except Exception as err:  # noqa
        why.append('%s: %s' % (type(err).__name__, err))
    return [({'kind': 'accessor_disagrees'}, 'frame type %d: %s' % (ti, w)) for w in why[:1]]


def check_index(system):
    bad = []
    lp = system.lp
    lf = system.lf
    if len(system.idx.logical_files) != 1:
        return [({'kind': 'logical_file_count'}, '%d logical files' % len(system.idx.logical_files))]
    for ti, t in enumerate(lp['types']):
        name = t['name'].encode()
        keys = [k for k in lf.iflr_position_map if k.I == name]
        n_model = len(system.iflr_recs[ti])
        if not keys:
            if n_model:
                bad.append(({'kind': 'index_missing_frame_type'}, 'no index entry for %s' % t['name']))
            continue
        xaxis = lf.iflr_position_map[keys[0]]
        if len(xaxis) != n_model:
            bad.append(({'kind': 'index_frame_count'}, '%s: index holds %d frames, %d non-empty IFLRs written' % (t['name'], len(xaxis), n_model)))
            continue
        for f in range(n_model):
            ref = xaxis[f]
            info = system.lay.records[system.iflr_recs[ti][f]]
            if ref.frame_number != f + lp.get('number0', 1):
                bad.append(({'kind': 'index_frame_number'}, '%s frame %d: number %r' % (t['name'], f, ref.frame_number)))
            if (ref.logical_record_position.vr_position, ref.logical_record_position.lrsh_position) != (info['vr_position'], info['lrsh_position']):
                bad.append(({'kind': 'index_position'}, '%s frame %d: position %s' % (t['name'], f, ref.logical_record_position)))
            xv = frame_values(ti, t, f)[0][0][1]
            with np.errstate(all='ignore'):
                exp = DTYPES[t['channels'][0]['code']](xv)
            if not (ref.x_axis == exp and float(ref.x_axis) == float(exp)):
                bad.append(({'kind': 'index_x_value'}, '%s frame %d: X %r expected %r' % (t['name'], f, ref.x_axis, exp)))
        if lf.num_frames(lf.log_pass.frame_arrays[ti]) != n_model:
            bad.append(({'kind': 'num_frames'}, 'num_frames != %d' % n_model))
    return bad


# ------------------------------------------------------------------------------------------------
# enumeration
# ------------------------------------------------------------------------------------------------
def ch(name, code, dims, copy=0):
    d = {'name': name, 'code': code, 'dims': list(dims)}
    if copy:
        d['copy'] = copy
    return d


def configs_V():
    for code in NUM_CODES:
        yield [ch('X', code, [1])]
    for xcode in NUM_CODES:
        for code in NUM_CODES:
            for dims in DIMS:
                yield [ch('X', xcode, [1]), ch('A', code, dims)]
    for i, (code, dims) in enumerate(itertools.product(NUM_CODES, DIMS)):
        other = NUM_CODES[(i * 3 + 1) % len(NUM_CODES)]
        yield [ch('X', 7, [1]), ch('A', code, dims), ch('B', other, DIMS[(i + 1) % 3])]


def all_selections(n, maxn):
    yield None
    rng = [None] + list(range(-n, n + 2))
    for a, b, s in itertools.product(rng, rng, [None] + list(range(1, n + 1)) + list(range(-1, -n - 1, -1))):
        if list(range(n))[slice(a, b, s)]:
            yield ['slice', a, b, s]
    for k in range(1, n + 2):
        yield ['sample', k]


def channel_sets(chans):
    names = [c['name'] for c in chans[1:]]
    yield None
    for r in range(len(names) + 1):
        for sub in itertools.combinations(names, r):
            yield list(sub)
    yield ['NOPE']
    # as many (and more) names as the frame type has channels, not all of them its own: one selection is handed to every frame type
    yield ['NOPE', 'NOPE2', 'NOPE3'][:len(chans)]
    yield ['NOPE', 'NOPE2', 'NOPE3', 'NOPE4']
    if names:
        yield [names[0], 'NOPE']
        yield [names[0], 'NOPE', 'NOPE2']


def run_ops(lp, ops, res, shape):
    """Depth-1 exploration: every op on a fresh index (plus index check once)."""
    s0 = bfs.make_or_violation(lambda: System(lp), res, {'lp': lp}, 'indexing a conformant file')
    if s0 is None:
        return
    for sig, msg in check_index(s0):
        res.violate(sig, {'lp': lp, 'history': []}, msg)
    system = s0
    used = False
    for op in ops:
        if used:
            system = System(lp)
        bad = step(system, op, True)
        used = True
        arrays = [np.asarray(c.array).tobytes() for fa in system.lf.log_pass.frame_arrays for c in fa.channels]
        trivial = op[2] is None and op[3] is None and len(lp['types']) == 1
        res.case(h64((repr(lp), repr(op))), nontrivial=not trivial, outcome=h64(repr(arrays)),
                 sample={'lp': lp, 'op': op} if res.evaluations % 5000 == 17 else None)
        res.count('populate_' + shape)
        res.traces += 1
        for sig, msg in bad:
            res.violate(sig, {'lp': lp, 'history': [op]}, msg)


def gen_V(tier):
    ns = [1, 3] if tier == 'quick' else [1, 3, 5]
    for cfg in configs_V():
        for n in ns:
            for layout in ('one', 'split'):
                if layout == 'split' and n != 3:
                    continue
                lp = {'types': [{'name': 'FT0', 'channels': cfg, 'n': n}], 'layout': layout}
                sels = [None, ['slice', 1, None, 2], ['slice', None, None, 2], ['sample', 2]]
                sels = [s for s in sels if s is None or s[0] == 'sample' or list(range(n))[slice(s[1], s[2], s[3])]]
                ops = [['populate', 0, s, cs] for s in sels for cs in channel_sets(cfg)]
                yield lp, ops
                if len(cfg) > 1 and n == 3 and layout == 'one':
                    # the CHANNEL set defines the channels in another order than the FRAME lists them
                    for order in ('reversed', 'rotated'):
                        yield dict(lp, chan_order=order), ops


def gen_S(tier):
    maxn = 4 if tier == 'quick' else 6
    cfgs = [[ch('X', 7, [1]), ch('A', 2, [1])],
            [ch('X', 14, [1]), ch('A', 16, [3]), ch('B', 5, [1])],
            [ch('X', 2, [1]), ch('A', 12, [2, 2]), ch('B', 7, [1])]]
    for cfg in cfgs:
        for n in range(1, maxn + 1):
            lp = {'types': [{'name': 'FT0', 'channels': cfg, 'n': n}], 'layout': 'one'}
            csets = [None, [], [cfg[1]['name']], ['NOPE']]
            ops = [['populate', 0, s, cs] for s in all_selections(n, maxn) for cs in csets]
            yield lp, ops


def gen_N(tier):
    """Recorded frame numbers that straddle the UVARI size boundaries 127/128 and 16383/16384 (the frame number is a
    variable length integer in front of the frame data)."""
    cfgs = [[ch('X', 7, [1]), ch('A', 13, [3])], [ch('X', 2, [1]), ch('A', 12, [2, 2]), ch('B', 7, [1])]]
    for cfg in cfgs:
        for number0 in (126, 16382, 1):
            for n in (4, 5):
                lp = {'types': [{'name': 'FT0', 'channels': cfg, 'n': n}], 'layout': 'one', 'number0': number0}
                csets = [None, [], [cfg[1]['name']]]
                ops = [['populate', 0, s, cs] for s in all_selections(n, n) for cs in csets]
                yield lp, ops


def interleavings(n0, n1):
    for pos in itertools.combinations(range(n0 + n1), n0):
        yield [0 if i in pos else 1 for i in range(n0 + n1)]


def gen_I(tier):
    maxtot = 5 if tier == 'quick' else 6
    t0 = [ch('X', 7, [1]), ch('A', 13, [3])]
    t1 = [ch('TIME', 17, [1]), ch('X', 2, [1], copy=1), ch('B', 6, [2, 2])]   # second type holds the first one's index name as a channel
    for n0, n1 in itertools.product(range(1, 4), repeat=2):
        if n0 + n1 > maxtot:
            continue
        for order in interleavings(n0, n1):
            for empty_at in [None] + list(range(n0 + n1 + 1)):
                for layout in ('one', 'split'):
                    if layout == 'split' and empty_at not in (None, 1):
                        continue
                    lp = {'types': [{'name': 'FT0', 'channels': t0, 'n': n0}, {'name': 'FT1', 'channels': t1, 'n': n1}],
                          'order': order, 'empty_at': empty_at, 'layout': layout}
                    ops = [['populate', 0, None, None], ['populate', 1, None, None], ['populate', 1, ['slice', None, None, 2], ['B']],
                           ['populate', 0, ['sample', 2], []]]
                    yield lp, ops


H_SELS = [None, ['slice', 1, None, None], ['slice', None, None, 2], ['slice', 0, 1, None], ['sample', 2], ['slice', -1, None, None]]


def gen_H(tier):
    t0 = [ch('X', 7, [1]), ch('A', 13, [3]), ch('B', 2, [1])]
    t1 = [ch('TIME', 17, [1]), ch('X', 2, [1], copy=1), ch('C', 5, [2, 2])]     # the first type's index name is an ordinary channel here
    for n0, n1, layout in [(3, 2, 'one'), (4, 3, 'split'), (2, 2, 'one')]:
        for setmode in ('kept', 'edited', 'list'):
            lp = {'types': [{'name': 'FT0', 'channels': t0, 'n': n0}, {'name': 'FT1', 'channels': t1, 'n': n1}],
                  'order': list(itertools.islice(itertools.cycle([0, 1]), 2 * min(n0, n1))) + [0] * (n0 - min(n0, n1)) + [1] * (n1 - min(n0, n1)),
                  'layout': layout, 'setmode': setmode}
            yield lp


def h_menu(lp):
    ops = []
    for ti, t in enumerate(lp['types']):
        names = [c['name'] for c in t['channels'][1:]]
        for sel in H_SELS:
            for cs in (None, [], names[:1], ['NOPE']) + ((names,) if lp.get('setmode') == 'list' else ()):
                ops.append(['populate', ti, sel, cs])
    return ops


def shards(tier):
    nv = sum(1 for _ in gen_V(tier))
    out = [{'gen': 'V', 'part': p, 'of': 48} for p in range(48)]
    out += [{'gen': 'S', 'part': p, 'of': 12} for p in range(12)]
    out += [{'gen': 'I', 'part': p, 'of': 24} for p in range(24)]
    out += [{'gen': 'N', 'part': p, 'of': 12} for p in range(12)]
    out += [{'gen': 'H', 'part': p, 'of': 6} for p in range(6)]
    return out


def run_shard(shard, tier):
    res = Result()
    g = shard['gen']
    if g == 'H':
        depth = 2 if tier == 'quick' else 3
        for i, lp in enumerate(gen_H(tier)):
            if i % shard['of'] != shard['part']:
                continue
            menu = h_menu(lp)
            st, tr, closed = bfs.search(lambda: System(lp), lambda s: menu, step, System.canon, depth, res, {'lp': lp})
            res.case(h64(repr(lp)), nontrivial=True, outcome=h64((st, tr)),
                     sample={'lp': lp, 'states': st, 'transitions': tr, 'frontier_closed': closed, 'menu_size': len(menu)})
        return res
    gen = {'V': gen_V, 'S': gen_S, 'I': gen_I, 'N': gen_N}[g](tier)
    for i, (lp, ops) in enumerate(gen):
        if i % shard['of'] != shard['part']:
            continue
        run_ops(lp, ops, res, g)
        res.states += 1
        res.transitions += len(ops)
    return res


def replay(case):
    lp = case['lp']
    try:
        s0 = System(lp)
    except Exception as err:  # noqa
        if not bfs.library_raised(err):
            raise
        return [{'sig': {'kind': 'construction_raises', 'exc': type(err).__name__}, 'case': case,
                 'msg': 'indexing a conformant file raised %s: %s' % (type(err).__name__, err)}]
    bad = check_index(s0) if not case.get('history') else []
    bad += bfs.replay_history(lambda: System(lp), step, case.get('history', []))
    return [{'sig': s, 'case': case, 'msg': m} for s, m in bad]
