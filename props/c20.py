"""C20 - File type identification recognises every supported format and never crashes.

Two legs, one evidence file (level of the weaker leg, fault enumeration):

* valid files: files of every supported format written by the independent producers of C01 (RP66V1), C06 (LIS plain /
  TIF / reversed TIF), C09 (LAS 1.2 / 2.0), C13 (BIT) and C14 (DAT) in their layouts and at several sizes have to be
  identified as their own format;
* any bytes (E3 environment enumeration): every truncation and every single-byte substitution (damage alphabet of
  DESIGN.md 2.3, widened: the 7 value alphabet does not reach the length and code values that break the LIS reader) of
  small valid files of every format, every uniform file and two-byte alternations at the sizes that sit on the
  thresholds of the signature tests, and a corpus of minimal degenerate files.  Oracle: the answer is a documented
  type code or '', nothing is raised, the file object is back at offset 0 and the number of file operations stays
  inside the budget c*(len+1).

The subject is `TotalDepth.util.bin_file_type.binary_file_type(fobj)` on a counting BytesIO.
"""
import io
import os
import signal
from mc import seams
import traceback

from mc.run import Result, h64
from mc.seams import CountingBytesIO, BudgetExceeded

ID = 'C20'
LEVEL = 'fault_enumeration'
NEEDS_EXT = True
ENGINE = 'E3 environment enumeration'
DESIGN_REF = 'DESIGN.md section 4, C20; section 2.3 (damage alphabet); section 5 F1, F18, F19, F22'
TECHNIQUE = ('bounded exhaustive enumeration of valid files of every format (independent producers x layouts x sizes) and of '
             'damaged / degenerate byte strings (all truncations, single-byte substitutions, uniform '
             'and two-byte alternating files at threshold sizes), each identified by the real function on a counting file object')
SINGLE_OUTCOME_OK = False
OPS_C = 2048
HANG_SECONDS = 120
BOUNDS = {
    'quick': 'valid: RP66V1 all 896 label spellings x 3 body sizes + every 37th single-record layout + every 41st multi-record '
             'layout; LIS: the 200 record sequences of C06 part I x {plain 65535, plain 40, TIF 64, TIF 65535, reversed TIF 64, '
             'reversed TIF 65535} x frames {1, 7, 40}; LAS: 44 content shapes of C09 + 40-frame contents, canonical + every '
             'single layout deviation; BIT: channels {1,2,3,20} x frames 1..5 x frames/block 1..3 x 4 start/stop/spacing '
             'triples, two-pass files, frames up to 40; DAT: 1-3 extra channels, declaration orders (all / every 5th / every '
             '60th) x 4 separators x headers x rows {1, 3, 40}.  any bytes: 7 base files (RP66V1, LIS, LIS TIF, LIS reversed '
             'TIF, LAS2.0, BIT, DAT): every truncation; substitutions: all 255 other values at every header byte (first 24 '
             'bytes, RP66V1 first visible record / segment header, every LIS TIF marker, physical and logical record '
             'header), 35 values ({00,01,20,7F,80,FF} + 2..16 + 13 LIS representation codes / record types + old^40) at the first '
             '300 bytes + every 7th byte + last byte; uniform files 256 values x 13 sizes; alternations of 16 x 16 byte '
             'values x 13 sizes; a corpus of 12 minimal degenerate files',
    'thorough': 'valid: RP66V1 every 7th single-record (3 segment alphabet) and every 41st multi-record layout, all 1..9999 '
                'sequence numbers and 20..16384 lengths; LAS with <= 2 layout deviations; BIT and DAT wider alphabets; '
                'any bytes: 12 base files, all 255 other values at every byte; alternations of all 65536 pairs at sizes 12, '
                '13, 256, 3200',
}
RULE = ('valid leg: every descriptor of the stated slices of the C01/C06/C09/C13/C14 generators once (key = descriptor); '
        'any-bytes leg: full product base file x position x alphabet, byte value x size, pair x size; every case is '
        'non-trivial except the unchanged default file of a format; outcome = (format, answer or exception class)')
ASSUMPTIONS = [
    'operation budget c*(len+1) with c = %d: about 20 x the largest operations/(len+1) ratio measured on the unmodified tree '
    '(101, a one byte file: the fixed cost of 25 signature tests; valid files stay below 1 per byte); reads, readlines, '
    'seeks and line iteration steps each count as one operation' % OPS_C,
    'a loop that never touches the file cannot be seen by the operation budget; a %d s alarm per case turns it into a '
    'violation instead of a hung run (four orders of magnitude above the slowest case observed)' % HANG_SECONDS,
    'TIF-marked LIS files whose first marker says next = 0x120 (first record 276 bytes) share the BIT signature and are '
    'excluded as the property states; files whose first TIF marker reads 00 00 01 00 (reversed 0x100 / normal 0x10000) are '
    'byte-order ambiguous and excluded',
    'LIS files begin with a reel, tape or file header; DAT files have at least one data row',
    'a damaged file is not required to be identified as anything in particular',
    'after %d cases of one shard ran out of budget or time the rest of that shard is skipped (counter '
    'skipped_after_budget_violations; only happens on a tree that already fails)' % 3,
    'the producers (models/*_ref.py and the descriptors of props/c01, c06, c09, c13, c14) are trusted to write valid files',
]
LEVEL_TEXT = ('fault enumeration: every member of the stated damage space (truncations, single-byte substitutions, uniform and '
              'alternating files) is run through the real identification function; any exception, unknown answer, file position '
              'other than 0 or operation count above the budget is reported.  The valid-file leg is an exhaustive exploration '
              'of the stated slices of the producers of C01-C14, each file required to be identified as its own format.')
LEVEL_NOTE = ('trusted: the independent producers; the operation budget stands in for "promptly"; two simultaneous byte '
              'changes and insertions/deletions inside a file are not enumerated')

SUBST = [0x00, 0x01, 0x20, 0x7F, 0x80, 0xFF]
LIS_REP_CODES = [49, 50, 56, 65, 66, 68, 70, 73, 77, 79, 128, 130, 234]
SUBST_WIDE = sorted(set(SUBST) | set(range(2, 17)) | set(LIS_REP_CODES))
SUBST_CHUNK = {'quick': 1500, 'thorough': 4000}
# minimal forms of every crash class this check has found (kept so that the quick tier meets each of them directly)
_DSB = '444550545345525649444f524445522020204645455402b3603b00010004000000%02x440000000000'   # DEPT/FEET, size 4, samples %d, code 68
CORPUS = [
    '0005000080',                            # LIS: physical record holding one byte (half a logical record header)
    '000a0000408002014141',                  # LIS: format specification, entry block 2 (DSB type) given as a string
    '000d0000408002044440400000',            # LIS: format specification, entry block 2 (DSB type) given as a float
    '000900004080010141',                    # LIS: format specification cut after the three header bytes of an entry block
    '003100004080000042' + _DSB % 0,         # LIS: format specification whose only channel has samples = 0
    '003100004080000042' + _DSB % 1 + '000600000000',   # LIS: data record with no frame in it
    'c3' * 3200,                             # 40 EBCDIC cards 'CCC...'
    '000900004080010146',                    # as the 4th with representation code 70
    '00080000408001',                        # format specification cut inside an entry block header
    '000600004080',                          # format specification with nothing in it
    '00040000',                              # physical record with no payload
    '0003',                                  # half a physical record header
]
UNIFORM_SIZES = [0, 1, 4, 11, 12, 13, 80, 92, 128, 256, 288, 3200, 3300]
ALT_VALUES = [0x00, 0x01, 0x20, 0x30, 0x39, 0x41, 0x43, 0x7E, 0x7F, 0x80, 0x84, 0xC3, 0xC4, 0xF0, 0xF1, 0xFF]
ALT_FULL_SIZES = [12, 13, 256, 3200]
LIS_SIZES = [1, 7, 40]
LIS_LAYOUTS = [{'maxlen': 65535}, {'maxlen': 40}, {'maxlen': 64, 'tif': 'normal'}, {'maxlen': 65535, 'tif': 'normal'},
               {'maxlen': 64, 'tif': 'reversed'}, {'maxlen': 65535, 'tif': 'reversed'},
               # physical records padded with nulls to even / 4-byte file positions (LIS-79 2.3.1.1), plain and TIF-marked
               {'maxlen': 41, 'pad': 2}, {'maxlen': 41, 'pad': 4}, {'maxlen': 65535, 'pad': 4},
               {'maxlen': 41, 'tif': 'normal', 'pad': 2}, {'maxlen': 41, 'tif': 'normal', 'pad': 4}, {'maxlen': 65535, 'tif': 'normal', 'pad': 4},
               {'maxlen': 41, 'tif': 'reversed', 'pad': 4}]
LIS_EXPECT = {None: 'LIS', 'normal': 'LISt', 'reversed': 'LIStr'}


# =================================================================================================
# the file object
# =================================================================================================
class CountingFile(CountingBytesIO):
    """CountingBytesIO for identification: every read, readline, readlines, seek and step of `for line in fobj` (used by
    the LAS test) is one operation.  The per-read log of the base class is not kept: a looping implementation would
    otherwise fill memory before it reaches the budget."""

    def read(self, n=-1):
        self._tick()
        return io.BytesIO.read(self, n)

    def read1(self, n=-1):
        self._tick()
        return io.BytesIO.read1(self, n)

    def readinto(self, b):
        self._tick()
        return io.BytesIO.readinto(self, b)

    def readline(self, n=-1):
        self._tick()
        return io.BytesIO.readline(self, n)

    def readlines(self, hint=-1):
        self._tick()
        return io.BytesIO.readlines(self, hint)

    def __next__(self):
        self._tick()
        return io.BytesIO.__next__(self)


class Hang(BaseException):
    pass


def _on_alarm(signum, frame):
    raise Hang()


# =================================================================================================
# descriptors -> bytes
# =================================================================================================
def _lis_items(items, size_index):
    """The C06 item list with the first pass at LIS_SIZES[size_index] frames and pass content keyed by the size."""
    out = []
    first = True
    for it in items:
        if isinstance(it, str):
            out.append(it)
        else:
            spec = dict(it[1])
            if first:
                spec['n'] = LIS_SIZES[size_index]
                first = False
            out.append(['pass', spec, it[2] + size_index])
    return out


def las_big_content(vers, null, ncur, nfr):
    """A C09 content with nfr frames (index 100.0, 100.5, ...; cells cycled from the C09 columns)."""
    from props import c09
    from models import las_ref
    frames = []
    for f in range(nfr):
        row = ['%.1f' % (100.0 + 0.5 * f)]
        for c in range(1, ncur):
            row.append(c09.COLS[c][f % 3])
        frames.append(row)
    return las_ref.make_content(vers=vers, null=null, well_extra=[] if vers == '1.2' else c09.WELL_POOL[:1],
                                curves=c09.CURVE_POOL[:ncur], params=c09.PARAM_POOL[:1], frames=frames, vdesc=c09.VDESC[vers])


def valid_bytes(v):
    """Valid-file descriptor -> (bytes, expected type, excluded reason or None)."""
    fmt = v['fmt']
    if fmt == 'RP66V1':
        from props import c01
        data, _lay, _recs, _lab = c01.materialise(v['case'])
        return data, 'RP66V1', None
    if fmt == 'LIS':
        from props import c06
        items = v['items']
        assert items[0] in ('reel_head', 'tape_head', 'file_head')
        data, _lay, _info = c06.assemble(items, v['layout'])
        tif = v['layout'].get('tif')
        excluded = None
        if tif:
            if data[8:12] in (b'\x20\x01\x00\x00', b'\x00\x00\x01\x20'):
                excluded = 'first TIF marker next = 0x120 (BIT signature)'
            elif data[8:12] == b'\x00\x00\x01\x00':
                excluded = 'first TIF marker is byte-order ambiguous'
        return data, LIS_EXPECT[tif], excluded
    if fmt == 'LAS':
        from models import las_ref
        text = las_ref.render(v['content'], v['layout'])
        return text.encode('ascii'), 'LAS' + v['content']['vers'], None
    if fmt == 'BIT':
        from props import c13
        from models import bit_ref
        model = {'passes': [c13.layout_pass(p, c, f, fpb, tuple(xyz)) for p, (c, f, fpb, xyz) in enumerate(v['passes'])]}
        return bit_ref.produce(model), 'BIT', None
    if fmt == 'DAT' and 'wide' in v:
        # a mud log with many channels: the declarations alone are longer than any fixed-size look at the head of the file
        from models import dat_ref
        n, rows = v['wide'], v.get('rows', 2)
        names = ['C%03d' % i for i in range(n)]
        lines = ['UTIM Unix Time sec', 'DATE Date ddmmyy', 'TIME Time hhmmss'] + ['%s Channel number %s of the mud log unit%d' % (nm, nm, i % 7) for i, nm in enumerate(names)]
        lines.append(' '.join(['UTIM', 'DATE', 'TIME'] + names))
        for r in range(rows):
            lines.append(' '.join(['%d' % (1165665017 + r), '09-Dec-06', '11-50-%02d' % (17 + r)] + ['%d.%02d' % (i + r, i % 100) for i in range(n)]))
        text = '\n'.join(lines) + '\n'
        if not dat_ref.ref_parse(text).certain:
            raise AssertionError('reference reader does not accept the produced wide DAT text (harness error)')
        return text.encode('ascii'), 'DAT', None
    if fmt == 'DAT':
        from props import c14
        from models import dat_ref
        text, _model, _exp = c14.case_text(v['case'])
        assert len(v['case']['dv']) >= 1 and not v['case'].get('cor')
        if not dat_ref.ref_parse(text).certain:
            raise AssertionError('reference reader does not accept the produced DAT text (harness error): %r' % v)
        return text.encode('ascii'), 'DAT', None
    raise ValueError(v)


def _lis_pass(n, indirect=0):
    from props import c06
    cfg = [c06.chan('DEPT', 68, units='FEET'), c06.chan('GR  ', 68, units='GAPI'), c06.chan('SP  ', 79, 2, 1)]
    return ['pass', c06.base_spec(cfg, n, 3, indirect=indirect), 0]


_BASES = {}


def bases():
    """name -> valid-file descriptor of the small files that are damaged (QUICK_BASES / THOROUGH_BASES)."""
    if _BASES:
        return _BASES
    from props import c01, c06, c09
    label = next(iter(c01.gen_labels('quick', 0)))
    small_lis = ['file_head', _lis_pass(2), 'file_tail']
    dat4 = ['UTIM', 'DATE', 'TIME', 'WAC']
    dat6 = ['UTIM', 'DATE', 'TIME', 'WAC', 'HVMX', 'PIT1']
    b = {
        'RP66V1': {'fmt': 'RP66V1', 'case': label},
        'LIS': {'fmt': 'LIS', 'items': small_lis, 'layout': {'maxlen': 65535}},
        'LISt': {'fmt': 'LIS', 'items': small_lis, 'layout': {'maxlen': 64, 'tif': 'normal'}},
        # a depth log (X in code 68) and, in a second logical file, a time log whose one channel is a 16 bit counter written one frame per record
        'LIS79': {'fmt': 'LIS', 'items': small_lis + ['file_head', ['pass', c06.base_spec([c06.chan('TIME', 79)], 3, 1, updown=0), 1], 'file_tail'],
                  'layout': {'maxlen': 65535}},
        'LAS2.0': {'fmt': 'LAS', 'content': c09.shape_content(**c09.SMALL22), 'layout': {}},
        'BIT': {'fmt': 'BIT', 'passes': [[2, 3, 2, [100, 97, 0.5]]]},
        'DAT': {'fmt': 'DAT', 'case': {'pool': 0, 'decl': dat4, 'sep': 0, 'hdr': dat4, 'dv': [0, 5]}},
        # thorough only
        'RP66V1m': {'fmt': 'RP66V1', 'case': {'shape': 'B', 'recs': [c01.rec_variant((True, 0), 13, 'tails'),
                                                                    c01.rec_variant((False, 127), 28, 'splitvr')]}},
        'LISr': {'fmt': 'LIS', 'items': small_lis, 'layout': {'maxlen': 65535, 'tif': 'reversed'}},
        'LISreel': {'fmt': 'LIS', 'items': ['reel_head', 'tape_head', 'file_head', 'cons', _lis_pass(1, 68), 'file_tail',
                                            'tape_tail', 'reel_tail'], 'layout': {'maxlen': 65535}},
        'LAS1.2': {'fmt': 'LAS', 'content': c09.shape_content(vers='1.2', null='-999.25', ncur=2, nfr=1, nextra=0, nparam=None),
                   'layout': {'titles': 'short'}},
        'BIT2': {'fmt': 'BIT', 'passes': [[1, 1, 1, [100, 97, 0.5]], [3, 2, 1, [97, 100, 0.25]]]},
        'DAT6': {'fmt': 'DAT', 'case': {'pool': 0, 'decl': dat6, 'sep': 1, 'hdr': dat6, 'dv': [3]}},
    }
    _BASES.update(b)
    return _BASES


QUICK_BASES = ['RP66V1', 'LIS', 'LISt', 'LISr', 'LIS79', 'LAS2.0', 'BIT', 'DAT']
THOROUGH_BASES = QUICK_BASES + ['RP66V1m', 'LISreel', 'LAS1.2', 'BIT2', 'DAT6']

_BASE_BYTES = {}


def base_bytes(name):
    if name not in _BASE_BYTES:
        data, _exp, excluded = valid_bytes(bases()[name])
        assert excluded is None
        _BASE_BYTES[name] = data
    return _BASE_BYTES[name]


def alternation(a, b, n):
    return (bytes([a, b]) * (n // 2 + 1))[:n]


def case_bytes(case):
    """Case descriptor -> (bytes, expected type or None, excluded reason or None)."""
    k = case['k']
    if k == 'valid':
        return valid_bytes(case['v'])
    if k == 'trunc':
        return base_bytes(case['base'])[:case['i']], None, None
    if k == 'subst':
        by = bytearray(base_bytes(case['base']))
        by[case['i']] = case['b']
        return bytes(by), None, None
    if k == 'uniform':
        return bytes([case['b']]) * case['n'], None, None
    if k == 'alt':
        return alternation(case['a'], case['b'], case['n']), None, None
    if k == 'hex':
        return bytes.fromhex(case['hex']), None, None
    raise ValueError(case)


# =================================================================================================
# the single-case oracle
# =================================================================================================
def _library_frame(exc):
    """(module base name, qualified function name, function name, all library function names) of the innermost
    traceback frame inside TotalDepth (Python or Cython source) that is not a representation code decoder."""
    lib = []
    tb = exc.__traceback__
    while tb is not None:
        code = tb.tb_frame.f_code
        if 'TotalDepth' in code.co_filename or code.co_filename.endswith('.pyx'):
            lib.append((code.co_filename, getattr(code, 'co_qualname', code.co_name), code.co_name))
        tb = tb.tb_next
    names = [n for _f, _q, n in lib]
    if not lib:
        return 'outside', '?', '?', names

    def module(filename):
        mod = filename.replace('\\', '/').rsplit('/', 1)[-1]
        for suffix in ('.py', '.pyx'):
            if mod.endswith(suffix):
                mod = mod[:-len(suffix)]
        return mod

    # the number decoders are leaves called with whatever the caller read: name the caller, so that one defect has one
    # signature whichever representation code the damaged file happens to use
    callers = [f for f in lib if module(f[0]) not in ('RepCode', 'pRepCode', 'cRepCode', 'cpRepCode')] or lib
    filename, qual, name = callers[-1]
    return module(filename), qual, name, names


def classify_exception(exc, data):
    """Violation signature for an exception that escaped binary_file_type: exception class + innermost library function;
    the three registered / anticipated classes get their fixed names."""
    name = type(exc).__name__
    if type(exc).__module__ not in ('builtins', 'exceptions'):
        name = type(exc).__module__ + '.' + name
    mod, qual, fn, names = _library_frame(exc)
    where = '%s.%s' % (mod, qual)
    if name == 'ValueError' and mod == 'SEGY':
        where = 'segy'
    elif name == 'ZeroDivisionError' and mod == 'LogiRec' and fn == '_setBurstsSubChannels':
        where = 'lis_dsb_zero_samples'
    elif name == 'OverflowError' and any('70' in n for n in names):
        where = 'repcode70'
    return {'kind': 'identify_raises', 'exc': name, 'where': where}


def _show(data):
    hx = data.hex()
    if len(hx) > 1200:
        hx = hx[:1200] + '... (%d bytes)' % len(data)
    return hx


_REUSED = None
_PREV_DATA = None


def identify(data):
    """Run the real function.  Returns (answer or None, exception or None, file object)."""
    from TotalDepth.util import bin_file_type
    fobj = CountingFile(data, budget=OPS_C * (len(data) + 1))
    old = signal.signal(signal.SIGALRM, _on_alarm)
    signal.alarm(HANG_SECONDS)
    try:
        try:
            return bin_file_type.binary_file_type(fobj), None, fobj
        except Hang as err:
            return None, err, fobj
        except Exception as err:  # noqa  anything escaping is judged below
            return None, err, fobj
    finally:
        signal.alarm(0)
        signal.signal(signal.SIGALRM, old)


def check_bytes(data, expected=None, fmt=None):
    """The oracle.  Returns ([(sig, msg)], outcome)."""
    from TotalDepth.util import bin_file_type
    got, exc, fobj = identify(data)
    bad = []
    budget = fobj.budget
    over = fobj.ops > budget
    if isinstance(exc, Hang):
        bad.append(({'kind': 'identify_hangs'}, 'no answer after %d s (%d file operations so far)' % (HANG_SECONDS, fobj.ops)))
        outcome = ('hang',)
    elif isinstance(exc, BudgetExceeded) or (over and exc is not None):
        outcome = ('budget',)
    elif exc is not None:
        sig = classify_exception(exc, data)
        tb = ''.join(traceback.format_exception(type(exc), exc, exc.__traceback__)[-3:])
        bad.append((sig, 'binary_file_type raised %s: %s\n%s' % (type(exc).__name__, exc, tb.strip())))
        outcome = ('raise', sig['exc'], sig['where'])
    else:
        outcome = ('type', got)
        if not isinstance(got, str) or (got != '' and got not in bin_file_type.BINARY_FILE_TYPES_SUPPORTED):
            bad.append(({'kind': 'undocumented_answer', 'got': repr(got)}, 'binary_file_type returned %r' % (got,)))
        pos = fobj.tell()
        if pos != 0:
            bad.append(({'kind': 'not_rewound', 'got': str(got)}, 'answer %r but the file is left at offset %d' % (got, pos)))
        if expected is not None and got != expected:
            bad.append(({'kind': 'valid_not_recognised', 'format': fmt or expected, 'got': str(got)},
                        'valid %s file identified as %r' % (expected, got)))
        if expected is not None:
            # the batch tools ask through the path entry point; one scratch path is reused for every case of this process,
            # so an answer remembered per path (rather than per content) shows up
            path = os.path.join(seams.SCRATCH, 'c20-%d.bin' % os.getpid())
            try:
                os.makedirs(seams.SCRATCH, exist_ok=True)
                with open(path, 'wb') as f:
                    f.write(data)
                seams.pin_times(path)
                by_path = bin_file_type.binary_file_type_from_path(path)
            except Exception as err:  # noqa
                by_path = 'raised %s' % type(err).__name__
            finally:
                try:
                    os.remove(path)
                except OSError:
                    pass
            # ... and through ONE stream object that the caller refills for every file (the same object, other content): an
            # answer remembered per object rather than per content shows up, whatever the allocator does with fresh objects
            global _REUSED, _PREV_DATA
            if _REUSED is None:
                _REUSED = io.BytesIO()
            by_obj = None
            for blob in ((_PREV_DATA, data) if _PREV_DATA is not None else (data,)):     # the previous file's bytes, then this file's, back to back
                _REUSED.seek(0)
                _REUSED.truncate()
                _REUSED.write(blob)
                _REUSED.seek(0)
                try:
                    by_obj = bin_file_type.binary_file_type(_REUSED)
                except Exception as err:  # noqa
                    by_obj = 'raised %s' % type(err).__name__
            _PREV_DATA = data
            if by_obj != got:
                bad.append(({'kind': 'reused_stream_object_differs', 'format': fmt or expected},
                            'binary_file_type() on a refilled stream object answers %r, on a fresh one %r' % (by_obj, got)))
            if by_path != got:
                bad.append(({'kind': 'path_entry_point_differs', 'format': fmt or expected},
                            'binary_file_type_from_path() answers %r, binary_file_type() on the same bytes %r' % (by_path, got)))
    if over:
        bad.append(({'kind': 'operation_budget_exceeded'},
                    '%d+ file operations on %d bytes, budget %d*(len+1) = %d' % (fobj.ops, len(data), OPS_C, budget)))
    return bad, outcome


def check_case(case):
    """-> ([(sig, msg)], outcome, excluded)"""
    data, expected, excluded = case_bytes(case)
    if excluded:
        return [], ('excluded',), excluded
    bad, outcome = check_bytes(data, expected, expected)
    shown = repr(case)
    head = 'case %s, %d bytes: ' % (shown if len(shown) <= 500 else shown[:500] + '...', len(data))
    return [(sig, head + msg + '\nbytes: ' + _show(data)) for sig, msg in bad], outcome, None


# =================================================================================================
# enumeration
# =================================================================================================
def header_positions(name):
    """The bytes of a base file that are headers / lengths: the first 24 bytes of every file (TIF marker, first record
    header, label numbers, first text line), the first visible record and segment header of RP66V1 and, for LIS, every TIF
    marker, physical record header and logical record header."""
    data = base_bytes(name)
    pos = set(range(min(24, len(data))))
    v = bases()[name]
    if v['fmt'] == 'RP66V1':
        pos |= set(range(80, min(92, len(data))))
    if v['fmt'] == 'LIS':
        from props import c06
        _data, lay, _info = c06.assemble(v['items'], v['layout'])
        for rec in lay.records:
            for n, (start, hdr, _total, payload, _plen) in enumerate(rec['prs']):
                pos |= set(range(start, hdr + 4))
                if n == 0:
                    pos |= {payload, payload + 1}
        pos |= set(range(lay.eof_pos, len(data)))
    return pos


def subst_cases(name, tier):
    """Canonical list of (position, new byte) for one base file.
    thorough: every position x every other byte value.
    quick: header positions x every other byte value; the other structural positions (first 300 bytes, every 7th byte,
    last byte) x the wide alphabet (design alphabet + small counts + LIS representation codes)."""
    data = base_bytes(name)
    n = len(data)
    out = []
    if tier != 'quick':
        for i in range(n):
            out += [(i, b) for b in _ordered_values(data[i], range(256))]
        return out
    heads = header_positions(name)
    structural = set(range(min(300, n))) | set(range(0, n, 7)) | ({n - 1} if n else set())
    for i in sorted(heads | structural):
        out += [(i, b) for b in _ordered_values(data[i], range(256) if i in heads else SUBST_WIDE)]
    return out


def _ordered_values(old, pool):
    """Design alphabet first (simplest counterexample first), then the rest of the pool ascending; never the old value."""
    pool = set(pool)
    out = []
    for b in SUBST + [old ^ 0x40] + sorted(pool):
        if b != old and b not in out:
            out.append(b)
    return out


def _lis_item_lists():
    from props import c06
    seen = set()
    out = []
    # the smallest LIS files: nothing but header / trailer records (a single physical record at the least)
    small = [['file_head'], ['tape_head'], ['reel_head'], ['reel_head', 'tape_head'], ['file_head', 'file_tail'],
             ['reel_head', 'tape_head', 'file_head', 'file_tail', 'tape_tail', 'reel_tail'], ['file_head', 'cons', 'file_tail']]
    # two log passes whose frame sizes do not divide each other's records (both orders), and a normal + alternate data pair
    pa = c06.base_spec([c06.chan('DEPT', 68), c06.chan('GR  ', 68)], 4, 2)
    pb = c06.base_spec([c06.chan('DEPT', 68), c06.chan('GR  ', 68), c06.chan('CALI', 68)], 3, 1, updown=1)
    pt = c06.base_spec([c06.chan('TIME', 68), c06.chan('TENS', 73), c06.chan('CALI', 68)], 3, 1, dtype=1, x0=50)
    small += [['file_head', ['pass', pa, 0], 'file_tail', 'file_head', ['pass', pb, 1], 'file_tail'],
              ['file_head', ['pass', pb, 1], 'file_tail', 'file_head', ['pass', pa, 0], 'file_tail'],
              ['file_head', ['pair', pa, 0, pt, 1, 'ABAB'], 'file_tail']]
    # X axes of different widths in one file: a depth log (four byte X) and a time log whose one channel is a 16 bit counter, one frame per record
    p79 = c06.base_spec([c06.chan('TIME', 79)], 3, 1, updown=0)
    small += [['file_head', ['pass', pa, 0], 'file_tail', 'file_head', ['pass', p79, 1], 'file_tail'],
              ['file_head', ['pass', p79, 1], 'file_tail', 'file_head', ['pass', pa, 0], 'file_tail']]
    # logs whose first frame is at X = 0 (a log from surface, a time log from the start of the clock): a zero is a value like any other
    for xch in (c06.chan('DEPT', 68), c06.chan('TIME', 73), c06.chan('TIME', 79)):
        for updown in (1, 255):
            p0 = c06.base_spec([xch, c06.chan('GR  ', 68)], 4, 2, x0=0, updown=updown)
            small += [['file_head', ['pass', p0, 0], 'file_tail'], ['file_head', ['pass', p0, 0], 'file_tail', 'file_head', ['pass', pa, 1], 'file_tail']]
    for items in small + [it for it, _layout, _ops in c06.gen_I('quick')]:
        key = repr(items)
        if key not in seen:
            seen.add(key)
            out.append(items)
    return out


def _las_contents(tier):
    from props import c09
    out = [('shape', i) for i in range(len(c09.shape_list()))]
    for vers in ('2.0', '1.2'):
        for null in ('-999.25', '-9999'):
            for ncur in (1, 3):
                out.append(('big', vers, null, ncur, 40))
    if tier != 'quick':
        out += [('big', '2.0', '-9999', 2, 7), ('big', '1.2', '-999.25', 2, 7)]
    return out


def _bit_tier(tier):
    if tier == 'quick':
        return {'channels': [1, 2, 3, 20], 'frames': [1, 2, 3, 4, 5], 'fpb': [1, 2, 3],
                'xyz': [[100, 97, 0.5], [97, 100, 0.25], [0.25, 0.5, 0.25], [100, 0.5, 97]]}
    return {'channels': [1, 2, 3, 4, 19, 20], 'frames': [1, 2, 3, 4, 5, 6, 7], 'fpb': [1, 2, 3, 4],
            'xyz': [[100, 97, 0.5], [97, 100, 0.25], [0.25, 0.5, 0.25], [100, 0.5, 97], [1000.125, 100, 0.5], [0.5, 100, 0.5]]}


DAT_ROWS = [1, 3, 40]


def shards(tier):
    out = []
    # ---- valid files
    nl = 8 if tier == 'quick' else 16
    for p in range(nl):
        out.append({'part': 'rp66_labels', 'p': p, 'of': nl})
    from props import c01
    for eflr, typ in c01.KINDS:
        big = tier != 'quick' and (eflr, typ) in ((True, 0), (False, 127))
        for off in range(8 if big else 1):
            out.append({'part': 'rp66_single', 'eflr': int(eflr), 'type': typ,
                        'stride': (56 if big else 7) if tier != 'quick' else 37, 'off': off * 7})
    for eflr, typ in [(True, 0), (False, 0), (False, 127), (True, 255)]:
        for L in [0, 1, 12, 13, 28]:
            out.append({'part': 'rp66_multi', 'eflr': int(eflr), 'type': typ, 'L': L, 'stride': 41})
    for p in range(40):
        out.append({'part': 'lis', 'p': p, 'of': 40})
    for c in _las_contents(tier):
        out.append({'part': 'las', 'content': list(c)})
    t = _bit_tier(tier)
    for c in t['channels']:
        out.append({'part': 'bit', 'c': c})
    out.append({'part': 'bit_big'})
    for pool in ([0] if tier == 'quick' else [0, 1]):
        for k in (1, 2, 3):
            for sep in range(4):
                out.append({'part': 'dat', 'pool': pool, 'k': k, 'sep': sep})
    # ---- any bytes
    names = QUICK_BASES if tier == 'quick' else THOROUGH_BASES
    for name in names:
        out.append({'part': 'trunc', 'base': name})
        total = len(subst_cases(name, tier))
        chunk = SUBST_CHUNK[tier]
        for lo in range(0, total, chunk):
            out.append({'part': 'subst', 'base': name, 'lo': lo, 'hi': min(total, lo + chunk)})
    out.append({'part': 'corpus'})
    for n in UNIFORM_SIZES:
        out.append({'part': 'uniform', 'n': n})
    for n in UNIFORM_SIZES:
        out.append({'part': 'alt', 'n': n})
    if tier != 'quick':
        for n in ALT_FULL_SIZES:
            for a in range(0, 256, 8):
                out.append({'part': 'alt_full', 'n': n, 'a_lo': a, 'a_hi': a + 8})
    return out


MAX_SLOW_CASES_PER_SHARD = 3


def _run(res, case, nontrivial=True, sample=False):
    if res.counters.get('budget_or_hang_cases', 0) >= MAX_SLOW_CASES_PER_SHARD:
        # only on a failing tree: each such case costs up to the whole budget, three per shard are enough to report it
        res.count('skipped_after_budget_violations')
        return
    bad, outcome, excluded = check_case(case)
    if outcome[0] in ('budget', 'hang'):
        res.count('budget_or_hang_cases')
    if excluded:
        res.count('excluded_' + ('bit_signature' if 'BIT' in excluded else 'ambiguous_tif'))
        return
    fmt = case['v']['fmt'] if case['k'] == 'valid' else case['k']
    res.case(h64(repr(case)), nontrivial=nontrivial, outcome=(fmt,) + tuple(outcome), sample=case if sample else None)
    if case['k'] == 'valid':
        res.count('valid_' + outcome[-1] if outcome[0] == 'type' and outcome[-1] else 'valid_unidentified')
    else:
        res.count('bytes_' + case['k'])
        res.count('answer_' + ((outcome[1] or 'none') if outcome[0] == 'type' else outcome[0]))
    for sig, msg in bad:
        res.violate(sig, case, msg)


def _valid(v):
    return {'k': 'valid', 'v': v}


def _caller_keeps_a_scan_result():
    """A caller that scans a file for its padding (as ScanPhysRec does) and then prunes the result it was given: nothing of that
    may show in later identifications."""
    from TotalDepth.LIS.core import File
    try:
        for blob in (base_bytes('LIS'), b'not a LIS file at all, just text\n' * 4):
            got = File.scan_file_with_different_padding(io.BytesIO(blob), True)
            if isinstance(got, dict):
                got.clear()
    except Exception:  # noqa  (the scan itself is not what C20 is about)
        pass


def run_shard(shard, tier):
    res = Result()
    _caller_keeps_a_scan_result()
    part = shard['part']
    if part == 'rp66_labels':
        from props import c01
        extra = {'eflr': 0, 'type': 127, 'L': 61, 'lb': 'coded'}
        if tier == 'quick':
            gen = [c for i, c in enumerate(c01.gen_labels('quick', 0)) if i % shard['of'] == shard['p']]
        else:
            gen = c01.gen_labels('thorough', shard['p'])
        for i, case in enumerate(gen):
            body = case['recs'][0]
            for size, recs in enumerate(([body], [body, extra], [body, extra, dict(extra, L=28), dict(body)])):
                if tier != 'quick' and size and i % 16:
                    continue
                _run(res, _valid({'fmt': 'RP66V1', 'case': dict(case, recs=recs)}), sample=(i == 40 and size == 1))
    elif part == 'rp66_single':
        from props import c01
        gen = c01.gen_single(tier, bool(shard['eflr']), shard['type'])
        for i, case in enumerate(gen):
            if i % shard['stride'] == shard['off']:
                _run(res, _valid({'fmt': 'RP66V1', 'case': case}))
    elif part == 'rp66_multi':
        from props import c01
        gen = c01.gen_multi(tier, (bool(shard['eflr']), shard['type']), shard['L'])
        for i, case in enumerate(gen):
            if i % shard['stride'] == 0:
                _run(res, _valid({'fmt': 'RP66V1', 'case': case}))
    elif part == 'lis':
        for i, items in enumerate(_lis_item_lists()):
            if i % shard['of'] != shard['p']:
                continue
            for size in range(len(LIS_SIZES)):
                sized = _lis_items(items, size)
                for layout in LIS_LAYOUTS:
                    _run(res, _valid({'fmt': 'LIS', 'items': sized, 'layout': layout}),
                         sample=(i == 7 and size == 0 and layout.get('tif') == 'reversed'))
    elif part == 'las':
        from props import c09
        from models import las_ref
        c = shard['content']
        if c[0] == 'shape':
            content = c09.shape_content(**c09.shape_list()[c[1]])
        else:
            content = las_big_content(c[1], c[2], c[3], c[4])
        depth = 1 if (tier == 'quick' or c[0] == 'big') else 2
        for i, layout in enumerate(las_ref.layouts_upto(content, depth)):
            _run(res, _valid({'fmt': 'LAS', 'content': content, 'layout': layout}), nontrivial=bool(layout) or c != ['shape', 0],
                 sample=(i == 30 and c == ['shape', 5]))
    elif part == 'bit':
        t = _bit_tier(tier)
        c = shard['c']
        for f in t['frames']:
            for fpb in t['fpb']:
                for xyz in t['xyz']:
                    _run(res, _valid({'fmt': 'BIT', 'passes': [[c, f, fpb, xyz]]}), sample=(c == 2 and f == 3 and fpb == 2))
                # two passes: this one followed by each channel count
                for c2 in t['channels']:
                    for f2 in (1, t['frames'][-1]):
                        _run(res, _valid({'fmt': 'BIT', 'passes': [[c, f, fpb, t['xyz'][0]], [c2, f2, 2, t['xyz'][1]]]}))
    elif part == 'bit_big':
        for c in (1, 10, 20):
            for f in (16, 17, 33, 40):
                for fpb in (8, 16, 17, 32):
                    _run(res, _valid({'fmt': 'BIT', 'passes': [[c, f, fpb, [100, 97, 0.25]]]}))
    elif part == 'dat':
        import itertools
        from props import c14
        pool, k, sep = shard['pool'], shard['k'], shard['sep']
        if (pool, k, sep) == (0, 1, 0):
            for wide in (60, 100, 140, 420):
                for rows in (1, 3):
                    _run(res, _valid({'fmt': 'DAT', 'wide': wide, 'rows': rows}))
        names = c14._names(pool, k)
        perms = list(itertools.permutations(range(len(names))))
        stride = {1: 1, 2: 5, 3: 60}[k] if tier == 'quick' else {1: 1, 2: 1, 3: 12}[k]
        hdrs = c14.headers(names[3:])
        for pi in range(0, len(perms), stride):
            decl = [names[i] for i in perms[pi]]
            for hi, hdr in enumerate(hdrs):
                for rows in DAT_ROWS:
                    start = (pi + hi + sep) % c14.NDATE
                    dv = [(start + 5 * i) % c14.NDATE for i in range(rows)]
                    _run(res, _valid({'fmt': 'DAT', 'case': {'pool': pool, 'decl': decl, 'sep': sep, 'hdr': hdr, 'dv': dv}}),
                         sample=(pi == 0 and hi == 0 and rows == 3))
    elif part == 'trunc':
        name = shard['base']
        n = len(base_bytes(name))
        for i in range(n):
            _run(res, {'k': 'trunc', 'base': name, 'i': i}, sample=(i == 81))
    elif part == 'subst':
        name = shard['base']
        for i, b in subst_cases(name, tier)[shard['lo']:shard['hi']]:
            _run(res, {'k': 'subst', 'base': name, 'i': i, 'b': b}, sample=(i == 9 and b == 0xFF))
    elif part == 'corpus':
        for hx in CORPUS:
            _run(res, {'k': 'hex', 'hex': hx})
    elif part == 'uniform':
        for b in (range(256) if shard['n'] else [0]):     # the empty file once
            _run(res, {'k': 'uniform', 'b': b, 'n': shard['n']})
    elif part == 'alt':
        n = shard['n']
        for a in ALT_VALUES:
            for b in ALT_VALUES:
                if a != b and n >= 2:
                    _run(res, {'k': 'alt', 'a': a, 'b': b, 'n': n})
    elif part == 'alt_full':
        n = shard['n']
        for a in range(shard['a_lo'], shard['a_hi']):
            for b in range(256):
                if a != b:
                    _run(res, {'k': 'alt', 'a': a, 'b': b, 'n': n})
    else:
        raise ValueError(shard)
    return res


def replay(case):
    bad, _outcome, _excluded = check_case(case)
    return [{'sig': sig, 'case': case, 'msg': msg} for sig, msg in bad]
