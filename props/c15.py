"""C15 - Frame slice and sample selectors select what they say.  Exhaustive small-scope enumeration."""
import itertools

from mc.run import Result

ID = 'C15'
LEVEL = 'exploration'
DESIGN_REF = 'DESIGN.md section 4, C15'
SINGLE_OUTCOME_OK = False
BOUNDS = {
    'quick': 'N=16: all n in 0..16, start/stop in {None,-16..16}, step in {None,1..16}; Sample(k) k in 1..34, n in 0..32; '
             'option strings: all sequences of <=4 tokens from a 16 token alphabet (among them pieces of the word None) joined by commas + every single token',
    'thorough': 'N=32 (slices), Sample(k) k in 1..66, n in 0..64; option strings: <=5 tokens from an 18 token alphabet',
}
RULE = ('(also: one selector object applied to every length in turn, ascending then descending, as one --frame-slice option is applied to every frame array) full product of (n, start, stop, step) / (k, n) / comma-joined token sequences, each enumerated once; '
        'non-trivial = the selection is non-empty and not the whole sequence (slices, samples) or the string has a comma '
        'or is rejected (options); outcome = the index list / accept-reject verdict')
ASSUMPTIONS = ['Slice.last()/Sample.last() are not in the statement (pinned by the suite) and are exercised only through C11',
               'a step <= 0 in an option string is neither required to be accepted nor rejected']

TOKENS_Q = ['', '1', '-2', '-1', '0', 'None', ' 3 ', 'x', '1.5', '+4', 'None7', '6None4', 'NoneNone', 'N', 'on', 'one', 'e', 'none', 'NONE', ' ', '10', '1 0', 'No ne']      # the last two: white space inside a part (after the text it collapses to)   # 'N' .. 'e': the word None run together with other text
TOKENS_T = TOKENS_Q + ['12', 'nOnE', ' None ']


# sample sizes around 2^8, 2^16, 2^17 and beyond (a well has hundreds of thousands of frames), over frame counts a little and a lot larger
BIG_SAMPLES = [255, 256, 257, 65535, 65536, 65537, 100000, 131071, 131072, 131073, 200000, 400000]


def _N(tier):
    return 16 if tier == 'quick' else 32


def shards(tier):
    N = _N(tier)
    out = [{'kind': 'slice', 'n': n} for n in range(N + 1)]
    out += [{'kind': 'sample', 'k': k} for k in range(1, 2 * N + 3)]
    out += [{'kind': 'slice_hist', 'start': a} for a in [None] + list(range(-N, N + 1))]
    toks = TOKENS_Q if tier == 'quick' else TOKENS_T
    out += [{'kind': 'opt', 'first': t} for t in toks]
    out += [{'kind': 'ctor'}]
    out += [{'kind': 'sample_big', 'k': k} for k in BIG_SAMPLES]
    return out


# ---------------------------------------------------------------------------------------------
def check_slice(n, start, stop, step, obj=None):
    """Return list of (sigkind, message).  obj: a selector object that has already been used on other lengths."""
    from TotalDepth.common import Slice
    bad = []
    exp = list(range(n))[slice(start, stop, step)]
    try:
        s = obj if obj is not None else Slice.Slice(start, stop, step)
        _descr = (s.long_str(n), str(s))       # descriptions are queries: they must leave the selector as it is
        ind = s.indices(n)
        gen = list(s.gen_indices(n))
        cnt = s.count(n)
        if ind != exp:
            bad.append(('slice_indices', 'indices(%d)=%r expected %r' % (n, ind, exp)))
        if gen != exp:
            bad.append(('slice_gen', 'gen_indices(%d)=%r expected %r' % (n, gen, exp)))
        pairs = list(zip(s.gen_indices(n), s.gen_indices(n)))
        if [a for a, _b in pairs] != exp or [b for _a, b in pairs] != exp:
            bad.append(('slice_gen_interleaved', 'two gen_indices(%d) consumed in step give %r expected %r' % (n, pairs, exp)))
        if cnt != len(exp):
            bad.append(('slice_count', 'count(%d)=%r expected %r' % (n, cnt, len(exp))))
        mine = s.indices(n)
        mine.reverse()
        mine.append(-7)
        if s.indices(n) != exp or list(s.gen_indices(n)) != exp:
            bad.append(('slice_list_aliased', 'after the caller changed the list returned by indices(%d), indices() gives %r expected %r' % (n, s.indices(n), exp)))
        if exp:
            fst = s.first(n)
            if fst != exp[0]:
                bad.append(('slice_first', 'first(%d)=%r expected %r' % (n, fst, exp[0])))
            stp = s.step(n)
            if len(exp) > 1 and stp != exp[1] - exp[0]:
                bad.append(('slice_step', 'step(%d)=%r expected %r' % (n, stp, exp[1] - exp[0])))
    except Exception as err:  # noqa
        bad.append(('slice_raise', '%s: %s' % (type(err).__name__, err)))
    return bad, exp


def sample_ok(ind, k, n):
    m = min(k, n)
    if len(ind) != m:
        return 'length %d expected %d' % (len(ind), m)
    if m == 0:
        return None
    if ind[0] != 0:
        return 'does not begin with 0'
    if any(b <= a for a, b in zip(ind, ind[1:])):
        return 'not strictly increasing'
    if ind[-1] > n - 1 or ind[0] < 0:
        return 'index out of range'
    gaps = [b - a for a, b in zip(ind, ind[1:])]
    if gaps and max(gaps) - min(gaps) > 1:
        return 'gaps differ by more than one: %r' % gaps
    return None


def check_sample_big(k, n):
    """The core of check_sample for sizes where the quadratic interleaving checks are out of reach (messages without the lists)."""
    from TotalDepth.common import Slice
    bad = []
    ind = None
    try:
        s = Slice.Sample(k)
        ind = s.indices(n)
        gen = list(s.gen_indices(n))
        cnt = s.count(n)
        why = sample_ok(ind, k, n)
        if why:
            bad.append(('sample_indices', 'Sample(%d).indices(%d) (%d indices, last %r): %s' % (k, n, len(ind), ind[-1:], why[:200])))
        if gen != ind:
            bad.append(('sample_gen', 'Sample(%d): gen_indices(%d) gives %d indices, indices() %d' % (k, n, len(gen), len(ind))))
        if cnt != len(ind) or cnt != min(k, n):
            bad.append(('sample_count', 'count(%d)=%r, len(indices)=%d, min(k,n)=%d' % (n, cnt, len(ind), min(k, n))))
        if ind and s.first(n) != ind[0]:
            bad.append(('sample_first', 'first(%d)=%r but indices start %r' % (n, s.first(n), ind[0])))
    except Exception as err:  # noqa
        bad.append(('sample_raise', '%s: %s' % (type(err).__name__, err)))
    return bad, ind


def check_sample(k, n, obj=None):
    from TotalDepth.common import Slice
    bad = []
    ind = None
    try:
        s = obj if obj is not None else Slice.Sample(k)
        _descr = (s.long_str(n), str(s))       # descriptions are queries: they must leave the selector as it is
        ind = s.indices(n)
        gen = list(s.gen_indices(n))
        cnt = s.count(n)
        why = sample_ok(ind, k, n)
        if why:
            bad.append(('sample_indices', 'Sample(%d).indices(%d)=%r: %s' % (k, n, ind, why)))
        if gen != ind:
            bad.append(('sample_gen', 'gen_indices %r != indices %r' % (gen, ind)))
        # two generators of the one object consumed in step, and the list asked for while a generator is running
        pairs = list(zip(s.gen_indices(n), s.gen_indices(n)))
        if [a for a, _b in pairs] != ind or [b for _a, b in pairs] != ind:
            bad.append(('sample_gen_interleaved', 'Sample(%d): two gen_indices(%d) consumed in step give %r, indices %r' % (k, n, pairs, ind)))
        during = []
        for i in s.gen_indices(n):
            during.append(i)
            if s.indices(n) != ind:
                bad.append(('sample_gen_interleaved', 'Sample(%d): indices(%d) called while a generator runs gives %r, before %r' % (k, n, s.indices(n), ind)))
                break
        if during != ind and not bad:
            bad.append(('sample_gen_interleaved', 'Sample(%d): gen_indices(%d) with indices() called in between gives %r, indices %r' % (k, n, during, ind)))
        # the list handed out is the caller's: what the caller does to it must not show in later answers
        mine = s.indices(n)
        keep = list(mine)
        mine.reverse()
        mine.append(-7)
        if s.indices(n) != keep or list(s.gen_indices(n)) != keep:
            bad.append(('sample_list_aliased', 'Sample(%d): after the caller reversed and extended the list returned by indices(%d), indices() gives %r and '
                        'gen_indices() %r; before: %r' % (k, n, s.indices(n), list(s.gen_indices(n)), keep)))
        if cnt != len(ind) or cnt != min(k, n):
            bad.append(('sample_count', 'count(%d)=%r, len(indices)=%d, min(k,n)=%d' % (n, cnt, len(ind), min(k, n))))
        if ind and s.first(n) != ind[0]:
            bad.append(('sample_first', 'first(%d)=%r but indices start %r' % (n, s.first(n), ind[0])))
    except Exception as err:  # noqa
        bad.append(('sample_raise', '%s: %s' % (type(err).__name__, err)))
    return bad, ind


def _spec_int(tok):
    t = tok.strip()
    body = t[1:] if t[:1] in '+-' else t
    if body and body.isdigit() and body.isascii():
        return int(t)
    raise ValueError(tok)


def spec_parse(text):
    """Independent reading of the documented option syntax.  Returns ('slice', a, b, c) / ('sample', k) / ('reject',)."""
    if ',' in text:
        parts = text.split(',')
        if len(parts) != 3:
            return ('reject',)
        vals = []
        for p in parts:
            p = p.strip()
            if p in ('', 'None'):
                vals.append(None)
            else:
                try:
                    vals.append(_spec_int(p))
                except ValueError:
                    return ('reject',)
        return ('slice',) + tuple(vals)
    try:
        k = _spec_int(text)
    except ValueError:
        return ('reject',)
    if k < 1:
        return ('reject',)
    return ('sample', k)


def check_opt(text):
    from TotalDepth.common import Slice
    bad = []
    spec = spec_parse(text)
    if spec[0] == 'slice' and spec[3] is not None and spec[3] <= 0:
        return bad, ('unspecified',)
    try:
        got = Slice.create_slice_or_sample(text)
    except (ValueError, TypeError) as err:
        if spec[0] != 'reject':
            bad.append(('opt_rejected_valid', '%r rejected (%s) but denotes %r' % (text, err, spec)))
        return bad, ('reject',)
    except Exception as err:  # noqa
        bad.append(('opt_crash', '%r: %s: %s' % (text, type(err).__name__, err)))
        return bad, ('crash',)
    if spec[0] == 'reject':
        bad.append(('opt_accepted_malformed', '%r accepted as %s but is malformed' % (text, got)))
        return bad, ('accepted',)
    if spec[0] == 'slice':
        if not isinstance(got, Slice.Slice):
            bad.append(('opt_wrong_kind', '%r gave %s, expected a Slice' % (text, got)))
        else:
            for n in range(0, 9):
                exp = list(range(n))[slice(spec[1], spec[2], spec[3])]
                if got.indices(n) != exp:
                    bad.append(('opt_wrong_slice', '%r gave %s: indices(%d)=%r expected %r' % (text, got, n, got.indices(n), exp)))
                    break
            if got != Slice.Slice(spec[1], spec[2], spec[3]):
                bad.append(('opt_slice_ne', '%r gave %s != Slice%r' % (text, got, spec[1:])))
    else:
        if not isinstance(got, Slice.Sample):
            bad.append(('opt_wrong_kind', '%r gave %s, expected a Sample' % (text, got)))
        else:
            for n in range(0, 9):
                if got.count(n) != min(spec[1], n):
                    bad.append(('opt_wrong_sample', '%r gave %s: count(%d)=%d' % (text, got, n, got.count(n))))
                    break
            if got != Slice.Sample(spec[1]):
                bad.append(('opt_sample_ne', '%r gave %s != Sample(%d)' % (text, got, spec[1])))
    return bad, spec


def check_ctor(args):
    """Sample sizes below one and non-integers must be refused by the constructors too."""
    from TotalDepth.common import Slice
    bad = []
    kind, val = args
    try:
        if kind == 'sample':
            Slice.Sample(val)
            if val < 1:
                bad.append(('ctor_sample_accepts', 'Sample(%r) accepted' % val))
        else:
            Slice.Slice(*val)
            if any(not isinstance(v, (int, type(None))) for v in val):
                bad.append(('ctor_slice_accepts', 'Slice%r accepted' % (val,)))
    except (ValueError, TypeError):
        if kind == 'sample' and val >= 1:
            bad.append(('ctor_sample_rejects', 'Sample(%r) rejected' % val))
    return bad


# ---------------------------------------------------------------------------------------------
def run_shard(shard, tier):
    res = Result()
    N = _N(tier)
    if shard['kind'] == 'slice':
        n = shard['n']
        rng = [None] + list(range(-N, N + 1))
        steps = [None] + list(range(1, N + 1))
        for start, stop, step in itertools.product(rng, rng, steps):
            bad, exp = check_slice(n, start, stop, step)
            case = {'kind': 'slice', 'n': n, 'start': start, 'stop': stop, 'step': step}
            res.case((n, start, stop, step), nontrivial=0 < len(exp) < n, outcome=tuple(exp),
                     sample=case if (start, stop, step) == (1, -1, 2) else None)
            for kind, msg in bad:
                res.violate({'kind': kind}, case, 'Slice(%r,%r,%r) on n=%d: %s' % (start, stop, step, n, msg))
    elif shard['kind'] == 'sample':
        k = shard['k']
        for n in range(0, 2 * N + 1):
            bad, ind = check_sample(k, n)
            case = {'kind': 'sample', 'k': k, 'n': n}
            res.case((k, n), nontrivial=0 < k < n, outcome=tuple(ind or ()), sample=case if n == 7 else None)
            for kind, msg in bad:
                res.violate({'kind': kind}, case, msg)
        # one selector object applied to many lengths in turn (as one --frame-slice option is applied to every frame array)
        from TotalDepth.common import Slice
        shared = Slice.Sample(k)
        lengths = list(range(0, 2 * N + 1)) + list(range(2 * N, -1, -1)) + [k, 2 * k + 1, k]
        for i, n in enumerate(lengths):
            bad, ind = check_sample(k, n, shared)
            case = {'kind': 'sample', 'k': k, 'n': n, 'history': lengths[:i]}
            res.case(('shared', k, i), nontrivial=True, outcome=tuple(ind or ()))
            for kind, msg in bad:
                res.violate({'kind': kind + '_after_other_lengths'}, case, 'one Sample(%d) object after lengths %r: %s' % (k, lengths[max(0, i - 3):i], msg))
    elif shard['kind'] == 'sample_big':
        k = shard['k']
        for n in (k - 1, k, k + 1, k + 2, k + k // 2 + 1, 2 * k - 1, 2 * k + 1, 3 * k + 7):
            bad, ind = check_sample_big(k, n)
            case = {'kind': 'sample_big', 'k': k, 'n': n}
            res.case((k, n), nontrivial=True, outcome=(len(ind or ()), tuple((ind or ())[-2:])))
            for kind, msg in bad:
                res.violate({'kind': kind, 'big': True}, case, msg)
        # the frame count as a numpy integer (the length of an array dimension) near the top of its range: the arithmetic on it must not wrap
        if k in (255, 65536):
            import numpy as np
            for kk, n in ((7, np.int32(2_000_000_000)), (64, np.int32(40_000_000)), (k, np.int32(2 ** 31 - 1)), (7, np.int64(2 ** 62)), (k, np.int64(2 ** 63 - 1))):
                if kk > 1000:
                    continue
                with np.errstate(all='ignore'):
                    bad, ind = check_sample_big(kk, n)
                case = {'kind': 'sample_big', 'k': kk, 'n': int(n), 'ntype': type(n).__name__}
                res.case((kk, int(n), type(n).__name__), nontrivial=True, outcome=(len(ind or ()), tuple(int(i) for i in (ind or ())[-2:])))
                for kind, msg in bad:
                    res.violate({'kind': kind, 'big': True, 'ntype': type(n).__name__}, case, msg)
    elif shard['kind'] == 'slice_hist':
        from TotalDepth.common import Slice
        rng = [None] + list(range(-N, N + 1))
        steps = [None] + list(range(1, N + 1))
        lengths = list(range(0, N + 1)) + list(range(N, -1, -1))
        for stop, step in itertools.product(rng, steps):
            shared = Slice.Slice(shard['start'], stop, step)
            for i, n in enumerate(lengths):
                bad, exp = check_slice(n, shard['start'], stop, step, shared)
                case = {'kind': 'slice', 'n': n, 'start': shard['start'], 'stop': stop, 'step': step, 'history': lengths[:i]}
                res.case(('shared', shard['start'], stop, step, i), nontrivial=True, outcome=tuple(exp))
                for kind, msg in bad:
                    res.violate({'kind': kind + '_after_other_lengths'}, case,
                                'one Slice(%r,%r,%r) object after lengths %r, on n=%d: %s' % (shard['start'], stop, step, lengths[max(0, i - 3):i], n, msg))
    elif shard['kind'] == 'opt':
        toks = TOKENS_Q if tier == 'quick' else TOKENS_T
        depth = 4 if tier == 'quick' else 5
        for extra in range(0, depth):
            for rest in itertools.product(toks, repeat=extra):
                text = ','.join((shard['first'],) + rest)
                bad, spec = check_opt(text)
                case = {'kind': 'opt', 'text': text}
                res.case(text, nontrivial=(',' in text) or spec[0] == 'reject', outcome=spec,
                         sample=case if extra == 2 and rest == ('', '1') else None)
                for kind, msg in bad:
                    res.violate({'kind': kind}, case, msg)
    else:
        vals = [('sample', v) for v in range(-3, 4)] + \
               [('slice', v) for v in [(1.0, None, None), (None, '2', None), (None, None, 2.0), (1, 2, 3), (None, None, None)]]
        for a in vals:
            bad = check_ctor(a)
            case = {'kind': 'ctor', 'args': list(a)}
            res.case(repr(a), nontrivial=True, outcome=('ctor', not bad, repr(a)))
            for kind, msg in bad:
                res.violate({'kind': kind}, case, msg)
    return res


def replay(case):
    k = case['kind']
    from TotalDepth.common import Slice
    if k == 'slice':
        obj = None
        if 'history' in case:
            obj = Slice.Slice(case['start'], case['stop'], case['step'])
            for n in case['history']:
                check_slice(n, case['start'], case['stop'], case['step'], obj)
        bad, _ = check_slice(case['n'], case['start'], case['stop'], case['step'], obj)
    elif k == 'sample_big':
        import numpy as np
        n = getattr(np, case['ntype'])(case['n']) if case.get('ntype') else case['n']
        with np.errstate(all='ignore'):
            bad, _ = check_sample_big(case['k'], n)
        return [{'sig': {'kind': kind, 'big': True}, 'case': case, 'msg': msg} for kind, msg in bad]
    elif k == 'sample':
        obj = None
        if 'history' in case:
            obj = Slice.Sample(case['k'])
            for n in case['history']:
                check_sample(case['k'], n, obj)
        bad, _ = check_sample(case['k'], case['n'], obj)
    elif k == 'opt':
        bad, _ = check_opt(case['text'])
    else:
        a = case['args']
        bad = check_ctor((a[0], tuple(a[1]) if isinstance(a[1], list) else a[1]))
    return [{'sig': {'kind': kd}, 'case': case, 'msg': msg} for kd, msg in bad]
