"""C01 - DLIS logical records are reassembled exactly from any physical layout (E1 enumeration)."""
import io
import itertools

from mc.run import Result, h64
from models import rp66_ref

ID = 'C01'
LEVEL = 'exploration'
ENGINE = 'E1 small-scope enumerator'
DESIGN_REF = 'DESIGN.md section 4, C01'
TECHNIQUE = 'bounded exhaustive enumeration of record content x segmentation x trailer/pad options x visible-record packing x label, each file read by the real FileRead and compared with the content model'
RULE = ('shape A: one logical record, full product of kind x type x payload length x forced last byte x segmentation '
        '(cut alphabet) x per-segment checksum/trailing-length x extra-pad deviation x packing into visible records '
        'x encryption flag; shape B: 2-3 records over a reduced per-record layout alphabet x same/new visible record '
        'between records; shape L: storage unit labels (sequence number x maximum length x spelling x identifier). '
        'Every descriptor is generated once; non-trivial = more than one segment, or a trailer/pad option, or more '
        'than one record, or a label other than the default; outcome = hash of the decoded record list')
ASSUMPTIONS = ['most payloads are small (<= 61 bytes); shape G adds payloads of 16 k - 70 k bytes spread over several maximum-size visible records',
               'encrypted records carry no encryption packet; an encrypted segment with the padding bit keeps its pad bytes (they are cipher text): the whole body is the payload',
               'checksums are not verified by the reader and are filled with marker bytes']
BOUNDS = {
    'quick': 'shape A <= 2 segments (all kinds/types), shape B 2 records full + 3 records reduced, labels: 7 sequence numbers x 8 lengths x 2 spellings x 4 identifiers',
    'thorough': 'shape A <= 3 segments, shape B 3 records, labels: all 1..9999 sequence numbers and all 20..16384 lengths in both spellings',
}
LEVEL_TEXT = ('Every member of a finite content x layout model (sizes in coverage.bounds) is written by an independent '
              'RP66V1 producer and read back by the real sequential reader; the decoded (kind, type, payload) list and the '
              'label fields must equal the model exactly. Exhaustive within the stated alphabets, which contain one '
              'member per shortcut in the reader (16-byte minimum, pad count from the last byte, checksum/trailing '
              'length arithmetic, hop to the next visible record).')
LEVEL_NOTE = 'trusted: models/rp66_ref.py (producer written from the standard); small-scope bounds as stated'

LENGTHS = [0, 1, 2, 11, 12, 13, 27, 28, 60, 61]
LAST_BYTES = ['coded', 0x00, 0x01, 0x03, 0xFF]
KINDS = [(True, 0), (False, 0), (True, 1), (False, 1), (True, 127), (False, 127), (True, 255), (False, 255)]
IDENTS = [b' ' * 60, b'Default Storage Set'.ljust(60), b'~' * 60, b'A.b,C:d;E/f-G_h(1)[2]{3}<4>!?"\'#$%&*+=@^|\\`'.ljust(60)]
SEQ_Q = [1, 9, 10, 100, 909, 1000, 9999]
LEN_Q = [20, 99, 100, 1024, 4096, 8192, 10000, 16384]


_PATH = None


def _scratch_path():
    global _PATH
    if _PATH is None:
        import atexit
        import os
        from mc import seams
        os.makedirs(seams.SCRATCH, exist_ok=True)
        _PATH = os.path.join(seams.SCRATCH, 'c01-%d.dlis' % os.getpid())
        atexit.register(lambda: os.path.exists(_PATH) and os.remove(_PATH))
    return _PATH


def cut_alphabet(L):
    c = {1, 2, 11, 12, 13, L - 13, L - 12, L - 11, L - 2, L - 1, L // 2}
    return sorted(x for x in c if 0 < x < L)


def payload_for(r, L, lb):
    by = bytearray(rp66_ref.position_coded(r, L))
    if lb != 'coded' and L:
        by[-1] = lb
    return bytes(by)


def materialise(case):
    recs = []
    for r, rc in enumerate(case['recs']):
        recs.append({
            'eflr': bool(rc['eflr']), 'type': rc['type'], 'payload': payload_for(r, rc['L'], rc.get('lb', 'coded')),
            'encrypted': bool(rc.get('enc', 0)), 'enc_pad_flag': bool(rc.get('encpad', 0)), 'cuts': rc.get('cuts', []),
            'opts': [{'checksum': bool(o[0]), 'trailing': bool(o[1]), 'extra_pad': o[2]} for o in rc.get('opts', [])] or None,
            'newvr': [bool(x) for x in rc.get('newvr', [])] or None,
        })
    lab = case.get('sul') or {}
    sul = rp66_ref.sul_bytes(seq_text=lab.get('seq_text', '   1').encode('latin1'),
                             maxlen_text=lab.get('maxlen_text', '08192').encode('latin1'),
                             ident=lab.get('ident', 'Default Storage Set'.ljust(60)).encode('latin1'))
    data, lay = rp66_ref.build_file(recs, sul)
    return data, lay, recs, lab


def check_case(case):
    """Returns (violations [(sig, msg)], outcome)."""
    from TotalDepth.RP66V1.core import File
    data, lay, recs, lab = materialise(case)
    exp = [(r['eflr'], r['type'], r['payload'], r['encrypted']) for r in recs]
    bad = []
    try:
        with File.FileRead(io.BytesIO(data)) as fr:
            got = [(fld.lr_is_eflr, fld.lr_type, fld.logical_data.bytes, fld.lr_is_encrypted)
                   for fld in fr.iter_logical_records()]
            sul = fr.sul
            sul_got = (sul.storage_unit_sequence_number, sul.maximum_record_length, sul.storage_set_identifier,
                       sul.dlis_version, sul.storage_unit_structure)
            # the same reader walked over its visible records and then read again gives the same logical records
            again = None
            try:
                vrs = [(vr.position, vr.length) for vr in fr.iter_visible_records()]
                again = [(fld.lr_is_eflr, fld.lr_type, fld.logical_data.bytes, fld.lr_is_encrypted)
                         for fld in fr.iter_logical_records()]
            except Exception as err:  # noqa
                bad.append(({'kind': 'second_read_raises', 'exc': type(err).__name__},
                            'iter_visible_records() then iter_logical_records() on the same reader: %s: %s' % (type(err).__name__, err)))
            if again is not None and again != got:
                bad.append(({'kind': 'second_read_differs'}, 'the same reader, after iter_visible_records(), reads %d records that differ from '
                            'its first read of %d records' % (len(again), len(got))))
            if again is not None and vrs != [tuple(v) for v in lay.vrs]:
                bad.append(({'kind': 'visible_records'}, 'iter_visible_records() gives (position, length) %r, the file holds %r'
                            % (vrs[:6], [tuple(v) for v in lay.vrs][:6])))
        # and a fresh reader that walks the visible records before its first sequential read
        with File.FileRead(io.BytesIO(data)) as fr2:
            first = None
            try:
                vrs2 = [(vr.position, vr.length) for vr in fr2.iter_visible_records()]
                first = [(fld.lr_is_eflr, fld.lr_type, fld.logical_data.bytes, fld.lr_is_encrypted)
                         for fld in fr2.iter_logical_records()]
            except Exception as err:  # noqa
                bad.append(({'kind': 'read_after_visible_records_raises', 'exc': type(err).__name__},
                            'iter_visible_records() then iter_logical_records() on a fresh reader: %s: %s' % (type(err).__name__, err)))
            if first is not None and (first != got or vrs2 != [tuple(v) for v in lay.vrs]):
                bad.append(({'kind': 'read_after_visible_records_differs'}, 'a fresh reader that first walks its visible records reads %d records '
                            'that differ from the plain sequential read of %d records' % (len(first), len(got))))
    except Exception as err:  # noqa
        kind = 'label_rejected' if 'SUL' in str(err) or 'StorageUnitLabel' in type(err).__name__ else 'read_raises'
        sig = {'kind': kind, 'exc': type(err).__name__}
        if kind == 'label_rejected':
            sig['zero_digit'] = ('0' in lab.get('seq_text', '   1').strip().lstrip('0')) or \
                                ('0' in lab.get('maxlen_text', '08192').strip().lstrip('0'))
        return [(sig, '%s: %s' % (type(err).__name__, err))], ('raise', type(err).__name__)
    if len(got) != len(exp):
        bad.append(({'kind': 'record_count'}, 'read %d logical records, %d were written' % (len(got), len(exp))))
    for i, (g, e) in enumerate(zip(got, exp)):
        if g[0] != e[0] or g[1] != e[1]:
            bad.append(({'kind': 'kind_or_type'}, 'record %d: (eflr,type)=%r written %r' % (i, g[:2], e[:2])))
        if g[2] != e[2]:
            bad.append(({'kind': 'payload'}, 'record %d: payload %s (len %d) written %s (len %d)'
                        % (i, g[2].hex(), len(g[2]), e[2].hex(), len(e[2]))))
        if g[3] != e[3]:
            bad.append(({'kind': 'encrypted_flag'}, 'record %d: lr_is_encrypted=%r written %r' % (i, g[3], e[3])))
    if case['shape'] == 'L' or len(data) % 16 == 0:
        # "accepted" also means that the batch tools do not skip the file: they ask bin_file_type first (a C01 anchor)
        from TotalDepth.util import bin_file_type
        try:
            ftype = bin_file_type.binary_file_type(io.BytesIO(data))
        except Exception as err:  # noqa
            ftype = 'raised %s' % type(err).__name__
        if ftype != 'RP66V1':
            bad.append(({'kind': 'label_not_identified_as_rp66v1'}, 'file with label %r is identified as %r, the tools will ignore it'
                        % (data[:20], ftype)))
    if case['shape'] == 'L':
        # the tools are given paths: the same path string, holding something else a moment ago, now holds this file
        from TotalDepth.util import bin_file_type
        path = _scratch_path()
        from mc import seams
        try:
            with open(path, 'wb') as f:
                f.write(b'~Version Information\n VERS. 2.0 : CWLS\n' if int(lab.get('seq_text', '1')) % 2 else data[80:])
            seams.pin_times(path)
            before = bin_file_type.binary_file_type_from_path(path)
            with open(path, 'wb') as f:
                f.write(data)
            seams.pin_times(path)
            ptype = bin_file_type.binary_file_type_from_path(path)
            with File.FileRead(path) as frp:
                pgot = [(fld.lr_is_eflr, fld.lr_type, fld.logical_data.bytes, fld.lr_is_encrypted) for fld in frp.iter_logical_records()]
        except Exception as err:  # noqa
            before, ptype, pgot = None, 'raised %s: %s' % (type(err).__name__, err), got
        if ptype != 'RP66V1' or pgot != got:
            bad.append(({'kind': 'path_not_identified_as_rp66v1'}, 'the file written to a path that held other bytes before (identified as %r) is identified '
                        'as %r by path and gives %d records (%d from the same bytes in memory)' % (before, ptype, len(pgot), len(got))))
    seq = int(lab.get('seq_text', '   1'))
    mx = int(lab.get('maxlen_text', '08192'))
    ident = lab.get('ident', 'Default Storage Set'.ljust(60)).encode('latin1')
    if sul_got != (seq, mx, ident, b'V1.00', b'RECORD'):
        bad.append(({'kind': 'label_fields'}, 'label fields %r written %r' % (sul_got, (seq, mx, ident))))
    return bad, h64(repr(got))


# ---------------------------------------------------------------------------------------------
def gen_single(tier, eflr, typ):
    """Shape A descriptors for one (kind, type)."""
    maxseg = 2 if tier == 'quick' else 3
    for L in LENGTHS:
        for lb in (LAST_BYTES if L else ['coded']):
            segs = [[]]
            cuts = cut_alphabet(L)
            segs += [[c] for c in cuts]
            if maxseg >= 3 and (eflr, typ) in ((True, 0), (False, 127)):
                segs += [list(c) for c in itertools.combinations(cuts, 2)]
            for cut in segs:
                n = len(cut) + 1
                for ct in itertools.product((0, 1, 2, 3), repeat=n):       # checksum/trailing per segment
                    for padseg in range(-1, n):                            # <= 1 extra-pad deviation
                        opts = [[c & 1, c >> 1, 2 if s == padseg else 0] for s, c in enumerate(ct)]
                        for pack in itertools.product((0, 1), repeat=n - 1):
                            rec = {'eflr': int(eflr), 'type': typ, 'L': L, 'lb': lb, 'cuts': cut, 'opts': opts,
                                   'newvr': [0] + list(pack)}
                            yield {'shape': 'A', 'recs': [rec]}
                # encrypted: even payloads >= 12 so that no pad bit is needed
                if L >= 12 and L % 2 == 0 and lb == 'coded':
                    for cut in segs:
                        bounds = [0] + cut + [L]
                        if any((b - a) % 2 or (b - a) < 12 for a, b in zip(bounds, bounds[1:])):
                            continue
                        n = len(cut) + 1
                        for pack in itertools.product((0, 1), repeat=n - 1):
                            rec = {'eflr': int(eflr), 'type': typ, 'L': L, 'lb': lb, 'cuts': cut,
                                   'opts': [[0, 0, 0]] * n, 'newvr': [0] + list(pack), 'enc': 1}
                            yield {'shape': 'A', 'recs': [rec]}
                            # the same with the padding bit set on the encrypted segments: the pad is cipher text, nothing is stripped
                            yield {'shape': 'A', 'recs': [dict(rec, encpad=1)]}


REC_LAYOUTS = ['plain', 'tails', 'split', 'splitvr']


def rec_variant(kind, L, layout):
    eflr, typ = kind
    rec = {'eflr': int(eflr), 'type': typ, 'L': L, 'lb': 'coded'}
    if layout == 'tails':
        rec['opts'] = [[1, 1, 2]]
    elif layout in ('split', 'splitvr') and L >= 2:
        rec['cuts'] = [L // 2]
        rec['opts'] = [[0, 0, 0], [1, 0, 0]]
        rec['newvr'] = [0, 1 if layout == 'splitvr' else 0]
    return rec


def gen_multi(tier, first_kind, first_L):
    kinds = [(True, 0), (False, 0), (False, 127), (True, 255)]
    Ls = [0, 1, 12, 13, 28]
    variants = [(k, L, lay) for k in kinds for L in Ls for lay in REC_LAYOUTS if not (lay.startswith('split') and L < 2)]
    firsts = [(first_kind, first_L, lay) for lay in REC_LAYOUTS if not (lay.startswith('split') and first_L < 2)]
    for v0 in firsts:
        for v1 in variants:
            for nv1 in (0, 1):
                r0, r1 = rec_variant(*v0), rec_variant(*v1)
                r1['newvr'] = [nv1] + (r1.get('newvr') or [0])[1:]
                yield {'shape': 'B', 'recs': [r0, r1]}
                thirds = variants if tier == 'thorough' else [v for v in variants if v[0] in ((True, 0), (False, 127)) and v[1] in (1, 13)]
                for v2 in thirds:
                    for nv2 in (0, 1):
                        r2 = rec_variant(*v2)
                        r2['newvr'] = [nv2] + (r2.get('newvr') or [0])[1:]
                        yield {'shape': 'B', 'recs': [dict(r0), dict(r1), r2]}


def gen_giant(tier):
    """Shape G: payloads of several visible records.  A segment cannot be longer than a visible record holds (16380), so
    the payload is cut every `chunk` bytes; the producer closes a visible record when the next segment does not fit."""
    sizes = [16372, 16373, 32744, 40000] if tier == 'quick' else [16371, 16372, 16373, 16376, 32744, 32745, 40000, 70001]
    for L in sizes:
        for chunk in (16372, 8190, 1001):
            cuts = list(range(chunk, L, chunk))
            n = len(cuts) + 1
            for pat in ('none', 'tails', 'newvr'):
                opts = [[0, 0, 0]] * n if pat != 'tails' else [[1, 1, 0]] * n
                if pat == 'tails' and chunk == 16372:
                    continue        # a full-size segment has no room for a checksum and a trailing length
                newvr = [0] + [1 if pat == 'newvr' else 0] * (n - 1)
                for eflr, typ in ((1, 0), (0, 127)):
                    rec = {'eflr': eflr, 'type': typ, 'L': L, 'lb': 'coded', 'cuts': cuts, 'opts': opts, 'newvr': newvr}
                    yield {'shape': 'G', 'recs': [rec, {'eflr': 1, 'type': 1, 'L': 13, 'lb': 'coded'}]}
    # pad counts around the signed/unsigned byte boundary and at the one-byte maximum (the count is a USHORT, 2.2.2.1):
    # payload lengths on both sides of 256 bytes of body, one and two segments, with and without trailers
    for L in (12, 13, 72, 130, 300, 301):
        for extra in (120, 124, 126, 128, 130, 200, 250, 252, 254):
            for trail in (0, 1, 2, 3):
                for cuts in ([], [L // 2]):
                    n = len(cuts) + 1
                    for padseg in range(n):
                        body = (L - cuts[0] if padseg else cuts[0]) if cuts else L
                        nb = 4 + body + (trail & 1) * 2 + (trail >> 1) * 2
                        base = nb % 2 + max(0, 16 - (nb + nb % 2))
                        if base + extra > 255:
                            continue
                        opts = [[trail & 1, trail >> 1, extra if s == padseg else 0] for s in range(n)]
                        for eflr, typ in ((1, 3), (0, 0)):
                            rec = {'eflr': eflr, 'type': typ, 'L': L, 'lb': 'coded', 'cuts': cuts, 'opts': opts, 'newvr': [0] * n}
                            yield {'shape': 'G', 'recs': [rec, {'eflr': 1, 'type': 1, 'L': 13, 'lb': 'coded'}]}


def gen_labels(tier, part):
    """Shape L.  part: index 0..15 partitions the thorough space."""
    body = {'eflr': 1, 'type': 0, 'L': 13, 'lb': 'coded', 'cuts': [6], 'opts': [[0, 0, 0], [0, 1, 0]], 'newvr': [0, 1]}
    if tier == 'quick':
        if part:
            return
        for seq in SEQ_Q:
            for mx in LEN_Q:
                for st in ('%04d' % seq, '%4d' % seq):
                    for mt in ('%05d' % mx, '%5d' % mx):
                        for ident in IDENTS:
                            yield {'shape': 'L', 'recs': [body],
                                   'sul': {'seq_text': st, 'maxlen_text': mt, 'ident': ident.decode('latin1')}}
    else:
        ident = IDENTS[1].decode('latin1')
        for seq in range(1 + part, 10000, 16):
            for st in {'%04d' % seq, '%4d' % seq}:
                yield {'shape': 'L', 'recs': [body], 'sul': {'seq_text': st, 'maxlen_text': '08192', 'ident': ident}}
        for mx in range(20 + part, 16385, 16):
            for mt in {'%05d' % mx, '%5d' % mx}:
                yield {'shape': 'L', 'recs': [body], 'sul': {'seq_text': '   1', 'maxlen_text': mt, 'ident': ident}}
        if part == 0:
            yield from gen_labels('quick', 0)


def shards(tier):
    out = [{'gen': 'A', 'eflr': int(k[0]), 'type': k[1]} for k in KINDS]
    out += [{'gen': 'B', 'eflr': int(k[0]), 'type': k[1], 'L': L} for k in [(True, 0), (False, 0), (False, 127), (True, 255)]
            for L in [0, 1, 12, 13, 28]]
    out += [{'gen': 'L', 'part': p} for p in range(16 if tier == 'thorough' else 1)]
    out += [{'gen': 'G'}]
    return out


def nontrivial(case):
    if case['shape'] == 'L':
        return case['sul'] != {'seq_text': '   1', 'maxlen_text': '08192', 'ident': IDENTS[1].decode('latin1')}
    if len(case['recs']) > 1:
        return True
    rec = case['recs'][0]
    return bool(rec.get('cuts')) or any(any(o) for o in rec.get('opts', [])) or bool(rec.get('enc'))


def check_pair(case):
    """Two files open at the same time, their sequential reads advanced in turn: each reader must give its own file's records."""
    import itertools as it
    from TotalDepth.RP66V1.core import File
    out = []
    sides = []
    for c in (case['a'], case['b']):
        data, _lay, recs, _lab = materialise(c)
        sides.append((data, [(r['eflr'], r['type'], r['payload'], r['encrypted']) for r in recs]))
    try:
        with File.FileRead(io.BytesIO(sides[0][0])) as fa, File.FileRead(io.BytesIO(sides[1][0])) as fb:
            got = ([], [])
            for x, y in it.zip_longest(fa.iter_logical_records(), fb.iter_logical_records()):
                for k, fld in enumerate((x, y)):
                    if fld is not None:
                        got[k].append((fld.lr_is_eflr, fld.lr_type, fld.logical_data.bytes, fld.lr_is_encrypted))
    except Exception as err:  # noqa
        return [({'kind': 'interleaved_readers_raise', 'exc': type(err).__name__},
                 'two readers advanced in turn: %s: %s' % (type(err).__name__, err))], ('raise', type(err).__name__)
    for k in (0, 1):
        if got[k] != sides[k][1]:
            out.append(({'kind': 'interleaved_readers_differ'}, 'two readers advanced in turn: reader %d gives %d records that differ from the %d '
                        'written to its file' % (k, len(got[k]), len(sides[k][1]))))
    return out, h64(repr(got))


def _sul_fields(sul):
    return (sul.storage_unit_sequence_number, sul.maximum_record_length, sul.storage_set_identifier, sul.dlis_version, sul.storage_unit_structure)


def check_reentry(case):
    """One reader on a stream the caller owns, used in a 'with' block; the stream is then rewritten with another conformant file
    and the same reader entered again: inside the second block it reports the label and the records of the file that is there now
    (what a fresh reader reports for those bytes)."""
    from TotalDepth.RP66V1.core import File
    a = materialise(case['a'])[0]
    b, _lay, recs, _lab = materialise(case['b'])
    exp = [(r['eflr'], r['type'], r['payload'], r['encrypted']) for r in recs]
    try:
        with File.FileRead(io.BytesIO(b)) as fresh:
            sul_fresh = _sul_fields(fresh.sul)
        stream = io.BytesIO(a)
        reader = File.FileRead(stream)
        with reader:
            for _fld in reader.iter_logical_records():
                pass
        stream.seek(0)
        stream.truncate()
        stream.write(b)
        with reader:
            sul_again = _sul_fields(reader.sul)
            got = [(fld.lr_is_eflr, fld.lr_type, fld.logical_data.bytes, fld.lr_is_encrypted) for fld in reader.iter_logical_records()]
    except Exception as err:  # noqa
        return [({'kind': 'reentered_reader_raises', 'exc': type(err).__name__}, 'a reader entered a second time: %s: %s' % (type(err).__name__, err))]
    out = []
    if sul_again != sul_fresh:
        out.append(({'kind': 'reentered_reader_label'}, 'a reader entered a second time, its stream holding another file now, reports the label %r; '
                    'the file has %r' % (sul_again, sul_fresh)))
    if got != exp:
        out.append(({'kind': 'reentered_reader_records'}, 'a reader entered a second time, its stream holding another file now, gives %d records '
                    'that differ from the %d written to that file' % (len(got), len(exp))))
    return out


def run_shard(shard, tier):
    res = Result()
    if shard['gen'] == 'A':
        gen = gen_single(tier, bool(shard['eflr']), shard['type'])
    elif shard['gen'] == 'B':
        gen = gen_multi(tier, (bool(shard['eflr']), shard['type']), shard['L'])
    elif shard['gen'] == 'G':
        gen = gen_giant(tier)
    else:
        gen = gen_labels(tier, shard['part'])
    prev = None
    prev_l = None
    for i, case in enumerate(gen):
        bad, outcome = check_case(case)
        res.case(h64(repr(case)), nontrivial=nontrivial(case), outcome=outcome, sample=case if i == 777 else None)
        res.count('shape_' + case['shape'])
        for sig, msg in bad:
            res.violate(sig, case, msg)
        if prev is not None and i % 4 == 1 and case['shape'] != 'L' and not bad:
            pair = {'shape': 'P', 'a': prev, 'b': case}
            pbad, _o = check_pair(pair)
            res.count('interleaved_pairs')
            for sig, msg in pbad:
                res.violate(sig, pair, msg)
        if case['shape'] == 'L' and not bad:
            if prev_l is not None:
                pair = {'shape': 'R', 'a': prev_l, 'b': case}
                res.count('reentered_readers')
                for sig, msg in check_reentry(pair):
                    res.violate(sig, pair, msg)
            prev_l = case
        elif prev is not None and i % 4 == 3 and not bad:
            pair = {'shape': 'R', 'a': prev, 'b': case}
            res.count('reentered_readers')
            for sig, msg in check_reentry(pair):
                res.violate(sig, pair, msg)
        prev = case if case['shape'] != 'L' else prev
    return res


def replay(case):
    if case.get('shape') == 'P':
        bad, _ = check_pair(case)
        return [{'sig': s, 'case': case, 'msg': m} for s, m in bad]
    if case.get('shape') == 'R':
        return [{'sig': s, 'case': case, 'msg': m} for s, m in check_reentry(case)]
    bad, _ = check_case(case)
    return [{'sig': s, 'case': case, 'msg': m} for s, m in bad]
