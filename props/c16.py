"""C16 - Run-length indexes reproduce the positions they encode.

Explicit-state search (E2).  A state is the sequence of values added so far to a real
`TotalDepth.common.Rle.RLE` (transition = the real `add(v)`), or the sequence of (record position,
frames in record, first X) triples added so far to a real `TotalDepth.LIS.core.Rle.RLEType01`.
The reference model is the plain Python list of what was added.  After every transition every
observer named by the property is compared with the list.
"""
import io
import itertools
import sys

from mc.run import Result

ID = 'C16'
LEVEL = 'model_checking'
ENGINE = 'E2 explicit-state search'
TECHNIQUE = 'breadth-first search over add() histories of the real RLE objects, every state compared with a list model'
DESIGN_REF = 'DESIGN.md section 4, C16'
SINGLE_OUTCOME_OK = False

INT_ALPHA = [0, 1, -1, 2, -2, 3]                                # simplest first
FLT_ALPHA = [0.0, 0.1, 0.2, 0.30000000000000004, 0.5, 0.3000000001]   # the last: off a regular run by 3e-10 relative, far above rounding
_B = 2 ** 53                                                     # integers beyond the exactly-spaced double range
BIG_ALPHA = [_B, _B + 4, _B + 8, _B + 11, _B + 12, -_B, -_B - 4, -_B - 8, -_B - 11]
# finite floats whose extrapolation leaves the double range (the next member of a run 0, 1e308 would be infinite)
HUGE_ALPHA = [0.0, 1e308, 5.0, -1e308, 1.5e308]
# integers and floats in one sequence (an index holds integer frame numbers next to float depths): an integer comes back exactly
MIX_ALPHA = [1e17, 3, 1e300, 39, 40, 41, 0.5]
FLT_DELTA = 0.05                                                # query offset for floats (ints use 1)
GAPS = [10, 20]
FRAMES = [1, 2, 3]
XPATS = ['reg', 'irr', 'const']
FIRST_POS = 80
X_IRR = [1000.0, 998.5, 998.0, 990.0, 989.5, 980.0, 979.0, 978.75]

BOUNDS = {
    'quick': 'RLE: every add() history of length 0..6 over ints {-2..3} (55 987) and over floats '
             '{0.0,0.1,0.2,0.30000000000000004,0.5} (19 531); RLEType01: every sequence of 1..5 records, position gaps '
             '{10,20}, frames {1,2,3}, X pattern {regular, irregular, constant}',
    'thorough': 'RLE: every add() history of length 0..8 over the same int (2 015 539) and float (488 281) alphabets; '
                'RLEType01: 1..7 records, same gap / frame / X alphabets',
}
RULE = ('one case per distinct add() history (the dedup key is the (datum, stride, repeat) list of the real object plus the '
        'tuple of values added, so no two histories merge); non-trivial = at least two values (RLE) or two records (RLEType01); '
        'outcome = the encoding reached, whether values() answered and the largest_le()/tellLrForFrame() answers')
ASSUMPTIONS = [
    'largest_le(q) is compared only for non-decreasing histories and only for q >= the first stored value (below it the '
    'statement defines nothing; the library raises ValueError)',
    'out-of-range value(i) / tellLrForFrame(f) are not in the statement and are not compared',
    'floats: a reproduced value may differ from the value added by (n+2)*epsilon*max|value| (n = number of values: add() accepts '
    'within a relative epsilon and iteration accumulates one rounding per stride); for largest_le a stored value within that '
    'tolerance of the query may count as either side of it',
    'the number of runs (len(rle)) is not prescribed by the statement; only its consistency with the items and with the '
    'rle_len attribute written by RP66V1.IndexXML.xml_rle_write is checked',
    'sequences that mix integers and floats: count, values by position / iteration, first and last only (an integer comes back exactly, a float within the float tolerance); largest_le and the XML form are checked for unmixed sequences',
]
LEVEL_TEXT = ('every operation history up to the depth bound is executed on the real objects; within the bound and the value '
              'alphabets the result is exhaustive, beyond them nothing is claimed')
LEVEL_NOTE = ('trusted: the list model, the tolerance stated for floats, xml.etree for reading back the XML written by '
              'xml_rle_write')

EPS = sys.float_info.epsilon


def _depth(tier):
    return 6 if tier == 'quick' else 8


def _plen(tier):
    return 2 if tier == 'quick' else 3


def _nrec(tier):
    return 5 if tier == 'quick' else 7


def shards(tier):
    p = _plen(tier)
    out = [{'kind': 'root'}]
    out += [{'kind': 'int', 'prefix': list(t)} for t in itertools.product(INT_ALPHA, repeat=p)]
    out += [{'kind': 'float', 'prefix': list(t)} for t in itertools.product(FLT_ALPHA, repeat=p)]
    out += [{'kind': 'bigint', 'prefix': [a, b]} for a in BIG_ALPHA for b in BIG_ALPHA]
    out += [{'kind': 'hugeflt', 'prefix': [a]} for a in HUGE_ALPHA]
    out += [{'kind': 'mixed', 'prefix': [a]} for a in MIX_ALPHA]
    for n in range(1, _nrec(tier) + 1):
        if n <= 2 or tier == 'quick':
            out += [{'kind': 'type01', 'n': n, 'head': [f]} for f in FRAMES]
        else:
            out += [{'kind': 'type01', 'n': n, 'head': [f, g]} for f in FRAMES for g in FRAMES]
    return out


# ---------------------------------------------------------------------------------------------
# helpers
# ---------------------------------------------------------------------------------------------
_XML = None
_OTHER_T01 = None


def _indexxml():
    """RP66V1.IndexXML imports the LIS rep-code extensions: use the ones rebuilt from source."""
    global _XML
    if _XML is None:
        from mc import seams
        seams.install_ext()
        from TotalDepth.RP66V1 import IndexXML
        from TotalDepth.util import XmlWrite
        import xml.etree.ElementTree as ET
        _XML = (IndexXML, XmlWrite, ET)
    return _XML


def prepare(tier):
    _indexxml()


def _call(fn, *args):
    try:
        return True, fn(*args)
    except Exception as err:  # noqa   an exception inside the implementation
        return False, err


def _canon(obj):
    return tuple((it.datum, it.stride, it.repeat) for it in obj.rle_items)


def _exc(err):
    return '%s: %s' % (type(err).__name__, err)


# ---------------------------------------------------------------------------------------------
# oracle for common.Rle.RLE
# ---------------------------------------------------------------------------------------------
def check_rle(vals, num):
    """vals: list of values added (the model); num: 'int' | 'float'.
    Returns (bad, outcome, canon) with bad = list of (sig, msg)."""
    from TotalDepth.common import Rle
    vals = list(vals)
    n = len(vals)
    isf = num == 'float'
    tol = (n + 2) * EPS * max([abs(v) for v in vals] or [0.0]) if isf else 0
    bad = []

    def same(a, b):
        if isinstance(a, bool) or not isinstance(a, (int, float)):
            return False
        return abs(a - b) <= tol if isf else a == b

    def flag(kind, msg, **extra):
        sig = {'kind': kind, 'num': num}
        sig.update(extra)
        bad.append((sig, '%s history %r: %s' % (num, vals, msg)))

    # the transitions: the real add()
    obj = Rle.RLE()
    for k, v in enumerate(vals):
        ok, err = _call(obj.add, v)
        if not ok:
            flag('rle_add_raise', 'add(%r) after %r raised %s' % (v, vals[:k], _exc(err)), exc=type(err).__name__)
            return bad, ('add_raise', k), None
        # queries interleaved with the adds on the same object: anything a query remembers must not outlive the next add -
        # nor must a query that is refused (a position that does not exist; how it is refused is outside the statement)
        _call(obj.value, k + 5)
        _call(obj.value, -(k + 5))
        ok, got = _call(lambda: (obj.num_values(), obj.value(k), obj.last()))
        if not ok:
            flag('rle_query_between_adds_raise', 'after %d adds a query raised %s' % (k + 1, _exc(got)), exc=type(got).__name__)
        elif got[0] != k + 1 or not same(got[1], v) or not same(got[2], v):
            flag('rle_query_between_adds_wrong', 'after adds %r: (num_values, value(%d), last()) = %r' % (vals[:k + 1], k, got))
    # a second object read in position order with two or three adds between the reads (a reader that keeps up with a writer)
    obj2 = Rle.RLE()
    unread = 0
    for k, v in enumerate(vals):
        ok, err = _call(obj2.add, v)
        if not ok:
            break
        if k % 3 == 2 or k == n - 1:
            while unread <= k:
                ok, got = _call(obj2.value, unread)
                if not ok or not same(got, vals[unread]):
                    flag('rle_value_in_order_between_adds', 'values %r added, read in order with adds in between: value(%d) gives %r, expected %r'
                         % (vals[:k + 1], unread, _exc(got) if not ok else got, vals[unread]))
                    unread = n
                    break
                unread += 1
    canon = _canon(obj)
    zero_runs = any(s == 0 and r > 0 for _, s, r in canon)
    out = [canon]
    # positions held in numpy integers (an index taken from an array), from the front and from the end
    import numpy as _np
    ok, got = _call(lambda: [obj.value(_np.int64(i)) for i in range(n)] + [obj.value(_np.int64(i - n)) for i in range(n)])
    if not ok:
        flag('rle_value_numpy_position_raise', 'value(numpy.int64(i)) raised %s' % _exc(got), exc=type(got).__name__)
    elif not all(same(a.item() if isinstance(a, _np.generic) else a, b) for a, b in zip(got, vals + vals)):      # (the number may come back as a numpy scalar: the statement speaks of the number)
        flag('rle_value_numpy_position', 'value(numpy.int64(i)) for i = 0..%d and -%d..-1 gives %r; runs %r' % (n - 1, n, got, canon))

    # count
    ok, got = _call(obj.num_values)
    if not ok:
        flag('rle_num_values_raise', 'num_values() raised %s' % _exc(got), exc=type(got).__name__)
    elif got != n:
        flag('rle_num_values', 'num_values()=%r, %d values were added; runs %r' % (got, n, canon))

    # runs: len / indexing / iteration over the items agree, and the items decode to the values (what IndexXML writes)
    ok, got = _call(lambda: (len(obj), [obj[k] for k in range(len(obj))], [it for it in obj]))
    if not ok:
        flag('rle_items_raise', 'len/[]/iteration over the runs raised %s' % _exc(got), exc=type(got).__name__)
    else:
        ln, by_index, by_iter = got
        if ln != len(canon) or any(a is not b for a, b in zip(by_index, obj.rle_items)) \
                or len(by_iter) != len(canon) or any(a is not b for a, b in zip(by_iter, obj.rle_items)):
            flag('rle_items_inconsistent', 'len()=%r, %d indexed, %d iterated, %d items' % (ln, len(by_index), len(by_iter), len(canon)))
        ok2, lens = _call(lambda: [len(it) for it in obj.rle_items])
        if not ok2 or sum(lens) != n:
            flag('rle_item_len', 'sum of len(item)=%r, %d values were added' % (lens, n))
    dec = [d + i * s for d, s, r in canon for i in range(r + 1)]
    if len(dec) != n or not all(same(a, b) for a, b in zip(dec, vals)):
        flag('rle_items_decode', 'runs %r decode to %r' % (canon, dec))

    # by position
    for i in list(range(n)) + list(range(-1, -n - 1, -1)):
        ok, got = _call(obj.value, i)
        if not ok:
            flag('rle_value_raise', 'value(%d) raised %s; runs %r' % (i, _exc(got), canon), exc=type(got).__name__,
                 neg=i < 0)
        elif not same(got, vals[i]):
            flag('rle_value_wrong', 'value(%d)=%r expected %r; runs %r' % (i, got, vals[i], canon), neg=i < 0)

    # by iteration
    ok, got = _call(lambda: list(obj.values()))
    if not ok:
        if isinstance(got, AssertionError) and zero_runs:
            flag('rle_values_assert_stride0', 'values() raised AssertionError (a run of equal values has stride 0); runs %r' % (canon,))
        else:
            flag('rle_values_raise', 'values() raised %s; runs %r' % (_exc(got), canon), exc=type(got).__name__)
        out.append('values_raise')
    elif len(got) != n or not all(same(a, b) for a, b in zip(got, vals)):
        flag('rle_values_wrong', 'values()=%r; runs %r' % (got, canon))

    # first / last
    if n:
        for name, exp in (('first', vals[0]), ('last', vals[-1])):
            ok, got = _call(getattr(obj, name))
            if not ok:
                flag('rle_%s_raise' % name, '%s() raised %s; runs %r' % (name, _exc(got), canon), exc=type(got).__name__)
            elif not same(got, exp):
                flag('rle_%s_wrong' % name, '%s()=%r expected %r; runs %r' % (name, got, exp, canon))

    # create_rle() from a generator (as RP66V1.IndexXML calls it) reaches the same encoding
    ok, got = _call(lambda: _canon(Rle.create_rle(v for v in vals)))
    if not ok:
        flag('create_rle_raise', 'create_rle() raised %s' % _exc(got), exc=type(got).__name__)
    elif got != canon:
        flag('create_rle_differs', 'create_rle() gives runs %r, add() gives %r' % (got, canon))

    # ... and so does create_rle() given the values as a list, as a tuple, or - when they are an integer progression (or
    # nothing at all) - as the range object that denotes them
    forms = [('list', lambda: list(vals)), ('tuple', lambda: tuple(vals))]
    if not isf and all(isinstance(v, int) and not isinstance(v, bool) for v in vals):
        if n == 0:
            forms += [('range(0)', lambda: range(0)), ('range(1, 1)', lambda: range(1, 1)), ('range(10, 0)', lambda: range(10, 0)),
                      ('range(0, 5, -1)', lambda: range(0, 5, -1))]
        elif n == 1:
            forms += [('range(v, v + 1)', lambda: range(vals[0], vals[0] + 1)), ('range(v, v - 3, -7)', lambda: range(vals[0], vals[0] - 3, -7))]
        else:
            step = vals[1] - vals[0]
            if step != 0 and all(b - a == step for a, b in zip(vals, vals[1:])):
                forms += [('range(first, last + step, step)', lambda: range(vals[0], vals[-1] + step, step))]
    for fname, mk in forms:
        if n and fname.startswith('range'):
            assert list(mk()) == vals, (fname, vals)
        ok, got = _call(lambda: (lambda r: (_canon(r), r.num_values(), list(r.values()), r.first() if n else None, r.last() if n else None))(Rle.create_rle(mk())))
        if not ok:
            if not (isinstance(got, AssertionError) and zero_runs):
                flag('create_rle_raise', 'create_rle(%s) raised %s' % (fname, _exc(got)), exc=type(got).__name__, form=fname.split('(')[0])
        elif got[0] != canon or got[1] != n or len(got[2]) != n or not all(same(a, b) for a, b in zip(got[2], vals)) \
                or (n and not (same(got[3], vals[0]) and same(got[4], vals[-1]))):
            flag('create_rle_differs', 'create_rle(%s) for %r gives runs %r, %d values %r; add() gives runs %r'
                 % (fname, vals, got[0], got[1], got[2], canon), form=fname.split('(')[0])

    # the optional unary function "to convert all values with": an encoding built with one gives back the converted values - all of them
    fn = (lambda x: 0.5 * x + 0.25) if isf else (lambda x: 3 * x + 7)
    conv = [fn(v) for v in vals]
    for fname, build in (('RLE(fn).add', lambda: [r for r in [Rle.RLE(fn)] if [r.add(v) for v in vals] is not None][0]),
                         ('create_rle(values, fn)', lambda: Rle.create_rle(list(vals), fn)),
                         # the encoding create_rle() returns is an RLE like any other: values added to it later are converted too
                         ('create_rle(first half, fn) then add()', lambda: [r for r in [Rle.create_rle(list(vals[:n // 2]), fn)]
                                                                           if [r.add(v) for v in vals[n // 2:]] is not None][0])):
        ok, got = _call(lambda: (lambda r: (r.num_values(), [r.value(i) for i in range(n)], r.first() if n else None, r.last() if n else None))(build()))
        ctol = (n + 2) * EPS * max([abs(v) for v in conv] or [0.0]) if isf else 0
        if not ok:
            if not (isinstance(got, AssertionError) and zero_runs):
                flag('rle_function_raise', '%s raised %s' % (fname, _exc(got)), exc=type(got).__name__)
        elif got[0] != n or len(got[1]) != n or not all(abs(a - b) <= ctol for a, b in zip(got[1], conv)) \
                or (n and not (abs(got[2] - conv[0]) <= ctol and abs(got[3] - conv[-1]) <= ctol)):
            flag('rle_function_values', '%s for %r: %d values %r (first %r, last %r), converted values are %r' % (fname, vals, got[0], got[1], got[2], got[3], conv))

    # largest stored value not exceeding a query, ascending histories
    if n and all(a <= b for a, b in zip(vals, vals[1:])):
        d = FLT_DELTA if isf else 1
        for q in sorted(set(itertools.chain.from_iterable((v, v - d, v + d) for v in vals))):
            sure = [s for s in vals if s <= q - tol]
            if not sure:
                continue                      # below (or, floats, not clearly above) the first value: outside the statement
            lo = max(sure)
            hi = max(s for s in vals if s <= q + tol)
            want = repr(hi) if lo == hi else '%r (or %r: the query is within rounding of it)' % (lo, hi)
            ok, got = _call(obj.largest_le, q)
            if not ok:
                sel = [c for c in canon if c[0] <= q]
                if isinstance(got, ZeroDivisionError) and sel and sel[-1][1] == 0:
                    flag('rle_largest_le_zero_stride',
                         'largest_le(%r) raised %s, expected %s; runs %r' % (q, _exc(got), want, canon),
                         run='single_value' if sel[-1][2] == 0 else 'equal_values')
                else:
                    flag('rle_largest_le_raise', 'largest_le(%r) raised %s, expected %s; runs %r' % (q, _exc(got), want, canon),
                         exc=type(got).__name__)
                out.append((q, type(got).__name__))
                continue
            out.append((q, got))
            if isf:
                good = isinstance(got, (int, float)) and lo - tol <= got <= hi + tol and any(abs(got - s) <= tol for s in vals)
            else:
                good = same(got, lo)
            if not good:
                flag('rle_largest_le_wrong', 'largest_le(%r)=%r expected %s; runs %r' % (q, got, want, canon))

    # the XML form written by RP66V1.IndexXML
    hexes = [False]
    if not isf and n and vals[0] >= 0 and all(a <= b for a, b in zip(vals, vals[1:])):
        hexes.append(True)                    # file positions: non-negative and ascending, written in hex
    for hx in hexes:
        for sig, msg in check_xml(vals, num, hx, tol):
            bad.append((sig, '%s history %r: %s' % (num, vals, msg)))
    return bad, tuple(out), canon


def check_rle_mixed(vals):
    """Integers and floats in one sequence: count, values by position and by iteration, first and last.  An integer that was
    added comes back as that number exactly; a float to within the tolerance of check_rle taken over the floats of the history."""
    from TotalDepth.common import Rle
    vals = list(vals)
    n = len(vals)
    tol = (n + 2) * EPS * max([abs(v) for v in vals if isinstance(v, float)] or [0.0])
    bad = []

    def same(a, b):
        if isinstance(a, bool) or not isinstance(a, (int, float)):
            return False
        return a == b if isinstance(b, int) else abs(a - b) <= tol

    obj = Rle.RLE()
    for k, v in enumerate(vals):
        ok, err = _call(obj.add, v)
        if not ok:
            return [({'kind': 'rle_add_raise', 'num': 'mixed', 'exc': type(err).__name__}, 'mixed history %r: add(%r) raised %s' % (vals, v, _exc(err)))], ('add_raise', k), None
    canon = _canon(obj)
    ok, got = _call(lambda: (obj.num_values(), [obj.value(i) for i in range(n)], list(obj.values()), [obj.value(i - n) for i in range(n)],
                             obj.first() if n else None, obj.last() if n else None))
    if not ok:
        bad.append(({'kind': 'rle_query_raise', 'num': 'mixed', 'exc': type(got).__name__}, 'mixed history %r: a query raised %s; runs %r' % (vals, _exc(got), canon)))
        return bad, ('query_raise',), canon
    cnt, by_pos, by_iter, by_neg, first, last = got
    if cnt != n or len(by_iter) != n:
        bad.append(({'kind': 'rle_num_values', 'num': 'mixed'}, 'mixed history %r: num_values() = %r, values() gives %d; runs %r' % (vals, cnt, len(by_iter), canon)))
    for how, seq in (('value(i)', by_pos), ('values()', by_iter), ('value(i - n)', by_neg)):
        if len(seq) == n and not all(same(a, b) for a, b in zip(seq, vals)):
            bad.append(({'kind': 'rle_values', 'num': 'mixed', 'how': how}, 'mixed history %r: %s gives %r; runs %r' % (vals, how, seq, canon)))
    if n and not (same(first, vals[0]) and same(last, vals[-1])):
        bad.append(({'kind': 'rle_first_last', 'num': 'mixed'}, 'mixed history %r: first() %r last() %r; runs %r' % (vals, first, last, canon)))
    return bad, (canon, cnt), canon


def check_xml(vals, num, hex_output, tol):
    """create_rle(generator) -> xml_rle_write -> read back with an independent decoder."""
    from TotalDepth.common import Rle
    IndexXML, XmlWrite, ET = _indexxml()
    isf = num == 'float'
    sig = {'num': num, 'hex': hex_output}

    def write():
        f = io.StringIO()
        with XmlWrite.XmlStream(f) as xs:
            IndexXML.xml_rle_write(Rle.create_rle(v for v in vals), 'R', xs, hex_output)
        return f.getvalue()

    ok, text = _call(write)
    if not ok:
        return [(dict(sig, kind='xml_rle_write_raise', exc=type(text).__name__), 'xml_rle_write(hex=%r) raised %s' % (hex_output, _exc(text)))]
    root = ET.fromstring(text[text.index('?>') + 2:])

    def number(s):
        if hex_output:
            return int(s, 16)
        return float(s) if isf else int(s)

    try:
        count = int(root.attrib['count'])
        rle_len = int(root.attrib['rle_len'])
        runs = [(number(e.attrib['datum']), number(e.attrib['stride']), int(e.attrib['repeat'])) for e in root.findall('RLE')]
    except (KeyError, ValueError) as err:
        return [(dict(sig, kind='xml_rle_unreadable'), 'cannot read back %r: %s' % (text, err))]
    bad = []
    if count != len(vals):
        bad.append((dict(sig, kind='xml_rle_count'), 'count=%d written for %d values' % (count, len(vals))))
    if rle_len != len(runs):
        bad.append((dict(sig, kind='xml_rle_len'), 'rle_len=%d written with %d RLE elements' % (rle_len, len(runs))))
    dec = [d + i * s for d, s, r in runs for i in range(r + 1)]
    if len(dec) != len(vals) or not all((abs(a - b) <= tol) if isf else a == b for a, b in zip(dec, vals)):
        bad.append((dict(sig, kind='xml_rle_decode'), 'XML runs %r decode to %r' % (runs, dec)))
    return bad


# ---------------------------------------------------------------------------------------------
# oracle for LIS.core.Rle.RLEType01
# ---------------------------------------------------------------------------------------------
def make_records(gaps, frames, xpat):
    recs = []
    pos = FIRST_POS
    before = 0
    for j, f in enumerate(frames):
        if j:
            pos += gaps[j - 1]
        if xpat == 'reg':
            x = 1000.0 - 0.5 * before
        elif xpat == 'irr':
            x = X_IRR[j]
        else:
            x = 5.0
        recs.append([pos, f, x])
        before += f
    return recs


def check_type01(recs):
    """recs: list of [position, frames, first X] (the model).  Returns (bad, outcome)."""
    from TotalDepth.LIS.core import Rle as LRle
    bad = []

    def flag(kind, msg, **extra):
        sig = {'kind': kind}
        sig.update(extra)
        bad.append((sig, 'records %r: %s' % (recs, msg)))

    obj = LRle.RLEType01('FEET')
    so_far = []
    for k, (p, f, x) in enumerate(recs):
        ok, err = _call(obj.add, p, f, x)
        if not ok:
            flag('type01_add_raise', 'add%r raised %s' % ((p, f, x), _exc(err)), exc=type(err).__name__)
            return bad, ('add_raise', k)
        # the index is queried while it is being built (the indexer and its callers do that): every frame added so far
        so_far += [(p, j) for j in range(f)]
        for fnum in (0, len(so_far) - f, len(so_far) - 1):
            ok, got = _call(obj.tellLrForFrame, fnum)
            if not ok or tuple(got) != so_far[fnum]:
                flag('type01_tell_between_adds', 'after %d records tellLrForFrame(%d) gives %r, expected %r'
                     % (k + 1, fnum, _exc(got) if not ok else got, so_far[fnum]))
                break
        ok, got = _call(obj.totalFrames)
        if not ok or got != len(so_far):
            flag('type01_total_between_adds', 'after %d records totalFrames() gives %r, expected %d' % (k + 1, got, len(so_far)))
    shape = tuple((it.datum, it.stride, it.repeat, it.numFrames) for it in obj.rle_items)
    owner = [(p, k) for p, f, x in recs for k in range(f)]       # frame number -> (record position, offset in record)
    out = [shape]

    ok, got = _call(obj.totalFrames)
    if not ok:
        flag('type01_total_frames_raise', 'totalFrames() raised %s' % _exc(got), exc=type(got).__name__)
    elif got != len(owner):
        flag('type01_total_frames', 'totalFrames()=%r expected %d; runs %r' % (got, len(owner), shape))
    # another index of the same class, alive at the same time and asked in between (two log passes of a file): a fixed three-run
    # index whose last frames are asked for before every question put to this one
    global _OTHER_T01
    if _OTHER_T01 is None:
        o = LRle.RLEType01('FEET')
        for p_, f_, x_ in ((0, 2, 100.0), (100, 2, 99.0), (300, 3, 98.0), (700, 1, 96.5)):
            o.add(p_, f_, x_)
        _OTHER_T01 = (o, [(0, 0), (0, 1), (100, 0), (100, 1), (300, 0), (300, 1), (300, 2), (700, 0)])
    other, other_owner = _OTHER_T01
    for fnum, exp in enumerate(owner):
        ofn = (fnum * 3 + 5) % len(other_owner)
        ok, got = _call(other.tellLrForFrame, ofn)
        if not ok or tuple(got) != other_owner[ofn]:
            flag('type01_other_index_disturbed', 'a second index alive at the same time: its tellLrForFrame(%d) gives %r, expected %r'
                 % (ofn, _exc(got) if not ok else got, other_owner[ofn]))
            break
        ok, got = _call(obj.tellLrForFrame, fnum)
        if not ok:
            flag('type01_tell_raise', 'tellLrForFrame(%d) raised %s, expected %r; runs %r' % (fnum, _exc(got), exp, shape),
                 exc=type(got).__name__)
        else:
            out.append(got)
            if not (isinstance(got, tuple) and len(got) == 2 and got[0] == exp[0] and got[1] == exp[1]):
                flag('type01_tell_wrong', 'tellLrForFrame(%d)=%r expected %r; runs %r' % (fnum, got, exp, shape))

    # the triples by position and by iteration (an RLE of the record positions carrying frames and X)
    def same3(t, rec):
        return isinstance(t, tuple) and len(t) == 3 and t[0] == rec[0] and t[1] == rec[1] \
            and isinstance(t[2], (int, float)) and abs(t[2] - rec[2]) <= 1e-9
    ok, got = _call(obj.num_values)
    if not ok or got != len(recs):
        flag('type01_num_values', 'num_values()=%r for %d records' % (got, len(recs)))
    for i, rec in enumerate(recs):
        ok, got = _call(obj.value, i)
        if not ok:
            flag('type01_value_raise', 'value(%d) raised %s; runs %r' % (i, _exc(got), shape), exc=type(got).__name__)
        elif not same3(got, rec):
            flag('type01_value_wrong', 'value(%d)=%r expected %r; runs %r' % (i, got, tuple(rec), shape))
    ok, got = _call(lambda: list(obj.values()))
    if not ok:
        flag('type01_values_raise', 'values() raised %s; runs %r' % (_exc(got), shape), exc=type(got).__name__)
    elif len(got) != len(recs) or not all(same3(t, r) for t, r in zip(got, recs)):
        flag('type01_values_wrong', 'values()=%r; runs %r' % (got, shape))
    return bad, tuple(out)


# ---------------------------------------------------------------------------------------------
def _search(res, num, alpha, start, depth, sample_at):
    """Breadth-first search from the history `start` down to `depth` values.  A state is rebuilt by replaying its
    history through the real add(); it is kept if (encoding reached, values added) was not seen before."""
    seen = set()
    frontier = [tuple(start)]
    first = True
    while frontier:
        nxt = []
        for hist in frontier:
            succ = [hist] if first else [hist + (v,) for v in alpha]
            for h in succ:
                if not first or h:
                    res.transitions += 1     # the add() that reaches h (a shard's start state is reached by one too)
                bad, outcome, canon = check_rle_mixed(h) if num == 'mixed' else check_rle(h, num)
                key = (canon, h)
                if key in seen:
                    continue
                seen.add(key)
                res.states += 1
                res.traces += 1
                res.count('rle_%s_histories' % num)
                case = {'kind': num, 'vals': list(h)}
                res.case((num, h), nontrivial=len(h) >= 2, outcome=outcome, sample=case if list(h) == sample_at else None)
                for sig, msg in bad:
                    res.violate(sig, case, msg)
                if len(h) < depth:
                    nxt.append(h)
            first = False
        frontier = nxt
    res.count('rle_distinct_encodings', len({k[0] for k in seen}))


def run_shard(shard, tier):
    res = Result()
    res.frontier_closed = False          # the space of histories is unbounded; every search stops at the depth bound
    kind = shard['kind']
    depth = _depth(tier)
    if kind == 'root':
        # histories shorter than the shard prefixes (including the empty one)
        for num, alpha in (('int', INT_ALPHA), ('float', FLT_ALPHA)):
            _search(res, num, alpha, (), _plen(tier) - 1, None)
    elif kind == 'int':
        _search(res, 'int', INT_ALPHA, shard['prefix'], depth, [0, 1, 2, 2])
    elif kind == 'float':
        _search(res, 'float', FLT_ALPHA, shard['prefix'], depth, [0.1, 0.30000000000000004, 0.5])
    elif kind == 'bigint':
        _search(res, 'int', BIG_ALPHA, shard['prefix'], 4 if tier == 'quick' else 5, None)
    elif kind == 'hugeflt':
        _search(res, 'float', HUGE_ALPHA, shard['prefix'], 4 if tier == 'quick' else 6, None)
    elif kind == 'mixed':
        _search(res, 'mixed', MIX_ALPHA, shard['prefix'], 4 if tier == 'quick' else 5, None)
    else:
        n, head = shard['n'], shard['head']
        for rest in itertools.product(FRAMES, repeat=n - len(head)):
            frames = list(head) + list(rest)
            for gaps in itertools.product(GAPS, repeat=n - 1):
                for xpat in XPATS:
                    recs = make_records(gaps, frames, xpat)
                    bad, outcome = check_type01(recs)
                    res.states += 1
                    res.transitions += 1
                    res.traces += 1
                    res.count('type01_histories')
                    case = {'kind': 'type01', 'recs': recs}
                    res.case(('type01', tuple(frames), gaps, xpat), nontrivial=n >= 2, outcome=outcome,
                             sample=case if (frames, list(gaps), xpat) == ([2, 2, 3], [10, 20], 'reg') else None)
                    for sig, msg in bad:
                        res.violate(sig, case, msg)
    return res


def replay(case):
    if case['kind'] == 'type01':
        bad, _ = check_type01([list(r) for r in case['recs']])
    elif case['kind'] == 'mixed':
        bad, _, _ = check_rle_mixed(case['vals'])
    else:
        bad, _, _ = check_rle(case['vals'], case['kind'])
    return [{'sig': sig, 'case': case, 'msg': msg} for sig, msg in bad]
