"""C11 - Conversion to LAS keeps exactly the selected frames, channels and values (E1 enumeration on real files)."""
import itertools
import logging
import os
import re
import shutil
from fractions import Fraction

from mc import seams
from mc.run import Result, h64
from models import bit_ref
from models import lis_ref as L

ID = 'C11'
LEVEL = 'exploration'
NEEDS_EXT = True
ENGINE = 'E1 small-scope enumerator'
DESIGN_REF = 'DESIGN.md section 4, C11'
TECHNIQUE = ('bounded exhaustive enumeration of frame slices / samples x channel subsets x reduction x field width x float format '
             'over generated RP66V1, LIS and BIT files, each converted by the real single_*_to_las entry point into a scratch '
             'directory; every produced LAS file parsed by an independent reader (and by LASRead) and compared with the model')
RULE = ('per format: part S = one source file x every Slice(start,stop,step) with start,stop in {None,-n..n}, step in {None,1..n} '
        'selecting >= 1 of n=7 frames and every Sample(1..n+1), other options fixed; part O = reduced selections x every channel '
        'subset (incl. an unknown name) x 5 reductions x widths {4,16} x formats {.3f,.6f}; part F = source files varied (1-2 log '
        'passes / frame arrays, explicit and implied X, 1..10 frames, frames per record / block); part Q = a conversion preceded in the '
        'same process by 1 (thorough: 2) conversions of other sources (same frame array identity with channels in another order, other '
        'length, a second pass) x 3 channel subsets x 2 selections. non-trivial = a selection or '
        'option other than the default; outcome = hash of the parsed LAS rows')
ASSUMPTIONS = ['X axis units of generated sources are FEET so that the "optical" units equal the recorded units (no unit conversion in the oracle)',
               'STEP is compared only when more than one row is written; N/A is accepted for a single row',
               'LIS channel subsets are given by channel mnemonic, which is what the command line passes']
BOUNDS = {'quick': 'S: n = 7; O: 6 selections x 5 channel sets x 5 reductions x 2 widths x 2 formats; F: about 60 files per format',
          'thorough': 'S: n = 7 and 10 (Slice parameters over -n..n), O full, F about 250 files per format'}
LEVEL_TEXT = ('Each conversion of the enumerated option space runs the real converter on a real file on disk and its output is '
              'parsed independently; rows, columns, values and the well section start/stop/step are compared with the model.')
LEVEL_NOTE = 'trusted: the producers in models/ (rp66_ref via props/c04, lis_ref via props/c06, bit_ref); the small LAS text reader in this module'

N = 7


# ------------------------------------------------------------------------------------------------
# an independent, small LAS 2.0 reader
# ------------------------------------------------------------------------------------------------
def parse_las(text):
    sections = {}
    order = []
    cur = None
    for raw in text.split('\n'):
        line = raw.rstrip('\r')
        if not line.strip():
            continue
        if line.lstrip().startswith('~'):
            cur = line.lstrip()[1:2].upper()
            sections.setdefault(cur, [])
            order.append(cur)
            if cur == 'A':
                sections['A_heading'] = line
            continue
        if line.lstrip().startswith('#') or cur is None:
            continue
        sections[cur].append(line)
    out = {'order': order, 'well': {}, 'curves': [], 'rows': [], 'heading': sections.get('A_heading', '')}
    for sec, store in (('W', 'well'), ('C', 'curves')):
        for line in sections.get(sec, []):
            dot = line.find('.')
            colon = line.rfind(':')
            if dot < 0 or colon < dot:
                continue
            mnem = line[:dot].strip()
            rest = line[dot + 1:colon]
            m = re.match(r'^(\S*)\s*(.*)$', rest)
            unit, value = m.group(1), m.group(2).strip()
            if sec == 'W':
                if mnem in out['well'] and mnem in ('STRT', 'STOP', 'STEP'):
                    out.setdefault('well_repeats', []).append(mnem)      # one start, stop and step per file: the first is kept
                    continue
                out['well'][mnem] = (unit, value)
            else:
                out['curves'].append((mnem, unit))
    for line in sections.get('A', []):
        out['rows'].append(line.split())
    return out


def unit_of(text):
    """One unit of the last printed decimal of a number as printed (1.19e+04 -> 100, 12.250 -> 1/1000)."""
    t = text.lower()
    if 'e' in t:
        mant, ex = t.split('e', 1)
        try:
            e = int(ex)
        except ValueError:
            return Fraction(1)
        return Fraction(10) ** (e - (len(mant.split('.')[1]) if '.' in mant else 0))
    return Fraction(1, 10 ** (len(t.split('.')[1]) if '.' in t else 0))


def close_to(text, exact, extra=Fraction(0)):
    """printed text within half a unit of its last printed decimal of the exact value (+ extra)."""
    try:
        v = Fraction(text)
    except (ValueError, ZeroDivisionError):
        try:
            v = Fraction(float(text))
        except ValueError:
            return False
    tol = unit_of(text) / 2 + extra + abs(exact) * Fraction(1, 2 ** 50)
    return abs(v - exact) <= tol


# ------------------------------------------------------------------------------------------------
# reductions (exact)
# ------------------------------------------------------------------------------------------------
def reduce_exact(values, how):
    vs = [Fraction(v) for v in values]
    if how == 'first':
        return vs[0]
    if how == 'min':
        return min(vs)
    if how == 'max':
        return max(vs)
    if how == 'mean':
        return sum(vs) / len(vs)
    s = sorted(vs)
    n = len(s)
    return s[n // 2] if n % 2 else (s[n // 2 - 1] + s[n // 2]) / 2


def model_indices(sel, n):
    if sel is None:
        return list(range(n))
    if sel[0] == 'slice':
        return list(range(n))[slice(sel[1], sel[2], sel[3])]
    return None     # sample: checked structurally


def make_selector(sel):
    from TotalDepth.common import Slice
    if sel is None:
        return Slice.Slice()
    if sel[0] == 'slice':
        return Slice.Slice(sel[1], sel[2], sel[3])
    return Slice.Sample(sel[1])


# ------------------------------------------------------------------------------------------------
# sources: each returns (file bytes, file name, [pass model]); pass model = {'x': [Fraction], 'x_name', 'channels':
# [{'name', 'values': [[Fraction per element] per frame]}], 'n'}
# ------------------------------------------------------------------------------------------------
PARAM_TEXT = {b'LOC ': (b'LOCATION', b'NW 12-34'), b'COUN': (b'COUNTY NAME', b'KING'), b'STAT': (b'STATE NAME', b'WA'),
              b'NATI': (b'NATION', b'USA'), b'APIN': (b'API NUMBER', b'12345')}


def parameter_set(names):
    """A PARAMETER set (RP66V1 5.8.2) whose objects feed the LAS well section; the set name is the same in every source."""
    return {'type': b'PARAMETER', 'name': b'well', 'lrtype': 5,
            'template': [{'label': b'LONG-NAME', 'code': 20}, {'label': b'VALUES', 'code': 20}],
            'objects': [{'name': (1, 0, nm), 'comps': [{'values': [PARAM_TEXT[nm][0]]}, {'values': [PARAM_TEXT[nm][1]]}]} for nm in names]}


def rp66_source(variant):
    from props import c04
    t0 = [c04.ch('DEPT', 7, [1]), c04.ch('GR', 2, [1]), c04.ch('WAVE', 13, [3])]
    t1 = [c04.ch('TIME', 17, [1]), c04.ch('DEPT', 2, [1], copy=1), c04.ch('IMG', 6, [2, 2])]
    if variant.get('perm'):
        t0 = [t0[0], t0[2], t0[1]]
    if variant.get('img'):
        # channels of two dimensions in front of (and between) the others: skipping one that was not asked for has to
        # step over all of its elements
        t0 = [t0[0], c04.ch('IMG', 2, [2, 3]), t0[1], c04.ch('MAT', 13, [3, 2]), t0[2]]
    n0 = variant.get('n', N)
    types = [{'name': 'FT0', 'channels': t0, 'n': n0}]
    if variant.get('two'):
        types.append({'name': 'FT1', 'channels': t1, 'n': variant.get('n1', 5)})
    lp = {'types': types, 'layout': variant.get('layout', 'one'), 'origin': variant.get('origin', 'full')}
    params = variant.get('params', [b'STAT', b'LOC '] if variant.get('perm') else [b'LOC ', b'COUN', b'STAT'])
    if variant.get('sul'):
        lp['sul'] = {k: (v.encode() if isinstance(v, str) else v) for k, v in variant['sul'].items()}
    if params:
        lp['extra_sets'] = [parameter_set([p if isinstance(p, bytes) else p.encode() for p in params])]
    if variant.get('two'):
        order = []
        a, b = n0, types[1]['n']
        while a or b:
            if a:
                order.append(0)
                a -= 1
            if b:
                order.append(1)
                b -= 1
        lp['order'] = order
    data, _lay, _idx = c04.build(lp)
    passes = []
    for ti, t in enumerate(types):
        chans = []
        for c, ch in enumerate(t['channels']):
            chans.append({'name': ch['name'], 'values': [[Fraction(v) for _b, v in c04.frame_values(ti, t, f)[c]] for f in range(t['n'])],
                          'int': ch['code'] >= 12})
        passes.append({'n': t['n'], 'channels': chans, 'ident': t['name'], 'x_units': 'm'})
    return data, 'src.dlis', passes


DIP_NAMES = ['FC0', 'FC1', 'FC2', 'FC3', 'FC4', 'STAT', 'REF', 'REFC', 'EMEX', 'PADP', 'TEMP', 'FEP1', 'FEP2', 'RAC1', 'RAC2']


def lis_source(variant):
    from props import c06
    cfg = [c06.chan('DEPT', 68, units='FEET'), c06.chan('GR  ', 68, units='GAPI'), c06.chan('SP  ', 79, 2, 1, units='MV  ')]
    indirect = variant.get('indirect', 0)
    if variant.get('nul'):
        # mnemonics shorter than four characters padded with NUL bytes, as some producers write them (a name is a name however padded)
        cfg = [c06.chan('DEPT', 68, units='FEET'), c06.chan('GR\x00\x00', 68, units='GAPI'), c06.chan('SP\x00\x00', 79, 2, 1, units='MV  ')]
    if variant.get('perm'):
        cfg = [cfg[0], cfg[2], cfg[1]]
    if variant.get('dip'):
        cfg = cfg + [c06.chan('RHDT', variant['dip'], units='    ')]
    if indirect:
        cfg = cfg[1:]
    n = variant.get('n', N)
    spec = c06.base_spec(cfg, n, variant.get('fpr', 3), indirect=indirect, updown=variant.get('updown', 255),
                         sp_units='FEET', d_units='FEET')
    items = ['file_head'] + (['cons'] if variant.get('cons', True) else []) + [['pass', spec, 0]] + ['file_tail']
    specs = [spec]
    if variant.get('empty_first'):
        # a format specification that no data record follows, and after it - in the same logical file - a log pass with frames
        spec0 = c06.base_spec([c06.chan('DEPT', 68, units='FEET'), c06.chan('TENS', 68, units='LB  ')], 0, 2, indirect=0, updown=1,
                              sp_units='FEET', d_units='FEET')
        items = items[:-2] + [['pass', spec0, 2]] + items[-2:]
    if variant.get('two'):
        spec2 = c06.base_spec([c06.chan('DEPT', 68, units='FEET'), c06.chan('CALI', 49, units='IN  ')], variant.get('n1', 4), 2,
                              indirect=0, updown=1, sp_units='FEET', d_units='FEET')
        items += ['file_head'] + (['cons'] if variant.get('cons2', True) else []) + [['pass', spec2, 1], 'file_tail']
        specs.append(spec2)
    data, _lay, info = c06.assemble(items, variant.get('layout', {'maxlen': 65535}))
    passes = []
    k = 0
    for it, (rec0, model) in zip(items, info):
        if isinstance(it, str):
            continue
        sp = it[1]
        chans = []
        if sp['indirect']:
            chans.append({'name': 'X', 'values': [[c06.x_of(sp, f)] for f in range(sp['n'])], 'int': False, 'implied': True})
        for c, ch in enumerate(sp['channels']):
            if ch['code'] in c06.DIP_VALUES:
                # a dipmeter channel is written as one column per sub-channel: 5 fast ones (16 samples each, sample-major on the
                # tape) and, for code 234, 10 slow ones
                for sc, nm in enumerate(DIP_NAMES[:5 if ch['code'] == 130 else 15]):
                    vals = [[model['matrix'][f][c][sa * 5 + sc] for sa in range(16)] if sc < 5 else [model['matrix'][f][c][80 + sc - 5]]
                            for f in range(sp['n'])]
                    chans.append({'name': nm, 'values': vals, 'int': False, 'index': c, 'select': ch['mnem'].strip()})
                continue
            chans.append({'name': ch['mnem'].strip(' \x00'), 'values': [list(model['matrix'][f][c]) for f in range(sp['n'])],
                          'int': False, 'index': c})
        passes.append({'n': sp['n'], 'channels': chans, 'ident': str(k), 'x_units': 'FEET', 'fpr': sp['fpr'], 'spec': sp,
                       'model': model})
        k += 1
    return data, 'src.lis', passes


def bit_source(variant):
    from props import c13
    n = variant.get('n', N)
    passes_m = [c13.layout_pass(0, variant.get('channels', 3), n, variant.get('fpb', 3), variant.get('xyz', (100, 97, 0.5)))]
    if variant.get('perm'):
        passes_m[0]['names'] = passes_m[0]['names'][::-1]
    if variant.get('two'):
        passes_m.append(c13.layout_pass(1, 2, variant.get('n1', 4), 2, (97, 100, 0.25)))
    data = bit_ref.produce({'passes': passes_m})
    passes = []
    for p in passes_m:
        xs = bit_ref.expected_x(p)
        vals = bit_ref.expected_values(p)
        chans = [{'name': 'X', 'values': [[x] for x in xs], 'int': False, 'implied': True}]
        for name, ch in zip(p['names'], vals):
            chans.append({'name': name, 'values': [[v] for v in ch], 'int': False})
        passes.append({'n': len(xs), 'channels': chans, 'ident': '', 'x_units': ''})
    return data, 'src.bit', passes


SOURCES = {'rp66': rp66_source, 'lis': lis_source, 'bit': bit_source}


# ------------------------------------------------------------------------------------------------
class Capture(logging.Handler):
    def __init__(self):
        super().__init__(logging.ERROR)
        self.errors = []

    def emit(self, record):
        if record.exc_info and record.exc_info[0] is not None:
            self.errors.append('%s: %s' % (record.exc_info[0].__name__, record.exc_info[1]))
        else:
            self.errors.append(record.getMessage()[:200])


def convert(fmt, path_in, path_out, opts):
    """Runs the real converter; returns (LASWriteResult, captured error texts)."""
    from TotalDepth.RP66V1 import ToLAS as R
    from TotalDepth.LIS import ToLAS as Li
    from TotalDepth.BIT import ToLAS as B
    fn = {'rp66': R.single_rp66v1_file_to_las, 'lis': Li.single_lis_file_to_las, 'bit': B.single_bit_path_to_las_path}[fmt]
    cap = Capture()
    root = logging.getLogger()
    logging.disable(logging.NOTSET)
    root.addHandler(cap)
    old = root.level
    root.setLevel(logging.ERROR)
    try:
        res = fn(path_in, opts['reduction'], path_out, make_selector(opts['sel']), set(opts['channels']), opts['width'], opts['fmt'])
    finally:
        root.removeHandler(cap)
        root.setLevel(old)
        logging.disable(logging.CRITICAL)
    return res, cap.errors


class _Res:
    ignored = False
    exception = False
    binary_file_type = 'RP66V1'


def convert_same_index(path_in, path_out, first_opts, opts, scratch_out):
    """One open LogicalIndex written to LAS twice through the public write_logical_index_to_las: first with first_opts (output
    discarded), then with opts (output judged).  What the second call writes must not depend on the first."""
    from TotalDepth.RP66V1 import ToLAS as R
    from TotalDepth.RP66V1.core import LogicalFile
    os.makedirs(scratch_out, exist_ok=True)
    with LogicalFile.LogicalIndex(path_in) as index:
        for o, out in ((first_opts, os.path.join(scratch_out, 'first.dlis')), (opts, path_out)):
            R.write_logical_index_to_las(index, o['reduction'], out, make_selector(o['sel']), set(o['channels']), o['width'], o['fmt'])
    return _Res(), []


def match_rows_to_frames(rows, p, cols, opts, fmt):
    """For a sample: the increasing frame indexes whose values the rows hold, or None."""
    out = []
    f = 0
    for r in rows:
        if len(r) != len(cols):
            return None
        while f < p['n']:
            ok = True
            for cell, c in zip(r, cols):
                ch = p['channels'][c]
                exact = reduce_exact(ch['values'][f], opts['reduction'] if fmt != 'bit' else 'first')
                extra = abs(exact) * Fraction(1, 2 ** 22)
                if not (close_to(cell, exact, extra) or (fmt == 'bit' and c and close_to(cell, exact * Fraction(2 ** 24, 2 ** 24 - 1)))):
                    ok = False
                    break
            if ok:
                break
            f += 1
        if f >= p['n']:
            return None
        out.append(f)
        f += 1
    return out


def lis_whole_pass_well_section(p, sel):
    """What the registered defect 'LIS well section describes the whole pass' prints: first / last X of the whole log pass
    (0 when the pass has a single data record, for which the library has no last X), and the whole-pass spacing times the
    selector's step()."""
    n, fpr = p['n'], p.get('fpr') or p['n']
    xs = [reduce_exact(p['channels'][0]['values'][f], 'first') for f in range(n)]
    nrec = -(-n // fpr)
    out = {'STRT': xs[0]}
    if nrec > 1:
        last_start = (nrec - 1) * fpr
        spacing = (xs[last_start] - xs[0]) / last_start
        out['STOP'] = xs[last_start] + (n - last_start - 1) * spacing
    else:
        spacing = Fraction(0)
        out['STOP'] = Fraction(0)
    if sel is None:
        st = 1
    elif sel[0] == 'slice':
        st = sel[3] or 1
    else:
        st = 1 if sel[1] >= n else n // sel[1]
    out['STEP'] = spacing * st
    return out


def expected_columns(fmt, p, requested):
    """Indexes into p['channels'] of the columns a LAS file must hold: X plus the requested channels, in frame order."""
    if not requested:
        return list(range(len(p['channels'])))
    return [i for i, ch in enumerate(p['channels']) if i == 0 or ch.get('select', ch['name']).strip() in {r.strip() for r in requested}]


def check_conversion(fmt, variant, opts, workdir, before=()):
    """before: variants converted first, with the same options, in this process (their outputs are checked when they are the
    case themselves); what the checked conversion writes must not depend on them."""
    shutil.rmtree(workdir, ignore_errors=True)
    for k, bv in enumerate(before):
        bdata, bname, _ = SOURCES[fmt](bv)
        bd = os.path.join(workdir, 'before%d' % k)
        os.makedirs(os.path.join(bd, 'out'))
        with open(os.path.join(bd, bname), 'wb') as f:
            f.write(bdata)
        try:
            convert(fmt, os.path.join(bd, bname), os.path.join(bd, 'out', os.path.splitext(bname)[0] if fmt != 'rp66' else bname), opts)
        except Exception:  # noqa - reported when that conversion is the case itself
            pass
    data, fname, passes = SOURCES[fmt](variant)
    d = os.path.join(workdir, 'in')
    o = os.path.join(workdir, 'out.v1')       # a directory name with a dot in it: the output name's extension is looked for in its last part only
    os.makedirs(d)
    os.makedirs(o)
    path_in = os.path.join(d, fname)
    with open(path_in, 'wb') as f:
        f.write(data)
    # (the RP66V1 converter is given the output name with the input's extension by its tool; half of the cases give it without one)
    path_out = os.path.join(o, os.path.splitext(fname)[0] if (fmt != 'rp66' or len(repr(opts)) % 2 == 0) else fname)
    bad = []
    try:
        if variant.get('same_index_first') is not None:
            res, errors = convert_same_index(path_in, path_out, variant['same_index_first'], opts, os.path.join(workdir, 'first'))
        else:
            res, errors = convert(fmt, path_in, path_out, opts)
    except Exception as err:  # noqa
        return [({'kind': 'converter_raises', 'format': fmt, 'exc': type(err).__name__}, '%s: %s' % (type(err).__name__, err))], ('raise',)
    files = sorted(os.listdir(o))
    if res.ignored:
        return [({'kind': 'source_ignored', 'format': fmt, 'type': res.binary_file_type}, 'valid %s file ignored (identified as %r)' % (fmt, res.binary_file_type))], ('ignored',)
    if res.exception:
        why = errors[0] if errors else 'unknown'
        exc = why.split(':')[0]
        sig = {'kind': 'conversion_failed', 'format': fmt, 'exc': exc}
        if fmt == 'lis' and 'null_value' in why:
            sig['cause'] = 'LogPass has no attribute null_value'
        elif fmt == 'lis' and "'set' object has no attribute 'append'" in why:
            sig['cause'] = 'channel subset passed as a set of names to setFrameSet'
        elif fmt == 'rp66' and variant.get('origin') == 'minimal' and exc == 'TypeError':
            sig['cause'] = 'ORIGIN set without the optional well attributes'
        elif fmt == 'bit' and exc == 'ZeroDivisionError':
            sig['cause'] = 'single frame: spacing divides by frames - 1'
        return [(sig, 'conversion of a valid %s file failed: %s' % (fmt, '; '.join(errors[:2])))], ('exception', exc)
    live = [p for p in passes if p['n'] > 0]
    if len(files) != len(live):
        bad.append(({'kind': 'las_file_count', 'format': fmt}, '%d LAS files written for %d log passes: %r' % (len(files), len(live), files)))
        if len(files) < len(live):
            live = live[:len(files)]
    outcome = []
    for path, p in zip(files, live):
        with open(os.path.join(o, path)) as f:
            text = f.read()
        las = parse_las(text)
        n = p['n']
        sel = opts['sel']
        idx = model_indices(sel, n)
        cols = expected_columns(fmt, p, opts['channels'])
        if fmt == 'lis' and p['channels'][0].get('implied') and opts['channels'] and cols == [0]:
            # Registered defect: with an implied X axis and no existing requested channel nothing is read from the data
            # records and the X column is uninitialised memory; everything downstream of that is the same finding.
            xs_exact = [reduce_exact(p['channels'][0]['values'][f], 'first') for f in (idx if idx is not None else range(n))]
            rows0 = las['rows']
            if len(rows0) != len(xs_exact) or not all(len(r) == 1 and close_to(r[0], e) for r, e in zip(rows0, xs_exact)):
                bad.append(({'kind': 'lis_implied_x_not_loaded_when_no_requested_channel_exists'},
                            '%s: implied X axis and requested channels %r of which none exists: the X column is not the recorded X %r (uninitialised values)'
                            % (path, opts['channels'], [float(e) for e in xs_exact][:4])))
            outcome.append((path, len(rows0)))
            continue
        # readable by TotalDepth's own reader too
        try:
            from TotalDepth.LAS.core import LASRead
            import io
            LASRead.LASRead(io.StringIO(text), path)
        except Exception as err:  # noqa
            bad.append(({'kind': 'las_not_readable', 'format': fmt, 'exc': type(err).__name__}, '%s: LASRead fails: %s' % (path, str(err)[:200])))
        rows = las['rows']
        if opts['fmt'].endswith('e'):
            # the print precision is the one asked for: '.2e' prints every number with two decimals in its mantissa
            want = re.compile(r'^-?[0-9]\.[0-9]{%d}e[+-][0-9]+$' % int(opts['fmt'][1:-1]))
            odd = [cell for r in rows if len(r) == len(cols) for cell, c in zip(r, cols) if not p['channels'][c].get('int') and not want.match(cell)]
            if odd:
                bad.append(({'kind': 'cells_not_in_the_requested_format', 'format': fmt}, '%s: float format %r requested, cells written as %r' % (path, opts['fmt'], odd[:4])))
        if idx is None:        # sample of k: at most k rows, increasing, starting with the first frame - which frames is free
            k = sel[1]
            if not 1 <= len(rows) <= k:
                bad.append(({'kind': 'sample_row_count', 'format': fmt}, 'Sample(%d) of %d frames wrote %d rows' % (k, n, len(rows))))
            idx = match_rows_to_frames(rows, p, cols, opts, fmt)
            if idx is None and fmt == 'lis' and p['channels'][0].get('implied') and len(cols) > 1:
                # the implied X column may carry the registered defect F8: match on the recorded channels only
                idx = match_rows_to_frames([r[1:] for r in rows], p, cols[1:], opts, fmt)
            if idx is None or (idx and idx[0] != 0):
                bad.append(({'kind': 'sample_rows_are_not_increasing_frames_from_the_first', 'format': fmt},
                            '%s: Sample(%d) of %d frames: the %d rows written are not an increasing sequence of source frames starting with frame 0'
                            % (path, k, n, len(rows))))
                outcome.append((path, tuple(tuple(r) for r in rows)))
                continue
        if idx == []:
            # The selection takes no frame from this (shorter) pass: the statement asks nothing of its columns or well
            # section; whatever file is written for it must not hold data rows, and the conversion as a whole must succeed.
            if rows:
                bad.append(({'kind': 'rows_for_empty_selection', 'format': fmt}, '%s: %d rows written for an empty selection %r of %d frames' % (path, len(rows), sel, n)))
            outcome.append((path, 0))
            continue
        if len(rows) != len(idx):
            lost_last = len(rows) == len(idx) - 1
            bad.append(({'kind': 'row_count', 'format': fmt, 'last_selected_frame_missing': lost_last},
                        '%s: selection %r of %d frames is %r but %d rows were written' % (path, sel, n, idx, len(rows))))
        names = [m for m, _u in las['curves']]
        exp_names = [p['channels'][c]['name'].strip() for c in cols]
        if [x.strip(' \x00') for x in names] != exp_names:      # (padding of a name, blank or NUL, is not part of the name)
            bad.append(({'kind': 'curve_columns', 'format': fmt}, '%s: curve section lists %r, expected X + requested = %r' % (path, names, exp_names)))
        if rows and any(len(r) != len(cols) for r in rows):
            fused = all(len(r) < len(cols) for r in rows if len(r) != len(cols))
            bad.append(({'kind': 'row_width', 'format': fmt, 'columns_fused': fused},
                        '%s: data rows have %r cells, %d columns expected' % (path, sorted({len(r) for r in rows}), len(cols))))
        else:
            done = False
            for r, f in zip(rows, idx):
                for cell, c in zip(r, cols):
                    ch = p['channels'][c]
                    exact = reduce_exact(ch['values'][f], opts['reduction'] if fmt != 'bit' else 'first')
                    extra = abs(exact) * Fraction(1, 2 ** 22) if opts['reduction'] in ('mean', 'median') else 0
                    if not close_to(cell, exact, extra):
                        sig = {'kind': 'value', 'format': fmt, 'column': 'x' if c == 0 else 'channel'}
                        if fmt == 'bit' and c != 0 and close_to(cell, exact * Fraction(2 ** 24, 2 ** 24 - 1)):
                            sig = {'kind': 'bit_gen_floats_divisor_0xffffff'}
                        elif fmt == 'lis' and ch.get('implied') and len(cols) == 1 and opts['channels'] and all(float(rr[0]) == 0.0 for rr in rows):
                            sig = {'kind': 'lis_implied_x_not_loaded_when_no_requested_channel_exists'}
                        elif fmt == 'lis' and ch.get('implied') and p.get('spec') is not None:
                            from props import c06
                            bug = c06.bug_f8_vector(p['spec'], p['model'], idx)
                            if all(close_to(rr[0], Fraction(b)) for rr, b in zip(rows, bug)):
                                sig = {'kind': 'implied_x_extrapolated_from_previous_record'}
                        bad.append((sig, '%s: row for frame %d column %s: printed %s, source %s' % (path, f, ch['name'], cell, float(exact))))
                        done = True
                        break
                if done:
                    break
        # well section
        w = las['well']
        if rows and idx and len(rows) == len(idx):
            xs = [reduce_exact(p['channels'][0]['values'][f], 'first') for f in idx]
            whole = lis_whole_pass_well_section(p, sel) if fmt == 'lis' else {}
            if las.get('well_repeats'):
                bad.append(({'kind': 'well_section_repeats', 'format': fmt}, '%s: the well section gives %s more than once' % (path, sorted(set(las['well_repeats'])))))
            for key, exact in (('STRT', xs[0]), ('STOP', xs[-1])):
                if key not in w:
                    bad.append(({'kind': 'well_missing', 'format': fmt, 'mnem': key}, '%s: no %s line in the well section (has %r)' % (path, key, sorted(w))))
                elif not close_to(w[key][1], exact, abs(exact) * Fraction(1, 2 ** 22)):
                    if key in whole and close_to(w[key][1], whole[key], abs(whole[key]) * Fraction(1, 2 ** 22)):
                        bad.append(({'kind': 'lis_well_section_describes_whole_pass', 'mnem': key},
                                    '%s: %s %s is the value for the whole log pass; the %s row written has X %s (selection %r, %d frames, %d per record)'
                                    % (path, key, w[key][1], 'first' if key == 'STRT' else 'last', float(exact), sel, p['n'], p.get('fpr', 0))))
                        continue
                    bad.append(({'kind': 'well_start_stop', 'format': fmt, 'mnem': key},
                                '%s: %s %s but the %s row written has X %s (selection %r)' % (path, key, w[key][1], 'first' if key == 'STRT' else 'last', float(exact), sel)))
            if len(xs) > 1:
                step = (xs[-1] - xs[0]) / (len(xs) - 1)
                if 'STEP' not in w:
                    bad.append(({'kind': 'well_missing', 'format': fmt, 'mnem': 'STEP'}, '%s: no STEP line in the well section (has %r)' % (path, sorted(w))))
                elif not close_to(w['STEP'][1], step, abs(step) * Fraction(1, 2 ** 20)):
                    if 'STEP' in whole and close_to(w['STEP'][1], whole['STEP'], abs(whole['STEP']) * Fraction(1, 2 ** 20)):
                        bad.append(({'kind': 'lis_well_section_describes_whole_pass', 'mnem': 'STEP'},
                                    '%s: STEP %s is the whole-pass frame spacing times the slice step; mean spacing of the written rows is %s (selection %r)'
                                    % (path, w['STEP'][1], float(step), sel)))
                    else:
                        bad.append(({'kind': 'well_step', 'format': fmt}, '%s: STEP %s but mean spacing of the written rows is %s (selection %r)' % (path, w['STEP'][1], float(step), sel)))
        outcome.append((path, tuple(tuple(r) for r in rows)))
    return bad, h64(repr(outcome))


# ------------------------------------------------------------------------------------------------
def all_selections(n, negative_steps=False):
    rng = [None] + list(range(-n, n + 1))
    steps = [None] + list(range(1, n + 1)) + ([-1, -2, -n] if negative_steps else [])
    for a, b, s in itertools.product(rng, rng, steps):
        if list(range(n))[slice(a, b, s)]:
            yield ['slice', a, b, s]
    for k in range(1, n + 2):
        yield ['sample', k]


# Python slice semantics include negative steps.  The LIS frame loader documents step >= 1 only (C06), so they are enumerated
# for the formats whose converters take any slice.
NEGATIVE_STEP_FORMATS = ('rp66', 'bit')
DEFAULT = {'sel': None, 'channels': [], 'reduction': 'first', 'width': 16, 'fmt': '.3f'}
CHANNEL_SETS = {'rp66': [[], ['GR'], ['WAVE', 'GR'], ['NOPE'], ['DEPT'], ['WAVE']], 'lis': [[], ['GR  '], ['SP  ', 'GR  '], ['NOPE'], ['SP  ']],
                'bit': [[], ['COND'], ['NOPE'], ['SP  ', 'COND'], ['SN  ']]}


def gen_cases(tier, fmt):
    # part S
    for sel in all_selections(N, negative_steps=(fmt in NEGATIVE_STEP_FORMATS)):
        yield {'variant': {}, 'opts': dict(DEFAULT, sel=sel)}
    if tier == 'thorough':
        for sel in all_selections(10):
            yield {'variant': {'n': 10, 'fpr': 4, 'fpb': 4}, 'opts': dict(DEFAULT, sel=sel)}
    if fmt == 'lis':
        for sel in all_selections(N):
            yield {'variant': {'indirect': 68}, 'opts': dict(DEFAULT, sel=sel)}
    # part O
    sels = [None, ['slice', 1, None, 2], ['slice', None, -1, 3], ['slice', 2, 5, None], ['sample', 3], ['sample', 9]]
    for sel in sels:
        for chs in CHANNEL_SETS[fmt]:
            for red in ('first', 'mean', 'median', 'min', 'max'):
                for width in (4, 16):
                    for ff in ('.3f', '.6f'):
                        yield {'variant': {'indirect': 68} if (fmt == 'lis' and width == 4) else {},
                               'opts': {'sel': sel, 'channels': chs, 'reduction': red, 'width': width, 'fmt': ff}}
    # field widths around the printed width of the values (narrower, equal, one wider): columns must stay separate
    for width in (5, 6, 7, 8, 9, 10, 11):
        for ff in ('.3f', '.1f'):       # (not .0f: the index values must stay distinct as printed)
            yield {'variant': {}, 'opts': dict(DEFAULT, width=width, fmt=ff)}
            yield {'variant': {'two': True}, 'opts': dict(DEFAULT, width=width, fmt=ff, channels=CHANNEL_SETS[fmt][1])}
    # a float format other than fixed point (the option takes any '.N<type>'): exponent notation (with enough decimals to keep the X values apart)
    for ff in ('.5e', '.7e'):
        for sel in (None, ['slice', 1, None, 2]):
            yield {'variant': {}, 'opts': dict(DEFAULT, fmt=ff, sel=sel)}
            yield {'variant': {'two': True}, 'opts': dict(DEFAULT, fmt=ff, sel=sel, channels=CHANNEL_SETS[fmt][1])}
    if fmt == 'rp66':
        yield {'variant': {'origin': 'minimal'}, 'opts': dict(DEFAULT)}
        for chs in CHANNEL_SETS[fmt] + [['IMG'], ['MAT', 'GR'], ['IMG', 'WAVE']]:
            for sel in (None, ['slice', 1, None, 2], ['sample', 3]):
                for red in ('first', 'max'):
                    yield {'variant': {'img': True}, 'opts': dict(DEFAULT, sel=sel, channels=chs, reduction=red)}
    if fmt == 'rp66':
        # storage unit labels whose numbers contain zero digits / other spellings: the converter must not ignore the file
        for sul in ({'maxlen': 4096}, {'maxlen': 10240}, {'seq': 10}, {'seq_text': '0001', 'maxlen': 2048}, {'maxlen': 16384}):
            yield {'variant': {'sul': sul}, 'opts': dict(DEFAULT)}
        # one open index converted twice (public write_logical_index_to_las): a larger selection first, then a smaller one
        firsts = [dict(DEFAULT), dict(DEFAULT, sel=['slice', None, None, -1]), dict(DEFAULT, channels=['GR'])]
        for first in firsts:
            for sel in (['slice', 0, 3, 1], ['slice', 4, None, 2], ['sample', 2], None):
                for chs in ([], ['WAVE']):
                    for two in (False, True):
                        yield {'variant': dict({'two': True} if two else {}, same_index_first=first), 'opts': dict(DEFAULT, sel=sel, channels=chs)}
    if fmt == 'lis':
        # a format specification without data records in front of a log pass with frames (same logical file): one LAS file, for the pass with frames
        for chs in ([], ['GR  ']):
            for extra in ({}, {'two': True}):
                yield {'variant': dict(extra, empty_first=True), 'opts': dict(DEFAULT, channels=chs)}
        for chs in ([], ['GR  '], ['GR'], ['SP  ', 'GR  '], ['SP']):
            for extra in ({}, {'indirect': 68}):
                yield {'variant': dict(extra, nul=True), 'opts': dict(DEFAULT, channels=chs)}
        # dipmeter channels: one LAS column per sub-channel
        for dip in (130, 234):
            for extra in ({}, {'indirect': 68}, {'perm': True}):
                for chs in ([], ['RHDT'], ['GR  '], ['RHDT', 'SP  ']):
                    for red in ('first', 'mean', 'max'):
                        for sel in (None, ['slice', 1, None, 2]):
                            yield {'variant': dict(extra, dip=dip, n=5), 'opts': dict(DEFAULT, sel=sel, channels=chs, reduction=red)}
    # part Q: conversions that follow other conversions in the same process (same frame array identity and channel count,
    # channels in another order; a different length; a second pass)
    alts = [{}, {'perm': True}, {'n': 4}, {'two': True}] + ([{'indirect': 68}, {'indirect': 68, 'perm': True}] if fmt == 'lis' else [])
    for v in alts:
        for b in alts:
            if b == v:
                continue
            for chs in CHANNEL_SETS[fmt][:3]:
                for sel in (None, ['slice', 1, None, 2]):
                    yield {'variant': v, 'before': [b], 'opts': dict(DEFAULT, sel=sel, channels=chs)}
        if tier == 'thorough':
            for b0 in alts:
                for b1 in alts:
                    if b1 != v:
                        yield {'variant': v, 'before': [b0, b1], 'opts': dict(DEFAULT, channels=CHANNEL_SETS[fmt][1])}
    # part F
    if tier == 'thorough':
        # every channel subset x reduction x width x format against every 7-frame slice with a step (incl. negative ones)
        for sel in all_selections(N, negative_steps=(fmt in NEGATIVE_STEP_FORMATS)):
            if sel[0] != 'slice' or sel[3] in (None, 1):
                continue
            for chs in CHANNEL_SETS[fmt][1:3]:
                for red in ('mean', 'max'):
                    yield {'variant': {'two': True}, 'opts': {'sel': sel, 'channels': chs, 'reduction': red, 'width': 16, 'fmt': '.6f'}}
    ns = [1, 2, 3, 4, 5, 10] if tier == 'quick' else list(range(1, 13))
    for n in ns:
        for two in (False, True):
            for extra in ({}, {'indirect': 68}, {'layout': 'split'}, {'fpr': 4, 'fpb': 2}, {'updown': 1, 'xyz': (97, 100, 0.25)}):
                if fmt != 'lis' and 'indirect' in extra:
                    continue
                v = dict(extra, n=n)
                if fmt == 'lis' and v.get('layout') == 'split':
                    v['layout'] = {'maxlen': 48, 'tif': 'normal'}
                if fmt == 'bit':
                    v.pop('layout', None)
                if two:
                    v['two'] = True
                for sel in (None, ['slice', None, None, 2], ['sample', 2]):
                    yield {'variant': v, 'opts': dict(DEFAULT, sel=sel)}
                if two and not extra and n >= 5:
                    # a selection that takes frames from the longer pass and none from the shorter one
                    for chs in CHANNEL_SETS[fmt][:2]:
                        for sel in (['slice', n - 1, None, None], ['slice', n - 2, n - 1, 2], ['slice', 0, -max(1, n - 3), 2], ['slice', 1, -max(1, n - 3), 3]):
                            yield {'variant': dict(v, n1=max(1, n - 3)), 'opts': dict(DEFAULT, sel=sel, channels=chs)}
                if fmt == 'lis' and two and not extra:
                    yield {'variant': dict(v, cons2=False), 'opts': dict(DEFAULT)}
                    yield {'variant': dict(v, cons2=False, cons=False), 'opts': dict(DEFAULT)}


def shards(tier):
    return [{'fmt': f, 'part': p, 'of': 32} for f in ('rp66', 'lis', 'bit') for p in range(32)]


def run_shard(shard, tier):
    res = Result()
    fmt = shard['fmt']
    workdir = os.path.join(seams.SCRATCH, 'c11-%d' % os.getpid())
    seen = set()
    try:
        for i, case in enumerate(gen_cases(tier, fmt)):
            if i % shard['of'] != shard['part']:
                continue
            key = repr(case)
            if key in seen:
                continue
            seen.add(key)
            bad, outcome = check_conversion(fmt, case['variant'], case['opts'], workdir, case.get('before', ()))
            full = dict(case, fmt=fmt)
            res.case(h64((fmt, key)), nontrivial=case['opts'] != DEFAULT or bool(case['variant']), outcome=outcome,
                     sample=full if i % 997 == 3 else None)
            res.count('conversions_' + fmt)
            for sig, msg in bad:
                res.violate(sig, full, msg)
    finally:
        shutil.rmtree(workdir, ignore_errors=True)
    return res


def replay(case):
    workdir = os.path.join(seams.SCRATCH, 'c11-replay-%d' % os.getpid())
    try:
        bad, _ = check_conversion(case['fmt'], case['variant'], case['opts'], workdir, case.get('before', ()))
    finally:
        shutil.rmtree(workdir, ignore_errors=True)
    return [{'sig': s, 'case': case, 'msg': m} for s, m in bad]
