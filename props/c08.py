"""C08 - LIS tables and format specifications survive encode then decode (E1 enumeration)."""
import itertools
import struct
from fractions import Fraction

from mc.run import Result, h64
from mc.seams import CountingBytesIO
from models import lis_ref as L

ID = 'C08'
LEVEL = 'exploration'
NEEDS_EXT = True
ENGINE = 'E1 small-scope enumerator'
DESIGN_REF = 'DESIGN.md section 4, C08'
TECHNIQUE = ('bounded exhaustive enumeration of table content models and format specifications; the library writers '
             '(LrTableWrite, EntryBlockSet, ChannelSpec) are compared byte for byte with an independent LIS-79 encoder and their '
             'output, cut into physical records, is decoded by the real readers and compared with the model')
RULE = ('T: record type {32,34,39} x table name x 1-3 column mnemonics x 0-3 rows x cell values over bytes of length '
        '{0,1,2,4,5,13}, integers at every 8/16/32 bit boundary, floats, with/without units, duplicate row names; full product for '
        '<= 2 rows x <= 2 columns, one-deviation for 3; physical record capacity small/large. E: every subset of entry blocks '
        '1..16 (without 10) with one legal value each, every block alone with each legal (size, code, value) variant, 1-3 channel '
        'blocks over (code, samples, bursts in {1,2,4}) and both dipmeter codes. non-trivial = at least one row / one set block; '
        'outcome = hash of what the reader returned')
ASSUMPTIONS = ['a cell in a column labelled MNEM is text (the library builds its mnemonic map from that column); rows named by integers and floats are enumerated under first-column labels NUMB and TOP',
               'floats are expected to read back as the code 68 value nearest to the written number',
               'tables always carry the table-name block (LrTableWrite cannot write single-parameter tables)',
               'entry block values are the ones LIS-79 gives a meaning to; datum specification block sub-type 0 only']
BOUNDS = {'quick': 'T: about 40 k tables; E: all 2^15 subsets + variants + 150 channel lists',
          'thorough': 'T: 3 rows x 3 columns over the full cell alphabet for 4 cell kinds; E: subsets x 3 channel lists'}
LEVEL_TEXT = ('Every table / format specification of the stated alphabets is written by the library, compared with the reference '
              'encoding, split into physical records by the reference producer, read back by the library and compared field by field.')
LEVEL_NOTE = 'trusted: models/lis_ref.py (component block / entry block / datum specification block encoders)'

NAMES = [b'CONS', b'FILM', b'A   ', b'AB\x00\x00', b'1234']
COLS = [b'MNEM', b'STAT', b'VALU', b'X   ', b'PU\x00\x00']
BYTES_VALUES = [b'', b'A', b'ON', b'ALLO', b'12345', b'thirteen char']      # lengths 0, 1, 2 (a pair, like (value, units)), 4, 5, 13
INT_VALUES = [0, 255, 256, -1, -128, -129, 32767, 32768, -32768, -32769, 2 ** 31 - 1, -2 ** 31]
FLOAT_VALUES = [0.0, 1.5, -153.0, 0.001, 1e30]
UNITS = [None, b'FEET', b'IN  ']


def expected_value(v):
    if isinstance(v, float):
        return float(L.dec68(L.enc68_nearest(Fraction(v))))
    return v


def exact68(v):
    return L.dec68(L.enc68_nearest(Fraction(v))) == Fraction(v)


def same_value(got, written):
    """Floats: the encoder may round either way, the statement (C07) allows a loss below one part in 2^22."""
    if isinstance(written, float):
        if not isinstance(got, float):
            return False
        return abs(Fraction(got) - Fraction(written)) <= abs(Fraction(written)) / (1 << 22)
    return got == written and type(got) == type(written)


def cell_kind(v):
    if isinstance(v, bytes):
        return 'bytes%d' % len(v)
    if isinstance(v, float):
        return 'float'
    if 0 <= v <= 255:
        return 'int8'
    if -32768 <= v <= 32767:
        return 'int16'
    return 'int32'


# ------------------------------------------------------------------------------------------------
# tables
# ------------------------------------------------------------------------------------------------
def norm_cell(cell):
    if isinstance(cell, (list, tuple)):
        return cell[0], cell[1]
    return cell, None


def check_table(case):
    """case: {'lrtype','name','cols':[...], 'rows':[[cell...]], 'maxlen'}; cell = value | [value, units]"""
    from TotalDepth.LIS.core import LogiRec, File
    cols = case['cols']
    rows = [[norm_cell(c) for c in row] for row in case['rows']]
    bad = []
    kinds = sorted({cell_kind(v) for row in rows for v, _u in row})
    # units given explicitly as nothing - (value, b'') or (value, None), written 'NONE' in the case - mean what a bare value means
    table_arg = [[((v, None if u == 'NONE' else u) if u is not None else v) for v, u in row] for row in rows]
    rows = [[(v, None if u in (b'', 'NONE') else u) for v, u in row] for row in rows]
    try:
        tw = LogiRec.LrTableWrite(case['lrtype'], case['name'], cols, table_arg)
        body = bytes([case['lrtype'], 0]) + b''.join(bytes(b) for b in tw.genLisBytes())
    except Exception as err:  # noqa
        sig = {'kind': 'table_write_raises', 'exc': type(err).__name__, 'int16_cell': 'int16' in kinds}
        return [(sig, 'LrTableWrite%r: %s: %s' % ((case['lrtype'], case['name'], cols, table_arg), type(err).__name__, err))], ('raise',)
    # the rows given as a one-shot iterable (a zip or a generator, walked once) make the same table
    try:
        tw3 = LogiRec.LrTableWrite(case['lrtype'], case['name'], cols, (row for row in table_arg))
        body3 = bytes([case['lrtype'], 0]) + b''.join(bytes(b) for b in tw3.genLisBytes())
        if body3 != body:
            bad.append(({'kind': 'table_bytes_from_a_generator_differ'}, 'rows given as a generator: %d bytes, as a list %d bytes' % (len(body3), len(body))))
    except Exception as err:  # noqa
        bad.append(({'kind': 'table_write_raises', 'exc': type(err).__name__, 'rows': 'generator'}, 'rows given as a generator: %s: %s' % (type(err).__name__, err)))
    # the same table in the other sequence types a caller may hold it in: rows as tuples, (value, units) pairs as lists, labels as a tuple
    try:
        tw4 = LogiRec.LrTableWrite(case['lrtype'], case['name'], tuple(cols), tuple(tuple(list(c) if isinstance(c, tuple) else c for c in row) for row in table_arg))
        body4 = bytes([case['lrtype'], 0]) + b''.join(bytes(b) for b in tw4.genLisBytes())
        if body4 != body:
            bad.append(({'kind': 'table_bytes_from_other_sequence_types_differ'}, 'rows as tuples, pairs as lists, labels as a tuple: %d bytes, as lists of tuples %d bytes' % (len(body4), len(body))))
    except Exception as err:  # noqa
        bad.append(({'kind': 'table_write_raises', 'exc': type(err).__name__, 'rows': 'tuples of lists'}, 'rows as tuples, (value, units) pairs as lists: %s: %s' % (type(err).__name__, err)))
    # a composing call that the library refuses (a row-start block handed to addDatumBlock, an explicit raise) leaves the table as it was:
    # the same bytes and the same column labels as the writer that was never asked
    try:
        tw5 = LogiRec.LrTableWrite(case['lrtype'], case['name'], cols, table_arg)
        try:
            tw5.addDatumBlock(LogiRec.CbEngValWrite(0, b'XX  ', b'ZZZZ'))
            refused = False
        except LogiRec.ExceptionLrTableCompose:
            refused = True
        body5 = bytes([case['lrtype'], 0]) + b''.join(bytes(b) for b in tw5.genLisBytes())
        if refused and (body5 != body or list(tw5.colLabels()) != list(tw.colLabels())):
            bad.append(({'kind': 'table_changed_by_a_refused_block'}, 'after a refused addDatumBlock() the table has columns %r and %d bytes, the writer never asked %r and %d bytes'
                        % (list(tw5.colLabels()), len(body5), list(tw.colLabels()), len(body))))
    except Exception as err:  # noqa
        bad.append(({'kind': 'table_write_raises', 'exc': type(err).__name__, 'rows': 'after a refused block'}, 'write after a refused addDatumBlock(): %s: %s' % (type(err).__name__, err)))
    # listing the rows (in any order) is a query: a second writer that is asked for its sorted row names first writes the same bytes
    try:
        tw2 = LogiRec.LrTableWrite(case['lrtype'], case['name'], cols, table_arg)
        listed = [list(tw2.genRowNames(sort=s)) for s in (1, -1, 0)]
        body2 = bytes([case['lrtype'], 0]) + b''.join(bytes(b) for b in tw2.genLisBytes())
        if body2 != body:
            bad.append(({'kind': 'table_bytes_after_listing'}, 'after genRowNames(sort=1/-1/0) (%r) the table is written as %s, without the listing as %s'
                        % (listed[0], body2.hex(), body.hex())))
    except Exception as err:  # noqa
        bad.append(({'kind': 'table_listing_raises', 'exc': type(err).__name__}, 'genRowNames then genLisBytes: %s: %s' % (type(err).__name__, err)))
    # model: duplicate row names are dropped, the first is kept
    kept, seen = [], set()
    for row in rows:
        key = row[0][0]
        if key in seen:
            continue
        seen.add(key)
        kept.append(row)
    ref_rows = [[(v, u) if u is not None else v for v, u in row] for row in kept]
    ref = L.table_record(case['lrtype'], case['name'], cols, ref_rows)
    all_exact = all(exact68(v) for row in kept for v, _u in row if isinstance(v, float))
    if all_exact and body != ref:
        bad.append(({'kind': 'table_bytes'}, 'LrTableWrite bytes %s differ from the LIS-79 encoding %s' % (body.hex(), ref.hex())))
    data, _lay = L.build_file([body], case.get('maxlen', 65535))
    try:
        fr = File.FileRead(CountingBytesIO(data), 'x', keepGoing=False)
        tr = LogiRec.LrTableRead(fr)
        got_name = tr.value
        sorted_names = list(tr.genRowNames(sort=1))      # a query before the rows are read must not change them
        got_rows = []
        for r in tr.genRows():
            got_rows.append([(c.mnem, c.value, c.units) for c in r.genCells()])
        got_cols = list(tr.colLabels())
        got_type = tr.type
    except Exception as err:  # noqa
        return bad + [({'kind': 'table_read_raises', 'exc': type(err).__name__}, '%s: %s' % (type(err).__name__, err))], ('raise',)
    exp_rows = [[(cols[c], v, u if u is not None else b'    ') for c, (v, u) in enumerate(row)] for row in kept]
    if got_type != case['lrtype'] or got_name != case['name']:
        bad.append(({'kind': 'table_name'}, '(type, name)=%r written %r' % ((got_type, got_name), (case['lrtype'], case['name']))))
    if [r[0][1] for r in got_rows] != [r[0][1] for r in exp_rows]:
        bad.append(({'kind': 'row_order'}, 'rows %r written %r (duplicates dropped, first kept)' % ([r[0][1] for r in got_rows], [r[0][1] for r in exp_rows])))
    else:
        for gr, er in zip(got_rows, exp_rows):
            for g, e in zip(gr, er):
                if not (g[0] == e[0] and g[2] == e[2] and same_value(g[1], e[1])):
                    last = (g is gr[-1]) and (gr is got_rows[-1])
                    bad.append(({'kind': 'cell', 'cell_kind': cell_kind(e[1]), 'got_none': g[1] is None, 'last_block': last},
                                'cell (mnem, value, units)=%r written %r' % (g, e)))
                    break
            if len(gr) != len(er):
                bad.append(({'kind': 'row_length'}, 'row has %d cells, %d written' % (len(gr), len(er))))
    exp_cols = cols if kept else []
    if got_cols != list(exp_cols):
        bad.append(({'kind': 'column_set'}, 'columns %r written %r' % (got_cols, list(exp_cols))))
    return bad, h64(repr((got_name, got_rows, got_cols)))


def gen_tables(tier, part, of):
    i = 0
    cells = [v for v in BYTES_VALUES] + INT_VALUES + FLOAT_VALUES
    unit_cells = [[b'ALLO', b'FEET'], [7, b'IN  '], [1.5, b'FEET'], [300, b'    '], [1.5, b''], [7, 'NONE'], [b'ALLO', b'']]
    for lrtype in (32, 34, 39):
        for name in NAMES:
            # 0 rows
            i += 1
            if i % of == part:
                yield {'lrtype': lrtype, 'name': name, 'cols': COLS[:2], 'rows': []}
    first_cells = [b'ROW1', b'R2  ', b'', b'A', b'thirteen char', [b'ROW1', b'FEET'], [b'R2  ', b'IN  ']]   # row names in a MNEM column are text (see ASSUMPTIONS), with or without units
    # 1 row x 1-2 columns, full product of cells (+ units)
    for lrtype, name in ((34, b'CONS'), (32, b'A   '), (39, b'AB\x00\x00')):
        for maxlen in (65535, 24):
            for c0 in first_cells:
                i += 1
                if i % of == part:
                    yield {'lrtype': lrtype, 'name': name, 'cols': COLS[:1], 'rows': [[c0]], 'maxlen': maxlen}
                for c1 in cells + unit_cells:
                    i += 1
                    if i % of == part:
                        yield {'lrtype': lrtype, 'name': name, 'cols': COLS[:2], 'rows': [[c0, c1]], 'maxlen': maxlen}
    # 2 rows x 2 columns: full product of second-column cells, row names incl. a duplicate
    # (names that share their first four bytes are different names)
    for r0, r1 in ((b'ROW1', b'R2  '), (b'ROW1', b'ROW1'), (b'', b''), (b'R2  ', b''), (b'DEPTH1', b'DEPTH2'), (b'ROW1', b'ROW1B')):
        for c0 in cells:
            for c1 in cells:
                i += 1
                if i % of == part:
                    yield {'lrtype': 34, 'name': b'CONS', 'cols': COLS[:2], 'rows': [[r0, c0], [r1, c1]], 'maxlen': 65535 if i % 3 else 30}
    # 3 rows x 3 columns: canonical table + one deviating cell (quick) / products over 4 cell kinds (thorough)
    base = [[b'ROW1', b'ALLO', 1.5], [b'R2  ', b'DISA', 2.5], [b'R3  ', b'ALLO', 3.5]]
    for r in range(3):
        for c in range(3):
            for v in (cells + unit_cells if c else BYTES_VALUES):
                rows = [list(x) for x in base]
                rows[r][c] = v
                i += 1
                if i % of == part:
                    yield {'lrtype': 34, 'name': b'FILM', 'cols': COLS[:3], 'rows': rows, 'maxlen': 65535 if i % 2 else 40}
    for dup in ((0, 1), (0, 2), (1, 2), (0, 1, 2)):
        rows = [list(x) for x in base]
        for d in dup[1:]:
            rows[d][0] = rows[dup[0]][0]
        i += 1
        if i % of == part:
            yield {'lrtype': 34, 'name': b'FILM', 'cols': COLS[:3], 'rows': rows}
    # rows named by numbers (first column not labelled MNEM): every ordered selection with repetition of 1-3 names
    num_names = [0, 1, 2, 40, -300, 1000.5] + ([65536, -0.25] if tier == 'thorough' else [])
    for first_label in (b'NUMB', b'TOP '):
        cols = [first_label, b'NAME', b'LENG']
        for nrows in (1, 2, 3):
            for names in itertools.product(num_names, repeat=nrows):
                i += 1
                if i % of == part:
                    rows = [[nm, b'row %d' % k, [1.5 + k, b'FEET']] for k, nm in enumerate(names)]
                    yield {'lrtype': 34 if i % 2 else 39, 'name': b'TOOL', 'cols': cols, 'rows': rows, 'maxlen': 65535 if i % 3 else 40}
                    if nrows <= 2:
                        # the cell that names the row may carry units like any other cell
                        rows = [[[nm, [b'FEET', b'M   ', b'FT  '][k]], b'row %d' % k, 2.5 + k] for k, nm in enumerate(names)]
                        yield {'lrtype': 34, 'name': b'ZONE', 'cols': cols, 'rows': rows, 'maxlen': 65535}
    if tier == 'thorough':
        reduced = [b'', b'ALLO', 300, -129, 1.5, 2 ** 31 - 1, [7, b'IN  '], 0, b'thirteen char']
        for combo in itertools.product(reduced, repeat=6):
            rows = [[b'ROW1', combo[0], combo[1]], [b'R2  ', combo[2], combo[3]], [b'R3  ', combo[4], combo[5]]]
            i += 1
            if i % of == part:
                yield {'lrtype': 34, 'name': b'FILM', 'cols': COLS[:3], 'rows': rows, 'maxlen': 65535 if i % 2 else 40}


# ------------------------------------------------------------------------------------------------
# entry blocks / datum specification blocks
# ------------------------------------------------------------------------------------------------
EB_VARIANTS = {
    1: [(66, 0), (66, 1)],
    2: [(66, 0)],
    3: [(79, 36), (66, 36), (73, 100000)],
    4: [(66, 1), (66, 255), (66, 0)],
    5: [(66, 255), (66, 1), (66, 0)],
    6: [(68, 12.5), (73, 7)],
    7: [(65, b'FEET'), (65, b'.1IN')],
    8: [(68, 0.5), (66, 60), (73, 600), (79, 600)],
    9: [(65, b'FEET'), (65, b'.1IN'), (65, b'S   ')],
    11: [(66, 250), (79, 1000)],
    12: [(68, -999.25), (68, 0.0)],
    13: [(66, 0), (66, 1)],
    14: [(65, b'FEET'), (65, b'M   ')],
    15: [(66, 68), (66, 73)],
    16: [(66, 0), (66, 1)],
}
# an entry block may be empty (size 0, no value): it must decode as written, not as the block's built-in default
# (not block 2, the datum specification block type: without it the channel blocks cannot be read and the library refuses)
EB_EMPTY_CODE = {1: 66, 3: 79, 4: 66, 5: 66, 6: 68, 7: 65, 8: 68, 9: 65, 11: 66, 12: 68, 13: 66, 14: 65, 15: 66, 16: 66}
for _t, _rc in EB_EMPTY_CODE.items():
    EB_VARIANTS[_t] = EB_VARIANTS[_t] + [(_rc, None)]
EB_TYPES = sorted(EB_VARIANTS)
EB_ATTR = {1: 'dataType', 2: 'dsbType', 4: 'upDown', 5: 'optLogScale', 8: 'frameSpacing', 9: 'frameSpacingUnits',
           12: 'absentValue', 13: 'recordingMode', 14: 'depthUnits', 15: 'depthRepCode'}


def eb_value_bytes(rc, v):
    if v is None:
        return b''
    if rc == 65:
        return v
    if rc == 68:
        return L.enc68_nearest(Fraction(v))
    return L.encode(rc, v)


def parse_entry_blocks(by):
    """Independent parse of an entry block section: list of (type, size, rc, value bytes); stops after the terminator."""
    out, i = [], 0
    while i < len(by):
        t, s, rc = by[i], by[i + 1], by[i + 2]
        out.append((t, s, rc, by[i + 3:i + 3 + s]))
        i += 3 + s
        if t == 0:
            break
    return out, i


DSB_ALPHABET = [(68, 1, 1), (68, 1, 2), (68, 2, 2), (79, 1, 4), (49, 2, 1), (66, 1, 1), (73, 1, 1), (50, 1, 1), (56, 4, 1), (70, 1, 2),
                (77, 1, 1), (130, 1, 1), (234, 1, 1)]


def dsb_model(k, code, samples, bursts):
    mnem = [b'DEPT', b'GR  ', b'C\x00\x00\x00', b'SP 1'][k % 4]
    units = [b'FEET', b'GAPI', b'    ', b'MV  '][k % 4]
    if code == 130:
        size = 80
    elif code == 234:
        size = 90
    else:
        size = L.RC_SIZE[code] * samples * bursts
    return {'mnem': mnem, 'units': units, 'code': code, 'samples': samples, 'bursts': bursts, 'size': size,
            'api': [45310011, 0, 99999999, 7350010][k % 4], 'file': [1, 0, 255, -1][k % 4]}


def check_dfsr(case):
    """case: {'ebs': [[type, rc, value], ...], 'dsbs': [[code, samples, bursts], ...], 'maxlen'}"""
    from TotalDepth.LIS.core import LogiRec, File, LisGen
    bad = []
    blocks = [(t, rc, tuple(v) if isinstance(v, list) else v) for t, rc, v in case['ebs']]
    has16 = any(rc == 79 for _t, rc, _v in blocks)
    try:
        ebs = LogiRec.EntryBlockSet()
        for t, rc, v in blocks:
            vb = eb_value_bytes(rc, v)
            ebs.setEntryBlock(LogiRec.EntryBlock(t, len(vb), rc, v))
        eb_bytes = bytes(ebs.lisBytes())
        # the list of encoded blocks handed out is the caller's (who appends the channel blocks to it): the set encodes as before afterwards
        if hasattr(ebs, 'lisByteList'):
            mine = ebs.lisByteList()
            mine.append(b'CHANNEL BLOCKS OF THE CALLER')
            again = bytes(ebs.lisBytes())
            if again != eb_bytes:
                bad.append(({'kind': 'entry_block_list_aliased'}, 'after the caller appended to the list returned by lisByteList() the set encodes as %d bytes, %d before'
                            % (len(again), len(eb_bytes))))
    except Exception as err:  # noqa
        return [({'kind': 'entry_block_write_raises', 'exc': type(err).__name__, 'int16_value': has16},
                 'EntryBlockSet with %r: %s: %s' % (blocks, type(err).__name__, err))], ('raise',)
    parsed, used = parse_entry_blocks(eb_bytes)
    if used != len(eb_bytes) or not parsed or parsed[-1][0] != 0:
        bad.append(({'kind': 'entry_block_layout'}, 'entry block section does not end with one terminator: %s' % eb_bytes.hex()))
    if len(eb_bytes) % 2:
        bad.append(({'kind': 'entry_block_set_odd_length'}, 'entry block set is %d bytes long (must be even)' % len(eb_bytes)))
    by_type = {p[0]: p for p in parsed}
    for t, rc, v in blocks:
        vb = eb_value_bytes(rc, v)
        if rc == 68 and v is not None and not exact68(v):
            continue
        if by_type.get(t) != (t, len(vb), rc, vb):
            bad.append(({'kind': 'entry_block_bytes', 'type': t}, 'entry block %d written as %r, LIS-79 encoding is %r' % (t, by_type.get(t), (t, len(vb), rc, vb))))
    if [p[0] for p in parsed[:-1]] != sorted(p[0] for p in parsed[:-1]):
        bad.append(({'kind': 'entry_block_order'}, 'entry blocks not in type order: %r' % [p[0] for p in parsed]))
    # channel blocks: reference encoder; the library's own ChannelSpec writer must agree with it
    dsbs = [dsb_model(k, *d) for k, d in enumerate(case['dsbs'])]
    dsb_bytes = b''
    for d in dsbs:
        ref = L.dsb(d['mnem'], d['units'], d['size'], d['samples'], d['code'], api=d['api'], file_number=d['file'])
        try:
            lib = LisGen.ChannelSpec(d['mnem'], b'SERVID', b'ORDER   ', d['units'], d['api'], d['file'], d['size'], d['samples'], d['code']).dsbBytes
            if bytes(lib) != ref:
                bad.append(({'kind': 'dsb_bytes'}, 'ChannelSpec.dsbBytes %s, LIS-79 encoding %s' % (bytes(lib).hex(), ref.hex())))
        except Exception as err:  # noqa
            bad.append(({'kind': 'dsb_write_raises', 'exc': type(err).__name__}, '%s: %s' % (type(err).__name__, err)))
        dsb_bytes += ref
    body = bytes([64, 0]) + eb_bytes + dsb_bytes
    data, _lay = L.build_file([body], case.get('maxlen', 65535))
    try:
        fr = File.FileRead(CountingBytesIO(data), 'x', keepGoing=False)
        d = LogiRec.LrDFSRRead(fr)
    except Exception as err:  # noqa
        return bad + [({'kind': 'dfsr_read_raises', 'exc': type(err).__name__}, '%s: %s' % (type(err).__name__, err))], ('raise',)
    for t, rc, v in blocks:
        eb = d.ebs[t]
        exp = v
        if (eb.type, eb.repCode) != (t, rc) or not same_value(eb.value, exp):
            bad.append(({'kind': 'entry_block_value', 'type': t}, 'entry block %d decoded (type, code, value)=%r written %r'
                        % (t, (eb.type, eb.repCode, eb.value), (t, rc, exp))))
        if exp is not None and t in EB_ATTR and not same_value(getattr(d.ebs, EB_ATTR[t]), exp):
            bad.append(({'kind': 'entry_block_attribute', 'type': t}, 'ebs.%s=%r written %r' % (EB_ATTR[t], getattr(d.ebs, EB_ATTR[t]), exp)))
    got = []
    for b in d.dsbBlocks:
        got.append({'mnem': b.mnem, 'units': b.units, 'size': b.size, 'code': b.repCode, 'subch': b.subChannels,
                    'samples': [b.samples(sc) for sc in range(b.subChannels)], 'bursts': [b.bursts(sc) for sc in range(b.subChannels)],
                    'api': (b.apiLogType, b.apiCurveType, b.apiCurveClass, b.apiModifier), 'file': b.fileNumber})
    exp = []
    for m in dsbs:
        if m['code'] == 130:
            sub, sam, bur = 5, [16] * 5, [1] * 5
        elif m['code'] == 234:
            sub, sam, bur = 15, [16] * 5 + [1] * 10, [1] * 15
        else:
            sub, sam, bur = 1, [m['samples']], [m['bursts']]
        a = m['api']
        exp.append({'mnem': m['mnem'], 'units': m['units'], 'size': m['size'], 'code': m['code'], 'subch': sub, 'samples': sam,
                    'bursts': bur, 'api': (a // 1000000, (a % 1000000) // 1000, (a % 1000) // 10, a % 10), 'file': m['file']})
    if got != exp:
        for g, e in zip(got, exp):
            if g != e:
                bad.append(({'kind': 'channel_definition'}, 'channel decoded %r written %r' % (g, e)))
                break
        if len(got) != len(exp):
            bad.append(({'kind': 'channel_count'}, '%d channels decoded, %d written' % (len(got), len(exp))))
    if d.frameSize() != sum(m['size'] for m in dsbs):
        bad.append(({'kind': 'frame_size'}, 'frameSize()=%r' % d.frameSize()))
    return bad, h64(repr((eb_bytes, got)))


def gen_dfsr(tier, part, of):
    i = 0
    dsb_lists = [[DSB_ALPHABET[0]]]
    # every subset of entry blocks, first legal variant each (value cycles with the subset index so both parities occur)
    for mask in range(1 << len(EB_TYPES)):
        i += 1
        if i % of != part:
            continue
        ebs = []
        for b, t in enumerate(EB_TYPES):
            if mask >> b & 1:
                vs = EB_VARIANTS[t]
                rc, v = vs[(mask >> 3) % len(vs)] if tier == 'thorough' else vs[0]
                ebs.append([t, rc, v])
        yield {'ebs': ebs, 'dsbs': [list(DSB_ALPHABET[mask % len(DSB_ALPHABET)])], 'maxlen': 65535 if mask % 4 else 50}
    # every block alone with each legal variant; and pairs of variants for neighbouring blocks
    for t in EB_TYPES:
        for rc, v in EB_VARIANTS[t]:
            i += 1
            if i % of == part:
                yield {'ebs': [[t, rc, v]], 'dsbs': [list(DSB_ALPHABET[0])]}
            for t2 in EB_TYPES:
                if t2 <= t:
                    continue
                for rc2, v2 in EB_VARIANTS[t2]:
                    i += 1
                    if i % of == part:
                        yield {'ebs': [[t, rc, v], [t2, rc2, v2]], 'dsbs': [list(DSB_ALPHABET[1])], 'maxlen': 65535 if i % 2 else 46}
    # 1-3 channel blocks
    base = [[4, 66, 255], [8, 68, 0.5], [9, 65, b'FEET']]
    for n in (1, 2, 3):
        for combo in itertools.product(DSB_ALPHABET, repeat=n):
            if n == 3 and not (combo[0][0] == 68 and combo[0][1:] == (1, 1)):
                continue
            i += 1
            if i % of == part:
                yield {'ebs': base, 'dsbs': [list(c) for c in combo], 'maxlen': 65535 if i % 2 else 60}


def shards(tier):
    return [{'gen': 'T', 'part': p, 'of': 32} for p in range(32)] + [{'gen': 'E', 'part': p, 'of': 48} for p in range(48)]


def jsonable(x):
    if isinstance(x, bytes):
        return {'b': x.hex()}
    if isinstance(x, dict):
        return {k: jsonable(v) for k, v in x.items()}
    if isinstance(x, (list, tuple)):
        return [jsonable(v) for v in x]
    return x


def unjson(x):
    if isinstance(x, dict):
        if set(x) == {'b'}:
            return bytes.fromhex(x['b'])
        return {k: unjson(v) for k, v in x.items()}
    if isinstance(x, list):
        return [unjson(v) for v in x]
    return x


def run_shard(shard, tier):
    res = Result()
    if shard['gen'] == 'T':
        for n, case in enumerate(gen_tables(tier, shard['part'], shard['of'])):
            bad, outcome = check_table(case)
            jc = {'table': jsonable(case)}
            res.case(h64(repr(case)), nontrivial=bool(case['rows']), outcome=outcome, sample=jc if n == 50 else None)
            res.count('tables')
            for sig, msg in bad:
                res.violate(sig, jc, msg)
    else:
        for n, case in enumerate(gen_dfsr(tier, shard['part'], shard['of'])):
            bad, outcome = check_dfsr(case)
            jc = {'dfsr': jsonable(case)}
            res.case(h64(repr(case)), nontrivial=bool(case['ebs']), outcome=outcome, sample=jc if n == 50 else None)
            res.count('format_specifications')
            for sig, msg in bad:
                res.violate(sig, jc, msg)
    return res


def replay(case):
    if 'table' in case:
        bad, _ = check_table(unjson(case['table']))
    else:
        bad, _ = check_dfsr(unjson(case['dfsr']))
    return [{'sig': s, 'case': case, 'msg': m} for s, m in bad]
