"""C06 - LIS log pass frame sets are exact; any sub-selection is a sub-matrix (E1 files x E2 load histories)."""
import itertools
from fractions import Fraction

import numpy as np

from mc import bfs
from mc.run import Result, h64
from mc.seams import CountingBytesIO
from models import lis_ref as L

ID = 'C06'
LEVEL = 'model_checking'
NEEDS_EXT = True
ENGINE = 'E2 explicit-state search'
DESIGN_REF = 'DESIGN.md section 4, C06'
TECHNIQUE = ('bounded exhaustive enumeration of LIS files (format specification x frame count x frames per record x '
             'surrounding records x physical layout) from an independent LIS-79 producer, every slice/channel-subset load on '
             'the real FileIndex/LogPass compared with the model sub-matrix, and explicit-state BFS over sequences of loads')
RULE = ('part V: every channel configuration (9 codes x samples x bursts, 1-3 channels) x X mode {explicit, implied} x (frames, '
        'frames per record) in {(1,1),(5,2),(4,4)} x 3 selections x every channel subset; part S: 3 configurations x X mode '
        '{explicit, implied code 68, implied code 73} x direction {up, down, neither} x spacing {1/2, 1/10, convertible units} x '
        'frames 1..N x frames per record 1..4 x every slice(a,b,s), 0<=a<b<=n, 1<=s<=n; part I: surroundings (reel/tape/file '
        'headers and trailers, tables, unknown-format records, a second pass) x physical record length x TIF: index entries; part '
        'P: frames-per-record patterns that are not "k,..,k,short last" x X mode x direction x selections starting at record '
        'boundaries; part D: a normal (type 0) and an alternate (type 1) format specification in one logical file, data records '
        'interleaved in every listed order; part O: every slice(a, b, s) with a, b in {None, -n-1..n+2}, s in {None,1,2,3} that is not of the concrete form 0 <= a < b <= n, for n in {1,4,7}; part H: BFS over setFrameSet histories. Every load is also read back through '
        'value(frame,channel,sub-channel,sample,burst) and the per-channel views. non-trivial = any selection or more than one data record; outcome = hash of loaded matrix')
ASSUMPTIONS = ['slices: any start and stop (None, negative, beyond the last frame) with Python slice semantics, step None or >= 1; a negative step is refused by the library with its own exception class (ExceptionFrameSetPlanNegLen) and is not enumerated',
               'frame values are exactly representable in their code and in float64; implied X with spacing 1/2 is compared exactly, spacing 1/10 and converted units within (frames+2) ulp',
               'index entries are compared for header, trailer, table and format-specification records; records of unknown internal format need only not disturb their neighbours',
               'dipmeter codes 130 / 234 carry one-byte unsigned values; their sub-channel layout (5 fast x 16 samples, sample-major, then 10 slow) is the one of LIS-79']
BOUNDS = {'quick': 'S: frames <= 7; P: 7 patterns; D: 5 interleavings', 'thorough': 'S: frames <= 9, V with (9,4) added; P: plus every 3- and 4-record pattern over {1,2,3} frames whose leading records differ; D: 8 interleavings; H depth 3'}
LEVEL_TEXT = ('Every load of the enumerated selection space runs on the real index of an independently produced file and is compared '
              'element by element; the file reads during a load are checked against the layout map; histories of loads are explored '
              'breadth first on the real objects.')
LEVEL_NOTE = 'trusted: models/lis_ref.py producer and exact rep-code encoders'

CODES = [68, 73, 49, 50, 56, 66, 70, 77, 79]


# ------------------------------------------------------------------------------------------------
# model
# ------------------------------------------------------------------------------------------------
def chan(mnem, code, samples=1, bursts=1, units='    '):
    return {'mnem': mnem, 'code': code, 'samples': samples, 'bursts': bursts, 'units': units}


def spacing_of(spec):
    """The frame spacing the file actually records: the code 68 value nearest to the nominal spacing."""
    return L.dec68(L.enc68_nearest(Fraction(spec['spacing'][0], spec['spacing'][1])))


def to_code(code, v):
    """The value a file can record for v in this code (nearest code 68 word; integers must be exact)."""
    if code == 68:
        return L.dec68(L.enc68_nearest(v))
    return Fraction(v)


def rec_layout(spec):
    """[[frame indexes] per data record]: 'pattern' (frames per record, any list summing to n) or a uniform 'fpr'."""
    n = spec['n']
    if spec.get('pattern'):
        assert sum(spec['pattern']) == n and all(k >= 1 for k in spec['pattern']), spec
        out, f = [], 0
        for k in spec['pattern']:
            out.append(list(range(f, f + k)))
            f += k
        return out
    fpr = spec['fpr']
    return [list(range(start, min(n, start + fpr))) for start in range(0, n, fpr)]


def rec_start(spec, f):
    for fs in rec_layout(spec):
        if fs[0] <= f <= fs[-1]:
            return fs[0]
    raise IndexError(f)


def x_of(spec, f):
    """Exact recorded X of frame f: for implied X the record's depth word plus whole spacings; for an explicit X channel
    the channel value itself."""
    sp = spacing_of(spec)
    if spec.get('sp_conv'):
        sp = sp * Fraction(spec['sp_conv'][0], spec['sp_conv'][1])      # spacing converted into depth units
    d = -1 if spec['updown'] == 1 else 1
    if spec['indirect']:
        start = rec_start(spec, f)
        return to_code(spec['indirect'], Fraction(spec['x0']) + d * start * sp) + d * (f - start) * sp
    return to_code(spec['channels'][0]['code'], Fraction(spec['x0']) + d * f * sp)


DIP_VALUES = {130: 80, 234: 90}      # dipmeter codes: 16 samples x 5 fast channels (+ 10 slow channels), one byte each


def channel_values(spec, pk, f, c):
    ch = spec['channels'][c]
    if ch['code'] in DIP_VALUES:
        return [Fraction((pk * 53 + f * 17 + c * 7 + e * 3 + 1) % 256) for e in range(DIP_VALUES[ch['code']])]
    n = ch['samples'] * ch['bursts']
    if c == 0 and not spec['indirect'] and ch['code'] in (68, 73) and n == 1 and spec.get('even_x', True):
        return [x_of(spec, f)]
    return [Fraction(L.frame_value(ch['code'], pk * 53 + f * 17 + c * 7 + e)) for e in range(n)]


def build_pass(spec, pk=0):
    """Returns (list of logical record bodies [dfsr, data...], model dict)."""
    ebs = [(1, 66, bytes([spec.get('dtype', 0)])), (2, 66, b'\x00'), (4, 66, bytes([spec['updown']]))]
    sp_units = spec.get('sp_units', 'FEET').encode()
    d_units = spec.get('d_units', 'FEET').encode()
    ebs.append((8, 68, L.enc68_nearest(Fraction(spec['spacing'][0], spec['spacing'][1]))))
    ebs.append((9, 65, sp_units))
    ebs.append((12, 68, L.enc68(Fraction(-3997, 4))))   # -999.25
    if spec['indirect']:
        ebs.append((13, 66, b'\x01'))
        ebs.append((14, 65, d_units))
        ebs.append((15, 66, bytes([spec['indirect']])))
    else:
        ebs.append((13, 66, b'\x00'))
    dsbs = [L.dsb(c['mnem'].encode(), c['units'].encode(),
                  DIP_VALUES[c['code']] if c['code'] in DIP_VALUES else L.RC_SIZE[c['code']] * c['samples'] * c['bursts'], c['samples'], c['code'])
            for c in spec['channels']]
    recs = [L.dfsr(ebs, dsbs)]
    n = spec['n']
    matrix = []
    for f in range(n):
        row = []
        for c in range(len(spec['channels'])):
            row.append(channel_values(spec, pk, f, c))
        matrix.append(row)
    rec_frames = []
    for fs in rec_layout(spec):
        start = fs[0]
        frames = []
        for f in fs:
            by = b''
            for c, ch in enumerate(spec['channels']):
                for v in matrix[f][c]:
                    by += bytes([int(v)]) if ch['code'] in DIP_VALUES else L.encode(ch['code'], v)
            frames.append(by)
        ix = None
        if spec['indirect']:
            ix = L.encode(spec['indirect'], x_of(spec, start))
        recs.append(L.data_record(spec.get('dtype', 0), frames, ix))
        rec_frames.append(fs)
    return recs, {'matrix': matrix, 'rec_frames': rec_frames}


SURROUND = {
    'reel_head': lambda: L.reel_tape_head_tail(132, name=b'REEL0001'),
    'tape_head': lambda: L.reel_tape_head_tail(130, name=b'TAPE0001'),
    'file_head': lambda: L.file_head_tail(128),
    'file_tail': lambda: L.file_head_tail(129),
    'tape_tail': lambda: L.reel_tape_head_tail(131, name=b'TAPE0001'),
    'reel_tail': lambda: L.reel_tape_head_tail(133, name=b'REEL0001'),
    'cons': lambda: L.table_record(34, b'CONS', [b'MNEM', b'STAT', b'PUNI', b'TUNI', b'VALU'],
                                   [[b'BS  ', b'ALLO', b'IN  ', b'IN  ', (8.5, b'IN  ')], [b'HID ', b'ALLO', b'    ', b'    ', b'well name 1 ']]),
    'tool': lambda: L.table_record(39, b'TOOL', [b'MNEM', b'STAT'], [[b'DIT ', b'ALLO']]),
    'job': lambda: L.table_record(32, b'JOB ', [b'MNEM', b'VALU'], [[b'J1  ', 7]]),
    'unknown': lambda: L.lr_header(234) + b'operator comment of unknown internal format',
    'dump': lambda: L.lr_header(47) + bytes(range(40)),
}
SURROUND_TYPE = {'reel_head': 132, 'tape_head': 130, 'file_head': 128, 'file_tail': 129, 'tape_tail': 131, 'reel_tail': 133,
                 'cons': 34, 'tool': 39, 'job': 32, 'unknown': 234, 'dump': 47}
TABLE_NAME = {'cons': b'CONS', 'tool': b'TOOL', 'job': b'JOB '}


def assemble2(items, layout):
    """items: names from SURROUND, ['pass', spec, pk], or ['pair', specA, pkA, specB, pkB, order]: two format
    specifications (e.g. normal data type 0 and alternate data type 1) written one after the other, followed by their
    data records interleaved as `order` says ('ABAB..': one letter per data record).
    Returns (bytes, lay, info, entries, passes): info is per item (first record index, model or None); entries is the
    expected index content [(lr type, record index, table name)] in file order; passes is, per format specification in
    file order, {'spec', 'model', 'data_recs': [record index per data record]}."""
    recs, info, entries, passes = [], [], [], []
    for it in items:
        if isinstance(it, str):
            info.append((len(recs), None))
            entries.append((SURROUND_TYPE[it], len(recs), TABLE_NAME.get(it)))
            recs.append(SURROUND[it]())
        elif it[0] == 'pass':
            body, model = build_pass(it[1], it[2])
            info.append((len(recs), model))
            entries.append((64, len(recs), None))
            passes.append({'spec': it[1], 'model': model, 'data_recs': [len(recs) + 1 + i for i in range(len(body) - 1)]})
            recs.extend(body)
        elif it[0] == 'orphans':
            # data records whose format specification is missing from their logical file: they belong to no log pass
            body, _model = build_pass(it[1], it[2])
            info.append((len(recs), None))
            recs.extend(body[1:])
        else:
            _, sa, pka, sb, pkb, order = it
            body_a, model_a = build_pass(sa, pka)
            body_b, model_b = build_pass(sb, pkb)
            info.append((len(recs), (model_a, model_b)))
            pa = {'spec': sa, 'model': model_a, 'data_recs': []}
            pb = {'spec': sb, 'model': model_b, 'data_recs': []}
            entries.append((64, len(recs), None))
            recs.append(body_a[0])
            entries.append((64, len(recs), None))
            recs.append(body_b[0])
            qa, qb = list(body_a[1:]), list(body_b[1:])
            for letter in order:
                src, dst = (qa, pa) if letter == 'A' else (qb, pb)
                if src:
                    dst['data_recs'].append(len(recs))
                    recs.append(src.pop(0))
            for src, dst in ((qa, pa), (qb, pb)):
                while src:
                    dst['data_recs'].append(len(recs))
                    recs.append(src.pop(0))
            passes.extend([pa, pb])
    data, lay = L.build_file(recs, layout.get('maxlen', 65535), tif=layout.get('tif'), pad_to=layout.get('pad'))
    return data, lay, info, entries, passes


def assemble(items, layout):
    """Compatibility form used by other checks: (bytes, lay, per item: (first record index, model))."""
    data, lay, info, _entries, _passes = assemble2(items, layout)
    return data, lay, info


# ------------------------------------------------------------------------------------------------
# system under test
# ------------------------------------------------------------------------------------------------
_BUILT = {}


def built(items, layout):
    """Producer output, cached per (items, layout); a producer failure is a harness error and propagates."""
    k = repr((items, layout))
    if k not in _BUILT:
        if len(_BUILT) > 8:
            _BUILT.clear()
        _BUILT[k] = assemble2(items, layout)
    return _BUILT[k]


class System:
    def __init__(self, items, layout):
        from TotalDepth.LIS.core import File, FileIndexer
        self.items = items
        self.data, self.lay, self.info, self.entries, self.pass_list = built(items, layout)
        self.f = CountingBytesIO(self.data)
        if layout.get('pad'):
            # physical records padded with nulls: opened the way the library's tools open a LIS file of unknown padding
            self.fr = File.file_read_with_best_physical_record_pad_settings(self.f, 'fid')
            if self.fr is None:
                raise RuntimeError('no padding option reads the padded file')
        else:
            self.fr = File.FileRead(self.f, 'fid', keepGoing=False)
        self.index = FileIndexer.FileIndex(self.fr)
        self.passes = list(self.index.genLogPasses())

    def channel_list(self, chs):
        """The caller's list object for a channel list: one object per list for the life of the system (a caller that keeps its
        channel list and hands it to every load)."""
        if chs is None:
            return None
        if not hasattr(self, 'chlists'):
            self.chlists = {}
        key = repr(list(chs))
        if key not in self.chlists:
            self.chlists[key] = list(chs)
        return self.chlists[key]

    def canon(self):
        p = self.fr._prh
        def shape(lp):
            try:
                return lp.logPass.frameSet.frames.shape if lp.logPass.frameSet is not None else None
            except AttributeError:
                return 'no frame set attribute'
        fs = tuple(shape(lp) for lp in self.passes)
        hidden = tuple(bfs.generic_state(lp.logPass._plan, depth=1) for lp in self.passes)
        lists = tuple(sorted((k, tuple(v)) for k, v in getattr(self, 'chlists', {}).items()))
        return fs + (p.stream.tell(), p._ldIndex, p._ldTell, p._mustReadHead, p.isEOF, p.prAttr & 3, p.ldLen, hidden, lists)


def check_index(system):
    bad = []
    exp = [(t, system.lay.records[ri]['start'], name) for t, ri, name in system.entries]
    got = []
    for ent in system.index:
        got.append((ent.lrType, ent.tell, getattr(ent, 'name', None) if ent.lrType in (32, 34, 39) else None))
    strict = {132, 130, 128, 129, 131, 133, 32, 34, 39, 64}
    g2 = [g for g in got if g[0] in strict]
    e2 = [e for e in exp if e[0] in strict]
    if g2 != e2:
        bad.append(({'kind': 'index_entries'}, 'index lists %r, file holds %r' % (g2, e2)))
    again = list(system.index.genLogPasses())
    both = [a.logPass for a, _b in zip(system.index.genLogPasses(), system.index.genLogPasses())]
    if len(again) != len(system.passes) or any(a.logPass is not b.logPass for a, b in zip(again, system.passes)) or len(both) != len(system.passes):
        bad.append(({'kind': 'log_passes_walked_again'}, 'genLogPasses() gave %d log passes the first time, %d the second time, %d with two walks in step'
                    % (len(system.passes), len(again), len(both))))
    if len(system.passes) != len(system.pass_list):
        bad.append(({'kind': 'log_pass_count'}, '%d log passes found, %d written' % (len(system.passes), len(system.pass_list))))
        return bad
    for k, p in enumerate(system.pass_list):
        spec, model = p['spec'], p['model']
        lp = system.passes[k].logPass
        if lp.totalFrames != spec['n']:
            bad.append(({'kind': 'total_frames'}, 'pass %d: totalFrames=%r, %d written (records of %r frames)'
                        % (k, lp.totalFrames, spec['n'], [len(r) for r in model['rec_frames']])))
            continue
        x_first = x_of(spec, 0) if spec['indirect'] else model['matrix'][0][0][0]
        if Fraction(float(lp.xAxisFirstVal)) != x_first:
            bad.append(({'kind': 'x_first'}, 'pass %d: xAxisFirstVal=%r expected %s' % (k, lp.xAxisFirstVal, float(x_first))))
        even = spec['indirect'] or (spec['channels'][0]['code'] in (68, 73) and spec['channels'][0]['samples'] * spec['channels'][0]['bursts'] == 1)
        if even and len(model['rec_frames']) > 1:
            x_last = x_of(spec, spec['n'] - 1)
            got_last = lp.xAxisLastVal
            tol = (abs(x_last) + 1) * Fraction(1, 2 ** 21) if (spec['spacing'][1] not in (1, 2, 4) or spec.get('sp_conv')) else 0
            if got_last is None or abs(Fraction(float(got_last)) - x_last) > tol:
                bad.append(({'kind': 'x_last'}, 'pass %d: xAxisLastVal=%r expected %s (records of %r frames)'
                            % (k, got_last, float(x_last), [len(r) for r in model['rec_frames']])))
    return bad


def check_incremental(system):
    """The log pass built record by record through the public LogPass.addType01Data, with the frame count asked for after
    every record (an indexer reporting progress): the count is the number of frames added so far, and the finished pass
    loads exactly like the one the file indexer built."""
    from TotalDepth.LIS.core import LogPass, LogiRec
    bad = []
    fr = system.fr
    for k, p in enumerate(system.pass_list):
        spec, model = p['spec'], p['model']
        dfsr_rec = [ri for t, ri, _n in system.entries if t == 64][k]
        try:
            fr.seekLr(system.lay.records[dfsr_rec]['start'])
            lp = LogPass.LogPass(LogiRec.LrDFSRRead(fr), fr.fileId)
            done = 0
            for ri, fs in zip(p['data_recs'], model['rec_frames']):
                lr_len = sum(pr[4] for pr in system.lay.records[ri]['prs']) - 2
                lp.addType01Data(system.lay.records[ri]['start'], spec.get('dtype', 0), lr_len, float(x_of(spec, fs[0])))
                done += len(fs)
                if lp.totalFrames != done:
                    bad.append(({'kind': 'incremental_total_frames'}, 'pass %d: after %d records of %r frames totalFrames=%r, %d added'
                                % (k, len([1 for x in model['rec_frames'] if x[0] <= fs[0]]), [len(x) for x in model['rec_frames']], lp.totalFrames, done)))
                    return bad
            lp.setFrameSet(fr, None, None)
            got = np.asarray(lp.frameSet.frames)
            exp = model_submatrix(spec, model, list(range(spec['n'])), list(range(len(spec['channels']))))
            if got.shape != exp.shape or got.tobytes() != exp.tobytes():
                bad.append(({'kind': 'incremental_load'}, 'pass %d built record by record loads a matrix of shape %r that differs from the recorded one %r'
                            % (k, got.shape, exp.shape)))
        except Exception as err:  # noqa
            bad.append(({'kind': 'incremental_raises', 'exc': type(err).__name__}, 'pass %d built record by record: %s: %s' % (k, type(err).__name__, err)))
    return bad


def model_submatrix(spec, model, frames, chs):
    rows = []
    for f in frames:
        row = []
        for c in chs:
            row.extend(float(v) for v in model['matrix'][f][c])
        rows.append(row)
    return np.array(rows, dtype='float64').reshape(len(frames), -1)


def bug_f8_vector(spec, model, frames):
    """The X vector the registered defect F8 produces: the first selected frame of every record but the first, when it is
    not the record's first frame, is extrapolated from the previous *row* instead of the record's own depth."""
    sp = float(x_of(spec, 1) - x_of(spec, 0))
    out = []
    by_rec = {}
    layout = rec_layout(spec)
    rec_index = {f: r for r, fs in enumerate(layout) for f in fs}
    for f in frames:
        by_rec.setdefault(rec_index[f], []).append(f)
    for r in sorted(by_rec):
        fs = by_rec[r]
        o0 = fs[0] - layout[r][0]
        xrec = float(x_of(spec, layout[r][0]))
        if not out:
            x = xrec + o0 * sp
        elif o0 == 0:
            x = xrec
        else:
            x = out[-1] + o0 * sp
        out.append(x)
        for a, b in zip(fs, fs[1:]):
            out.append(out[-1] + (b - a) * sp)
    return out


def check_dipmeter_accessors(spec, model, fs, frames, c, sl, chs):
    """A dipmeter channel is presented as 5 fast sub-channels of 16 samples (values interleaved on the tape: sample-major) and,
    for code 234, 10 slow sub-channels of one value each that follow the 80 fast bytes (LIS-79 appendix on codes 130 / 234)."""
    code = spec['channels'][c]['code']
    nsub = 5 if code == 130 else 15
    try:
        if fs.numSubChannels(c) != nsub:
            return [({'kind': 'dipmeter_sub_channels'}, 'load(%r,%r): channel %d (code %d) has %r sub-channels, %d expected' % (sl, chs, c, code, fs.numSubChannels(c), nsub))]
        for r, f in enumerate(frames):
            vals = [float(v) for v in model['matrix'][f][c]]
            for sc in range(nsub):
                expv = [vals[sa * 5 + sc] for sa in range(16)] if sc < 5 else [vals[80 + sc - 5]]
                view = [float(v) for v in fs.frame_channel_sub_channel_values(r, c, sc)]
                if view != expv:
                    return [({'kind': 'dipmeter_view_values'}, 'load(%r,%r): frame %d dipmeter channel %d sub-channel %d: view %r recorded %r' % (sl, chs, r, c, sc, view, expv))]
                for sa in range(len(expv)):
                    v = float(fs.value(r, c, sc, sa, 0))
                    if v != expv[sa]:
                        return [({'kind': 'dipmeter_addressed_value'}, 'load(%r,%r): value(frame %d, channel %d, sub-channel %d, sample %d, 0)=%r recorded %r'
                                 % (sl, chs, r, c, sc, sa, v, expv[sa]))]
    except Exception as err:  # noqa
        return [({'kind': 'accessor_raises', 'exc': type(err).__name__}, 'load(%r,%r): dipmeter channel %d: %s: %s' % (sl, chs, c, type(err).__name__, err))]
    return []


def check_accessors(spec, model, fs, frames, cols, sl, chs):
    """The addressed forms of the same frame set - value(frame, channel, sub-channel, sample, burst), valueIdxInFrame and
    the per-channel views - against the recorded value of that very frame / channel / sample / burst (bursts vary fastest
    on the tape: LIS79 4.1.6)."""
    for c in cols:
        ch = spec['channels'][c]
        sa_n, bu_n = ch['samples'], ch['bursts']
        if ch['code'] in DIP_VALUES:
            bad = check_dipmeter_accessors(spec, model, fs, frames, c, sl, chs)
            if bad:
                return bad
            continue
        try:
            if (fs.numSamples(c, 0), fs.numBursts(c, 0)) != (sa_n, bu_n):
                return [({'kind': 'samples_bursts'}, 'load(%r,%r): channel %d has (samples,bursts)=%r, recorded %r'
                         % (sl, chs, c, (fs.numSamples(c, 0), fs.numBursts(c, 0)), (sa_n, bu_n)))]
            for r, f in enumerate(frames):
                expv = [float(v) for v in model['matrix'][f][c]]
                view = [float(v) for v in fs.frame_channel_sub_channel_values(r, c, 0)]
                if view != expv and not (np.isnan(view).all() and np.isnan(expv).all()):
                    return [({'kind': 'channel_view_values'}, 'load(%r,%r): frame_channel_sub_channel_values(%d,%d,0)=%r recorded %r'
                             % (sl, chs, r, c, view, expv))]
                for sa in range(sa_n):
                    for bu in range(bu_n):
                        v = float(fs.value(r, c, 0, sa, bu))
                        e = expv[sa * bu_n + bu]
                        if v != e and not (v != v and e != e):
                            return [({'kind': 'addressed_value'}, 'load(%r,%r): value(frame %d, channel %d, sub-channel 0, sample %d, '
                                     'burst %d)=%r, recorded %r (channel is %d samples x %d bursts)' % (sl, chs, r, c, sa, bu, v, e, sa_n, bu_n))]
            col = [float(v) for v in np.asarray(fs.frameView(c, 0)).reshape(-1)]
            expcol = [float(v) for f in frames for v in model['matrix'][f][c]]
            if col != expcol:
                return [({'kind': 'channel_view_values'}, 'load(%r,%r): frameView(%d,0)=%r recorded %r' % (sl, chs, c, col, expcol))]
            gen = [float(v) for v in fs.genChScValues(c, 0)]
            if gen != expcol and not (np.isnan(gen).all() and np.isnan(expcol).all() and len(gen) == len(expcol)):
                return [({'kind': 'channel_view_values', 'accessor': 'genChScValues'}, 'load(%r,%r): genChScValues(%d,0)=%r recorded %r' % (sl, chs, c, gen, expcol))]
        except Exception as err:  # noqa
            return [({'kind': 'accessor_raises', 'exc': type(err).__name__}, 'load(%r,%r): channel %d: %s: %s' % (sl, chs, c, type(err).__name__, err))]
    # the generator over everything loaded: (frame, channel, sub-channel, sample, burst, value) in frame / channel / sample / burst order
    if not any(spec['channels'][c]['code'] in DIP_VALUES for c in cols):
        try:
            got = [(int(a), int(b), int(sc), int(sa), int(bu), float(v)) for a, b, sc, sa, bu, v in fs.genAll()]
        except Exception as err:  # noqa
            return [({'kind': 'accessor_raises', 'exc': type(err).__name__, 'accessor': 'genAll'}, 'load(%r,%r): genAll(): %s: %s' % (sl, chs, type(err).__name__, err))]
        exp = []
        for f in frames:
            for c in cols:
                bu_n = spec['channels'][c]['bursts']
                for i, v in enumerate(model['matrix'][f][c]):
                    exp.append((f, c, 0, i // bu_n, i % bu_n, float(v)))
        same = len(got) == len(exp) and all(g[:5] == e[:5] and (g[5] == e[5] or (g[5] != g[5] and e[5] != e[5])) for g, e in zip(got, exp))
        if not same:
            k = next((i for i, (g, e) in enumerate(zip(got, exp)) if not (g[:5] == e[:5] and (g[5] == e[5] or (g[5] != g[5] and e[5] != e[5])))), min(len(got), len(exp)))
            return [({'kind': 'gen_all_values'}, 'load(%r,%r): genAll() yields %d items, %d values are loaded; item %d is %r, recorded %r'
                     % (sl, chs, len(got), len(exp), k, got[k] if k < len(got) else None, exp[k] if k < len(exp) else None))]
    return []


def step(system, op, check):
    """op = ['load', pass index, [a,b,s] or None, channel list or None]
    or ['badload', pass index, channel list naming a channel that does not exist]: a request the library may refuse however it
    likes (it is outside the statement) - what is judged is that the loads *after* it are still exact."""
    if op[0] == 'badload':
        try:
            system.passes[op[1]].logPass.setFrameSet(system.fr, None, list(op[2]))
        except Exception:  # noqa
            pass
        return []
    _, k, sl, chs = op
    p = system.pass_list[k]
    spec, model = p['spec'], p['model']
    lp = system.passes[k].logPass
    n = spec['n']
    pyslice = None if sl is None else slice(sl[0], sl[1], sl[2])
    system.f.reset_log()
    try:
        lp.setFrameSet(system.fr, pyslice, system.channel_list(chs))
    except Exception as err:  # noqa
        sig = {'kind': 'load_raises', 'exc': type(err).__name__}
        if sl is not None and (None in sl[:2] or min(x for x in sl[:2] if x is not None) < 0 or (sl[1] is not None and sl[1] > n)):
            sig['slice'] = 'open, negative or beyond the last frame'
        if isinstance(err, OverflowError) and any(c['code'] == 70 for c in spec['channels']) and 'negative value' in str(err):
            sig = {'kind': 'code70_negative_value_unreadable', 'where': 'load'}
        return [(sig, 'setFrameSet(%r,%r): %s: %s' % (sl, chs, type(err).__name__, err))]
    if not check:
        return []
    bad = []
    frames = list(range(n))[pyslice] if pyslice is not None else list(range(n))
    if chs is None:
        cols = list(range(len(spec['channels'])))
    else:
        cols = sorted(set(chs) | (set() if spec['indirect'] else {0}))
    fs = lp.frameSet
    if not frames:
        nrows = 0 if fs is None or fs.frames is None else len(fs.frames)
        if nrows:
            return [({'kind': 'matrix_shape'}, 'load(%r,%r): %d rows for a selection of no frame' % (sl, chs, nrows))]
        return []
    exp = model_submatrix(spec, model, frames, cols)
    got = np.asarray(fs.frames)
    if got.shape != exp.shape:
        bad.append(({'kind': 'matrix_shape'}, 'load(%r,%r): shape %r expected %r' % (sl, chs, got.shape, exp.shape)))
    elif got.tobytes() != exp.tobytes():
        diff = np.argwhere(got != exp)
        r, c = diff[0]
        bad.append(({'kind': 'matrix_values'}, 'load(%r,%r): element [%d,%d]=%r expected %r (n=%d, records of %r frames)'
                    % (sl, chs, r, c, got[r, c], exp[r, c], n, [len(x) for x in model['rec_frames']])))
    if got.shape == exp.shape and not bad:
        bad.extend(check_accessors(spec, model, fs, frames, cols, sl, chs))
    if spec['indirect'] and got.shape[0] == len(frames):
        xs = [float(fs.xAxisValue(i)) for i in range(len(frames))]
        exact = [x_of(spec, f) for f in frames]
        inexact = spec['spacing'][1] not in (1, 2, 4) or bool(spec.get('sp_conv'))
        def close(a, e):
            tol = (abs(e) + 1) * Fraction(n + 2, 2 ** 52) if inexact else 0
            return abs(Fraction(a) - e) <= tol
        if not all(close(a, e) for a, e in zip(xs, exact)):
            bug = bug_f8_vector(spec, model, frames)
            if all(abs(a - b) <= (abs(b) + 1) * (n + 2) * 2.0 ** -52 for a, b in zip(xs, bug)):
                bad.append(({'kind': 'implied_x_extrapolated_from_previous_record'},
                            'load(%r,%r) n=%d records of %r frames: implied X %r, recorded %r (first selected frame of a later record '
                            'extrapolated from the previous row)' % (sl, chs, n, [len(x) for x in model['rec_frames']], xs, [float(e) for e in exact])))
            else:
                bad.append(({'kind': 'implied_x_wrong'}, 'load(%r,%r) n=%d records of %r frames: implied X %r, recorded %r'
                            % (sl, chs, n, [len(x) for x in model['rec_frames']], xs, [float(e) for e in exact])))
    # reads only inside the data records that contain requested frames
    spans = []
    for ri, fsr in enumerate(model['rec_frames']):
        if set(fsr) & set(frames):
            spans.append(system.lay.record_span(p['data_recs'][ri]))
    for pos, ln in system.f.reads:
        if ln and not any(a <= pos and pos + ln <= b for a, b in spans):
            bad.append(({'kind': 'load_reads_outside_requested_records'},
                        'load(%r,%r) read %d bytes at %d; records holding requested frames span %r' % (sl, chs, ln, pos, spans)))
            break
    return bad


# ------------------------------------------------------------------------------------------------
# enumeration
# ------------------------------------------------------------------------------------------------
def base_spec(channels, n, fpr, indirect=0, updown=255, spacing=(1, 2), x0=1000, **kw):
    if (not indirect and channels[0]['code'] == 73) or indirect == 73:
        if spacing[1] != 1:
            spacing = (2, 1)      # an integer code can only hold an integer spacing
    d = {'channels': channels, 'n': n, 'fpr': fpr, 'indirect': indirect, 'updown': updown, 'spacing': list(spacing), 'x0': x0}
    d.update(kw)
    return d


def configs_V():
    for c in CODES:
        yield [chan('X   ', c)]
    for c0 in CODES:
        for c1 in CODES:
            for sa, bu in ((1, 1), (2, 1), (1, 2), (2, 2), (3, 2)):
                yield [chan('X   ', c0), chan('A   ', c1, sa, bu)]
    for dip in (130, 234):
        yield [chan('X   ', 68), chan('DIP ', dip)]
        yield [chan('X   ', 73), chan('A   ', 79, 2, 1), chan('DIP ', dip), chan('B   ', 68)]
        yield [chan('X   ', 68), chan('DIP ', dip), chan('DIP2', 364 - dip)]
    for i, (c1, (sa, bu)) in enumerate(itertools.product(CODES, ((1, 1), (2, 1), (1, 2), (2, 2)))):
        yield [chan('X   ', 68), chan('A   ', c1, sa, bu), chan('B   ', CODES[(i * 2 + 3) % 9], 1 + i % 2, 1)]


def channel_subsets(nch):
    yield None
    for r in range(1, nch + 1):
        for sub in itertools.combinations(range(nch), r):
            yield list(sub)


def slices_for(n):
    for a in range(n):
        for b in range(a + 1, n + 1):
            for s in range(1, n + 1):
                yield [a, b, s]


def gen_V(tier):
    shapes = [(1, 1), (5, 2), (4, 4)] + ([(9, 4)] if tier == 'thorough' else [])
    for cfg in configs_V():
        for indirect in (0, 68):
            for n, fpr in shapes:
                spec = base_spec(cfg, n, fpr, indirect=indirect)
                sels = [None] + [s for s in ([1, n, 2], [0, n, 3], [n - 1, n, 1]) if s[0] < s[1]]
                ops = [['load', 0, s, cs] for s in sels for cs in channel_subsets(len(cfg))]
                yield ['file_head', ['pass', spec, 0], 'file_tail'], {'maxlen': 65535}, ops


def gen_S(tier):
    maxn = 7 if tier == 'quick' else 9
    cfgs = [[chan('X   ', 68), chan('A   ', 73)],
            [chan('X   ', 68), chan('A   ', 79, 2, 1), chan('B   ', 49)],
            [chan('X   ', 73), chan('A   ', 68, 1, 2)]]
    modes = [(0, None), (68, None), (73, None)]
    for cfg in cfgs:
        for indirect, _ in modes:
            for updown in (1, 255, 0):
                for spacing, extra in (((1, 2), {}), ((1, 10), {}), ((6, 1), {'sp_units': 'INCH', 'sp_conv': [1, 12]})):
                    if indirect == 73 and spacing != (1, 2) and not extra:
                        continue
                    if indirect == 73 and extra:
                        continue
                    if indirect == 0 and spacing == (1, 10):
                        continue
                    if indirect == 0 and cfg[0]['code'] == 73 and extra:
                        continue
                    if indirect == 73 and spacing == (1, 2):
                        spacing = (2, 1)       # integer depth code: integer spacing
                    for n in range(1, maxn + 1):
                        for fpr in (1, 2, 3, 4):
                            if fpr > n and fpr != 1:
                                continue
                            if n in (1, 4) and fpr <= 2 and not extra:
                                # a log that starts at X = 0 (from surface, from the start of the clock): a zero is a value like any other
                                spec = base_spec(cfg, n, fpr, indirect=indirect, updown=updown, spacing=spacing, x0=0)
                                yield ['file_head', ['pass', spec, 0], 'file_tail'], {'maxlen': 65535}, [['load', 0, None, None], ['load', 0, [0, n, 2], [len(cfg) - 1]]]
                            spec = base_spec(cfg, n, fpr, indirect=indirect, updown=updown, spacing=spacing, **extra)
                            ops = [['load', 0, None, None]] + [['load', 0, s, cs] for s in slices_for(n) for cs in (None, [len(cfg) - 1])]
                            yield ['file_head', ['pass', spec, 0], 'file_tail'], {'maxlen': 65535}, ops


PATTERNS = [[3, 3, 1, 3, 3], [2, 5, 5, 5], [1, 2, 3], [4, 1, 1, 4], [2, 2, 3, 3, 2, 2], [1, 1, 2], [3, 1, 2]]


def gen_P(tier):
    """Frames-per-record patterns that are not 'k, k, ..., k, short last'."""
    cfgs = [[chan('X   ', 68), chan('A   ', 73)], [chan('X   ', 73), chan('A   ', 68, 2, 2)]]
    pats = PATTERNS if tier == 'quick' else PATTERNS + [list(p) for n in (3, 4) for p in itertools.product((1, 2, 3), repeat=n)
                                                        if len(set(p[:-1])) > 1]
    # data records of more frames than one byte counts (a logical record spans physical records: nothing bounds its frames)
    pats = pats + [[255, 3], [256, 2], [257, 40], [300, 300, 40]]
    for pat in pats:
        n = sum(pat)
        for cfg in (cfgs if n < 100 else cfgs[:1]):
            for indirect in (0, 68, 73):
                for updown in (1, 255):
                    spacing = (2, 1) if (indirect == 73 or (not indirect and cfg[0]['code'] == 73)) else (1, 2)
                    spec = base_spec(cfg, n, 0, indirect=indirect, updown=updown, spacing=spacing, pattern=list(pat))
                    starts = sorted({0, 1, pat[0], pat[0] + 1, n - pat[-1], n - 1} & set(range(n)))
                    sels = [None] + [[a, b, st] for a in starts for b in sorted({a + 1, n - 1, n}) if b > a for st in (1, 2, 3, 4)]
                    ops = [['load', 0, sl, cs] for sl in sels for cs in (None, [1])]
                    yield ['file_head', ['pass', spec, 0], 'file_tail'], {'maxlen': 65535}, ops


def gen_O(tier):
    """Slices written the way Python allows: open ends (None), negative members, a stop beyond the last frame."""
    cfg = [chan('X   ', 68), chan('A   ', 73), chan('B   ', 79, 2, 1)]
    for indirect in (0, 68):
        for n, fpr in ((1, 1), (4, 3), (7, 3)) + (((9, 4),) if tier == 'thorough' else ()):
            spec = base_spec(cfg, n, fpr, indirect=indirect)
            rng = [None] + list(range(-n - 1, n + 3))
            ops = []
            for a, b, st in itertools.product(rng, rng, (None, 1, 2, 3)):
                if a is not None and b is not None and st is not None and 0 <= a < b <= n:
                    continue        # the concrete form is part S
                ops.append(['load', 0, [a, b, st], None])
                if (a, st) == (None, 2) or (b, st) == (None, 1):
                    ops.append(['load', 0, [a, b, st], [1]])
            yield ['file_head', ['pass', spec, 0], 'file_tail'], {'maxlen': 65535}, ops


def gen_D(tier):
    """Two format specifications in one logical file: normal (type 0) and alternate (type 1) data, records interleaved."""
    cfg_a = [chan('DEPT', 68), chan('GR  ', 68), chan('SP  ', 79, 2, 1)]
    cfg_b = [chan('TIME', 68), chan('TENS', 73)]
    orders = ['AABB', 'ABAB', 'BBAA', 'BABA', 'ABBA'] + (['AAAB', 'BAAA', 'BAAB'] if tier == 'thorough' else [])
    for (ta, tb) in ((0, 1), (1, 0)):
        for order in orders:
            for indirect in (0, 68):
                for mid in ([], ['cons']):
                    for layout in ({'maxlen': 65535}, {'maxlen': 48, 'tif': 'normal'}):
                        sa = base_spec(cfg_a, 6, 3, indirect=indirect, dtype=ta)
                        sb = base_spec(cfg_b, 5, 2, indirect=indirect, updown=1, dtype=tb, x0=50)
                        items = ['file_head'] + mid + [['pair', sa, 0, sb, 1, order]] + ['file_tail']
                        ops = [['load', 0, None, None], ['load', 1, None, None], ['load', 0, [1, 6, 2], [1]], ['load', 1, [2, 5, 1], None],
                               ['load', 1, [4, 5, 1], [1]], ['load', 0, [3, 4, 1], None]]
                        yield items, layout, ops
                        if not mid and 'tif' not in layout:
                            spec2 = base_spec([chan('DEPT', 68), chan('CALI', 49)], 4, 4, indirect=indirect, updown=1)
                            yield (items + ['file_head', ['pass', spec2, 1], 'file_tail'], layout,
                                   ops + [['load', 2, None, None], ['load', 2, [1, 4, 2], [1]]])


def gen_I(tier):
    cfg = [chan('DEPT', 68, units='FEET'), chan('GR  ', 68, units='GAPI'), chan('SP  ', 79, 2, 1)]
    cfg2 = [chan('DEPT', 68), chan('CALI', 49)]
    pre_opts = [[], ['reel_head', 'tape_head']]
    mid_opts = [[], ['cons'], ['unknown'], ['cons', 'unknown', 'tool'], ['dump', 'job']]
    for pre in pre_opts:
        for before in mid_opts:
            for after in mid_opts:
                for second in (False, True):
                    for indirect in (0, 68):
                        spec = base_spec(cfg, 7, 3, indirect=indirect)
                        items = pre + ['file_head'] + before + [['pass', spec, 0]] + after + ['file_tail']
                        if second:
                            spec2 = base_spec(cfg2, 4, 4, indirect=indirect, updown=1)
                            items += ['file_head', ['pass', spec2, 1], 'cons', 'file_tail']
                        if pre:
                            items += ['tape_tail', 'reel_tail']
                        for layout in ({'maxlen': 65535}, {'maxlen': 40}, {'maxlen': 64, 'tif': 'normal'}, {'maxlen': 65535, 'tif': 'normal'},
                                       {'maxlen': 41, 'pad': 4}, {'maxlen': 63, 'tif': 'normal', 'pad': 2}):
                            ops = [['load', 0, None, None], ['load', 0, [1, 7, 2], [1]], ['load', 0, [4, 5, 1], None]]
                            if second:
                                ops += [['load', 1, None, None], ['load', 1, [1, 4, 2], [1]]]
                            yield items, layout, ops


def gen_B(tier):
    """Files without delimiter records: the format specification is the very first logical record (or follows another pass directly)."""
    cfg = [chan('DEPT', 68, units='FEET'), chan('GR  ', 68, units='GAPI'), chan('SP  ', 79, 2, 1)]
    cfg2 = [chan('DEPT', 68), chan('CALI', 49)]
    for indirect in (0, 68):
        spec = base_spec(cfg, 7, 3, indirect=indirect)
        spec2 = base_spec(cfg2, 4, 4, indirect=indirect, updown=1)
        ops1 = [['load', 0, None, None], ['load', 0, [1, 7, 2], [1]], ['load', 0, [4, 5, 1], None]]
        ops2 = ops1 + [['load', 1, None, None], ['load', 1, [1, 4, 2], [1]]]
        for layout in ({'maxlen': 65535}, {'maxlen': 40}, {'maxlen': 64, 'tif': 'normal'}):
            yield [['pass', spec, 0]], layout, ops1
            yield [['pass', spec, 0], 'file_tail'], layout, ops1
            yield [['pass', spec, 0], ['pass', spec2, 1]], layout, ops2
            yield [['pass', spec, 0], 'cons', ['pass', spec2, 1], 'file_tail'], layout, ops2
            yield ['cons', ['pass', spec, 0]], layout, ops1
            # data records without a format specification in their own logical file: no pass of theirs, nothing added to another
            yield ['file_head', ['pass', spec, 0], 'file_tail', 'file_head', ['orphans', spec2, 1], 'file_tail'], layout, ops1
            yield ['file_head', ['orphans', spec2, 1], ['pass', spec, 0], 'file_tail'], layout, ops1
            yield [['orphans', spec2, 1], 'file_head', ['pass', spec, 0], 'file_tail'], layout, ops1     # stray records first in the file
            yield [['orphans', spec2, 1], ['pass', spec, 0]], layout, ops1
            yield ['file_head', ['orphans', spec, 0], 'file_tail', 'file_head', ['pass', spec2, 1], 'file_tail'], layout, \
                [['load', 0, None, None], ['load', 0, [1, 4, 2], [1]]]


def gen_H(tier):
    cfg = [chan('DEPT', 68), chan('GR  ', 73), chan('SP  ', 68), chan('CALI', 68)]
    cfg2 = [chan('DEPT', 68), chan('CALI', 49)]
    for indirect in (0, 68):
        for layout in ({'maxlen': 65535}, {'maxlen': 48, 'tif': 'normal'}):
            spec = base_spec(cfg, 6, 4, indirect=indirect)
            spec2 = base_spec(cfg2, 3, 2, indirect=indirect, updown=1)
            items = ['file_head', 'cons', ['pass', spec, 0], 'file_tail', 'file_head', ['pass', spec2, 1], 'file_tail']
            yield items, layout


def h_menu():
    """Loads whose channel lists share first / last / count but differ in between ([1,3] vs [2,3] -> with the X channel
    [0,1,3] vs [0,2,3]) are included: anything remembered from one load and keyed too coarsely shows in the next."""
    ops = []
    for k, n in ((0, 6), (1, 3)):
        for sl in (None, [0, 1, 1], [0, n, 2], [n - 1, n, 1], [1, n, 1]):
            for cs in ((None, [1], [0], [1, 3], [2, 3], [0, 2, 3]) if k == 0 else (None, [1], [0])):
                ops.append(['load', k, sl, cs])
        ops.append(['badload', k, [1, 99]])
    return ops


def shards(tier):
    return ([{'gen': 'V', 'part': p, 'of': 32} for p in range(32)] + [{'gen': 'S', 'part': p, 'of': 64} for p in range(64)] +
            [{'gen': 'I', 'part': p, 'of': 16} for p in range(16)] + [{'gen': 'H', 'part': p, 'of': 4} for p in range(4)] +
            [{'gen': 'P', 'part': p, 'of': 8} for p in range(8)] + [{'gen': 'D', 'part': p, 'of': 8} for p in range(8)] +
            [{'gen': 'O', 'part': p, 'of': 8} for p in range(8)] + [{'gen': 'B', 'part': p, 'of': 4} for p in range(4)])


def run_ops(items, layout, ops, res, shape):
    base = {'items': items, 'layout': layout}
    built(items, layout)
    try:
        system = System(items, layout)
    except Exception as err:  # noqa
        sig = {'kind': 'index_raises', 'exc': type(err).__name__}
        if isinstance(err, OverflowError) and 'negative value' in str(err) and \
                any(c['code'] == 70 for it in items if not isinstance(it, str) and it[0] == 'pass' for c in it[1]['channels']):
            sig = {'kind': 'code70_negative_value_unreadable', 'where': 'index'}
        res.violate(sig, dict(base, history=[]), '%s: %s' % (type(err).__name__, err))
        res.case(h64(repr(base)), nontrivial=True, outcome=('raise', type(err).__name__))
        return
    for sig, msg in check_index(system):
        res.violate(sig, dict(base, history=[]), msg)
    if shape in ('P', 'S', 'D'):
        for sig, msg in check_incremental(System(items, layout)):
            res.violate(sig, dict(base, history=[], incremental=1), msg)
    res.count('files_' + shape)
    first = True
    for op in ops:
        if not first:
            system = System(items, layout)
        first = False
        bad = step(system, op, True)
        lp = system.passes[op[1]].logPass if op[1] < len(system.passes) else None
        try:
            fset = lp.frameSet if lp is not None else None
        except AttributeError:       # a load that raised leaves the log pass without the attribute
            fset = None
        outcome = h64(np.asarray(fset.frames).tobytes()) if fset is not None and fset.frames is not None else 0
        res.case(h64((repr(base), repr(op))), nontrivial=op[2] is not None or op[3] is not None or len(items) > 3, outcome=outcome,
                 sample=dict(base, op=op) if res.evaluations % 20011 == 7 else None)
        res.count('loads_' + shape)
        res.traces += 1
        for sig, msg in bad:
            res.violate(sig, dict(base, history=[op]), msg)
    res.states += 1
    res.transitions += len(ops)


def run_shard(shard, tier):
    res = Result()
    g = shard['gen']
    if g == 'H':
        depth = 2 if tier == 'quick' else 3
        menu = h_menu()
        for i, (items, layout) in enumerate(gen_H(tier)):
            if i % shard['of'] != shard['part']:
                continue
            st, tr, closed = bfs.search(lambda: System(items, layout), lambda s: menu, step, System.canon, depth, res,
                                        {'items': items, 'layout': layout})
            res.case(h64(repr((items, layout))), nontrivial=True, outcome=h64((st, tr)),
                     sample={'items': items, 'layout': layout, 'states': st, 'transitions': tr, 'frontier_closed': closed})
        return res
    gen = {'V': gen_V, 'S': gen_S, 'I': gen_I, 'P': gen_P, 'D': gen_D, 'O': gen_O, 'B': gen_B}[g](tier)
    for i, (items, layout, ops) in enumerate(gen):
        if i % shard['of'] != shard['part']:
            continue
        run_ops(items, layout, ops, res, g)
    return res


def replay(case):
    items, layout = case['items'], case['layout']
    bad = []
    built(items, layout)
    try:
        s0 = System(items, layout)
    except Exception as err:  # noqa
        return [{'sig': {'kind': 'index_raises', 'exc': type(err).__name__}, 'case': case, 'msg': str(err)}]
    if case.get('incremental'):
        bad += check_incremental(s0)
    elif not case.get('history'):
        bad += check_index(s0)
    bad += bfs.replay_history(lambda: System(items, layout), step, case.get('history', []))
    return [{'sig': s, 'case': case, 'msg': m} for s, m in bad]
