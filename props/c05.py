"""C05 - LIS physical records: what is written is what is read, at any position (E2 search + E1 writer check)."""
import io
import os
import itertools

from mc import bfs
from mc.run import Result, h64
from mc.seams import CountingBytesIO
from models import lis_ref as L

ID = 'C05'
LEVEL = 'model_checking'
NEEDS_EXT = True   # LIS.core imports the compiled RepCode extensions: rebuild them from the current sources
ENGINE = 'E2 explicit-state search'
DESIGN_REF = 'DESIGN.md section 4, C05 and Appendix A'
TECHNIQUE = ('explicit-state BFS over read/skip/skip-to-next/seek/tell histories on the real LIS FileRead against a reference '
             'cursor, for every file of a bounded enumeration of record lists x physical record length x trailer options x '
             'TIF mode produced by an independent LIS-79 writer; plus exhaustive byte-for-byte comparison of FileWrite output '
             'and of DeTif.strip_tif with that reference writer')
RULE = ('W: FileWrite on every (trailer subset x max physical record length x TIF on/off x 1-3 record lengths from '
        '{2,3,P-1,P,P+1,2P,2P+1,3P}) compared byte for byte with lis_ref, incl. returned positions; two writers with default '
        'trailers in one process. R: BFS on FileRead over lis_ref files (TIF none/normal/reversed), operations '
        'readLrBytes(n)/skipLrBytes(n) n in {0,1,2,P,P+1,2P+1,3P,-1}, skipToNextLr, seekLr(every record start), seekCurrentLrStart, unpack(1, 2, P bytes), tellLr, hasLd; '
        'state = model cursor + (stream.tell,_ldIndex,_ldTell,_mustReadHead,isEOF,tif.previousTell is None,prAttr,ldLen). '
        'T: strip_tif(normal TIF file) == file without TIF. non-trivial = more than one physical record or a trailer or TIF; '
        'outcome = hash of file bytes / search size')
ASSUMPTIONS = ['only documented results are compared (Appendix A of DESIGN.md): bytes returned, counts skipped, None/0 at end of record, tellLr inside a record, isEOF after the last record',
               'checksum values are compared for even-length physical records only (the treatment of a trailing odd byte is not defined by the material available)',
               'reversed TIF files whose first marker is indistinguishable in both byte orders (first physical record of 244 bytes) are excluded, as the property states']
BOUNDS = {'quick': 'W: all 8 trailer subsets x 5 lengths x 2 TIF x <=3 records; R: 4 trailer subsets x 5 lengths x 3 TIF x 28 record lists, depth 30 for capacity <= 7 (frontier closes), depth 8 for larger',
          'thorough': 'R: 8 trailer subsets, 72 record lists, depth 40 / 20'}
LEVEL_TEXT = ('Reader: every reachable abstract state of the real reader on each enumerated file is expanded with every operation '
              'and compared with the reference cursor; for small capacities the frontier empties (all histories of any length are '
              'covered for those files). Writer and TIF stripping: exhaustive over the configuration product.')
LEVEL_NOTE = 'trusted: models/lis_ref.py (physical record / TIF producer); the reference cursor of DESIGN.md Appendix A'

TRAILERS = list(itertools.product((0, 1), repeat=3))   # (record number, file number, checksum)


def tlen(tr):
    return 2 * sum(tr)


def capacities(tr):
    t = tlen(tr)
    return [4 + t + 1, 4 + t + 2, 4 + t + 7, 64, 65535]


def record_lengths(P, big):
    if big:
        return [2, 3, 300]
    return sorted({x for x in (2, 3, P - 1, P, P + 1, 2 * P, 2 * P + 1, 3 * P) if x >= 2})


def make_records(lengths, content=None):
    recs = [L.position_coded(r, n) for r, n in enumerate(lengths)]
    if content == 'zeros':
        # records that begin with zero bytes (a type 0 record with a zero attribute byte and zero data): in a file without
        # TIF markers the second 32 bit word of the file is then zero, as a TIF marker's would be
        recs = [b'\0' * min(6, len(r)) + r[6:] for r in recs]
    return recs


def ref_file(cfg):
    tr = cfg['trailer']
    recs = make_records(cfg['lengths'], cfg.get('content'))
    return L.build_file(recs, cfg['maxlen'], bool(tr[0]), cfg.get('filenum', 7) if tr[1] else None, bool(tr[2]), cfg['tif']) + (recs,)


# ------------------------------------------------------------------------------------------------
# (a) writer, (c) strip_tif
# ------------------------------------------------------------------------------------------------
def check_writer(cfg):
    from TotalDepth.LIS.core import File, PhysRec
    tr = cfg['trailer']
    recs = make_records(cfg['lengths'], cfg.get('content'))
    bad = []
    out = io.BytesIO()
    try:
        prt = PhysRec.PhysRecTail(hasRecNum=bool(tr[0]), fileNum=cfg.get('filenum', 7) if tr[1] else None, hasCheckSum=bool(tr[2]))
        fw = File.FileWrite(out, 'x', keepGoing=False, hasTif=cfg['tif'] == 'normal', thePrLen=cfg['maxlen'], thePrt=prt)
        tells = []
        for i, r in enumerate(recs):
            if i == len(recs) // 2:
                # a write the writer refuses (text where bytes are wanted; the caller catches the error and carries on) leaves
                # nothing behind: the records written after it land where they would have landed without it
                try:
                    fw.write('not bytes, refused')
                except TypeError:
                    pass
            tells.append(fw.write(r))
        fw._prh.tif and fw._prh.tif.close(fw._prh.stream)   # EOF markers as close() writes them; keep the BytesIO open
        got = out.getvalue()
    except Exception as err:  # noqa
        return [({'kind': 'write_raises', 'exc': type(err).__name__}, '%s: %s' % (type(err).__name__, err))], 0
    exp, lay, _ = ref_file(cfg)
    odd = any(p[2] % 2 for info in lay.records for p in info['prs'])
    if tr[2] and odd:
        # compare everything except checksum words of odd-length physical records
        g, e = bytearray(got), bytearray(exp)
        if len(g) == len(e):
            for info in lay.records:
                for (_s, hdr, ln, _pp, _pl) in info['prs']:
                    if ln % 2:
                        g[hdr + ln - 2:hdr + ln] = b'\0\0'
                        e[hdr + ln - 2:hdr + ln] = b'\0\0'
        got, exp = bytes(g), bytes(e)
    if got != exp:
        bad.append(({'kind': 'written_bytes', 'tif': cfg['tif'] is not None},
                    'FileWrite produced %d bytes %s...; LIS-79 layout is %d bytes %s...' % (len(got), got[:48].hex(), len(exp), exp[:48].hex())))
    starts = [info['start'] for info in lay.records]
    if tells != starts:
        bad.append(({'kind': 'write_positions'}, 'write() returned %r, records start at %r' % (tells, starts)))
    return bad, h64(got)


def check_two_writers():
    """Two writers created one after the other with default trailers must not influence each other."""
    from TotalDepth.LIS.core import File
    outs = []
    for _ in range(2):
        out = io.BytesIO()
        fw = File.FileWrite(out, 'x', thePrLen=12)
        for r in make_records([9, 2]):
            fw.write(r)
        outs.append(out.getvalue())
    if outs[0] != outs[1]:
        return [({'kind': 'writers_share_state'}, 'second default-trailer writer produced different bytes')]
    # two writers alive at the same time, with different trailers / markers / record lengths, written to in turn: each file is
    # the file its writer produces alone
    from TotalDepth.LIS.core import PhysRec
    cfgs = [dict(hasRecNum=True, fileNum=7, hasCheckSum=True, tif=True, prlen=16), dict(hasRecNum=False, fileNum=None, hasCheckSum=False, tif=False, prlen=12),
            dict(hasRecNum=True, fileNum=None, hasCheckSum=False, tif=False, prlen=64)]
    recs = make_records([9, 2, 30])

    def writer(c, out):
        return File.FileWrite(out, 'x', keepGoing=False, hasTif=c['tif'], thePrLen=c['prlen'],
                              thePrt=PhysRec.PhysRecTail(hasRecNum=c['hasRecNum'], fileNum=c['fileNum'], hasCheckSum=c['hasCheckSum']))
    solo = []
    for c in cfgs:
        out = io.BytesIO()
        w = writer(c, out)
        for r in recs:
            w.write(r)
        solo.append(out.getvalue())
    for order in ((0, 1, 2), (2, 1, 0), (1, 2, 0)):
        outs = [io.BytesIO() for _ in cfgs]
        ws = {}
        for i in order:                 # created in this order ...
            ws[i] = writer(cfgs[i], outs[i])
        for r in recs:                  # ... and written to in turn, in index order
            for i in range(len(cfgs)):
                ws[i].write(r)
        for i in range(len(cfgs)):
            if outs[i].getvalue() != solo[i]:
                return [({'kind': 'writers_share_state', 'simultaneous': True},
                         'three writers alive at once (created in order %r, written to in turn): writer %d (%r) produced %d bytes that differ from the %d it writes alone'
                         % (order, i, cfgs[i], len(outs[i].getvalue()), len(solo[i])))]
    return []


_PATHS = None


def _scratch_paths():
    global _PATHS
    if _PATHS is None:
        import atexit
        from mc import seams
        os.makedirs(seams.SCRATCH, exist_ok=True)
        _PATHS = tuple(os.path.join(seams.SCRATCH, 'c05-%d-%s.lis' % (os.getpid(), w)) for w in ('in', 'out'))
        atexit.register(lambda: [os.remove(p) for p in _PATHS if os.path.exists(p)])
    return _PATHS


def check_strip(cfg):
    from TotalDepth import DeTif
    with_tif, _lay, _ = ref_file(dict(cfg, tif='normal'))
    without, lay2, _ = ref_file(dict(cfg, tif=None))
    fin, fout = io.BytesIO(with_tif), io.BytesIO()
    try:
        # asked first whether the file has markers (as the tool does), then stripped through the same file object - twice
        if not DeTif.has_tif_file(fin):
            return [({'kind': 'has_tif_false'}, 'has_tif_file() is False for a file written with TIF markers')]
        n, nbytes = DeTif.strip_tif(fin, fout)
        fout2 = io.BytesIO()
        n2, nbytes2 = DeTif.strip_tif(fin, fout2)
    except Exception as err:  # noqa
        return [({'kind': 'strip_tif_raises', 'exc': type(err).__name__}, '%s: %s' % (type(err).__name__, err))]
    bad = []
    if (n2, nbytes2, fout2.getvalue()) != (n, nbytes, fout.getvalue()):
        bad.append(({'kind': 'strip_tif_second_time_differs'}, 'strip_tif through the same input object a second time: (%d markers, %d bytes), the first time (%d, %d)'
                    % (n2, nbytes2, n, nbytes)))
    if fout.getvalue() != without:
        bad.append(({'kind': 'strip_tif_bytes'}, 'strip_tif output differs from the file written without TIF (%d vs %d bytes)'
                    % (len(fout.getvalue()), len(without))))
    nprs = sum(len(i['prs']) for i in lay2.records)
    if nbytes != len(without) or n != nprs + 2:
        bad.append(({'kind': 'strip_tif_counts'}, 'strip_tif returned (%d markers, %d bytes); file has %d markers incl. 2 EOF, %d bytes'
                    % (n, nbytes, nprs + 2, len(without))))
    # the tool's entry point, by path: the input path held the unmarked file a moment ago (it is not TIF-marked, and left alone),
    # now it holds the marked file, which is stripped into the output path over what an earlier call left there
    pin, pout = _scratch_paths()
    try:
        with open(pin, 'wb') as f:
            f.write(without)
        if os.path.exists(pout):
            os.remove(pout)
        r0 = DeTif.de_tif_file(pin, pout, False, True)
        if r0[0] != 0 or os.path.exists(pout):
            bad.append(({'kind': 'de_tif_file_unmarked'}, 'de_tif_file() of the unmarked file returns %r, output written: %r' % (r0, os.path.exists(pout))))
        with open(pin, 'wb') as f:
            f.write(with_tif)
        r1 = DeTif.de_tif_file(pin, pout, False, True)
        stripped = open(pout, 'rb').read() if os.path.exists(pout) else None
        if stripped != without or tuple(r1) != (1, nprs + 2, len(without)):
            bad.append(({'kind': 'de_tif_file'}, 'de_tif_file() of the marked file written to a path that held the unmarked file before returns %r and writes %s bytes; '
                        'expected (1, %d, %d) and the unmarked file' % (r1, None if stripped is None else len(stripped), nprs + 2, len(without))))
    except Exception as err:  # noqa
        bad.append(({'kind': 'strip_tif_raises', 'exc': type(err).__name__, 'by_path': True}, 'de_tif_file(): %s: %s' % (type(err).__name__, err)))
    # a TIF-marked file that was never closed has no end-of-file markers: every record must still come through
    open_end = with_tif[:len(with_tif) - 2 * L.TIF_LEN]
    fout = io.BytesIO()
    try:
        DeTif.strip_tif(io.BytesIO(open_end), fout)
        if fout.getvalue() != without:
            bad.append(({'kind': 'strip_tif_bytes', 'eof_markers': False},
                        'strip_tif of the file without its two end-of-file markers gives %d bytes, the unmarked file has %d' % (len(fout.getvalue()), len(without))))
    except Exception as err:  # noqa
        bad.append(({'kind': 'strip_tif_raises', 'exc': type(err).__name__, 'eof_markers': False}, 'without end-of-file markers: %s: %s' % (type(err).__name__, err)))
    return bad


# ------------------------------------------------------------------------------------------------
# (b) reader search
# ------------------------------------------------------------------------------------------------
class System:
    def __init__(self, data, lay, recs):
        from TotalDepth.LIS.core import File
        self.f = CountingBytesIO(data)
        self.fr = File.FileRead(self.f, 'x', keepGoing=False)
        self.recs = recs
        self.lay = lay
        self.starts = [i['start'] for i in lay.records]
        self.m = ('U', 0)

    def canon(self):
        p = self.fr._prh
        return (self.m, p.stream.tell(), p._ldIndex, p._ldTell, p._mustReadHead, p.isEOF, p.tif.previousTell is None,
                p.prAttr & 3, p.ldLen, bfs.generic_state(p, depth=2, skip=('recNum', 'fileNum', 'checksum', 'fileId')))


def model_read(system, n):
    """Returns (expected bytes or None, new model state)."""
    m = system.m
    k = len(system.recs)
    if m[0] == 'U':
        if m[1] >= k:
            return None, ('E',)
        r, o = m[1], 0
    else:
        r, o = m[1], m[2]
    rec = system.recs[r]
    if m[0] == 'I' and o >= len(rec):
        return None, ('U', r + 1)
    if n < 0:
        return rec[o:], ('U', r + 1)
    got = rec[o:o + n]
    return got, ('I', r, o + len(got))


def ops_for(system, sizes):
    m = system.m
    if m[0] == 'E':
        # the end of the file is not the end of the reader: any record can be sought and read again
        return [['seek', j] for j in range(len(system.recs))]
    ops = []
    for n in sizes:
        ops.append(['read', n])
        ops.append(['skip', n])
    for n in sizes[1:4]:
        if n > 0:
            ops.append(['unpack', n])
    ops.append(['next'])
    for j in range(len(system.recs)):
        ops.append(['seek', j])
    if m[0] == 'I':
        ops.append(['tell'])
        ops.append(['hasld'])
        ops.append(['seekcur'])
    return ops


def step(system, op, check):
    fr = system.fr
    bad = []
    kind = op[0]
    try:
        if kind in ('read', 'skip'):
            exp, new = model_read(system, op[1])
            got = fr.readLrBytes(op[1]) if kind == 'read' else fr.skipLrBytes(op[1])
            if check:
                if kind == 'read':
                    if got != exp:
                        bad.append(({'kind': 'read_bytes'}, 'readLrBytes(%d) in %r returned %r expected %r' % (op[1], system.m, got, exp)))
                else:
                    e = 0 if exp is None else len(exp)
                    if got != e:
                        bad.append(({'kind': 'skip_count'}, 'skipLrBytes(%d) in %r returned %r expected %r' % (op[1], system.m, got, e)))
                if new == ('E',) and not fr.isEOF:
                    bad.append(({'kind': 'eof_flag'}, 'read past the last record but isEOF is False'))
            system.m = new
        elif kind == 'unpack':
            import struct
            from TotalDepth.LIS.core import File
            n = op[1]
            exp, new = model_read(system, n)
            short = exp is None or len(exp) != n
            try:
                got = fr.unpack(struct.Struct('>%dB' % n))
                if check and (short or got != tuple(exp)):
                    bad.append(({'kind': 'unpack_values'}, 'unpack(%d bytes) in %r returned %r, the record holds %r there' % (n, system.m, got, exp)))
            except File.ExceptionFileRead as err:
                if check and not short:
                    bad.append(({'kind': 'unpack_refused'}, 'unpack(%d bytes) in %r raised %s although %d bytes are left' % (n, system.m, err, n)))
            system.m = new
        elif kind == 'ldindex':
            got = fr.ldIndex()
            if check and got != system.m[2]:
                bad.append(({'kind': 'ld_index'}, 'ldIndex() in %r returned %r' % (system.m, got)))
        elif kind == 'seekcur':
            fr.seekCurrentLrStart()
            system.m = ('U', system.m[1])
        elif kind == 'next':
            m = system.m
            k = len(system.recs)
            if m[0] == 'U' and m[1] >= k:
                exp, new = 0, ('E',)
            else:
                r = m[1]
                o = 0 if m[0] == 'U' else m[2]
                exp = len(system.recs[r]) - o
                new = ('I', r + 1, 0) if r + 1 < k else ('E',)
            got = fr.skipToNextLr()
            if check:
                if got != exp:
                    bad.append(({'kind': 'skip_to_next_count'}, 'skipToNextLr() in %r returned %r expected %r' % (m, got, exp)))
                if (new == ('E',)) != bool(fr.isEOF):
                    bad.append(({'kind': 'eof_flag'}, 'skipToNextLr() in %r: isEOF=%r' % (m, fr.isEOF)))
            system.m = new
        elif kind == 'seek':
            fr.seekLr(system.starts[op[1]])
            system.m = ('U', op[1])
        elif kind == 'tell':
            got = fr.tellLr()
            if check and got != system.starts[system.m[1]]:
                bad.append(({'kind': 'tell_lr'}, 'tellLr() in %r returned %r, record starts at %r' % (system.m, got, system.starts[system.m[1]])))
        elif kind == 'hasld':
            got = fr.hasLd()
            exp = system.m[2] < len(system.recs[system.m[1]])
            if check and bool(got) != exp:
                bad.append(({'kind': 'has_ld'}, 'hasLd() in %r returned %r' % (system.m, got)))
    except Exception as err:  # noqa
        return [({'kind': 'reader_raises', 'exc': type(err).__name__, 'op': kind}, '%r in %r: %s: %s' % (op, system.m, type(err).__name__, err))]
    return bad


def explore(cfg, depth, res):
    data, lay, recs = ref_file(cfg)
    P = cfg['maxlen'] - 4 - tlen(cfg['trailer'])
    Pm = min(P, 400)
    # 2P+1 and 3P: one sized request that crosses two physical record boundaries of a long logical record
    sizes = sorted({0, 1, 2, Pm, Pm + 1, 2 * Pm + 1, 3 * Pm}) + [-1]

    def make():
        return System(data, lay, recs)
    # whole-record sequential read first (depth-independent)
    s = make()
    seq = []
    try:
        while True:
            b = s.fr.readLrBytes(-1)
            if b is None:
                break
            seq.append(b)
    except Exception as err:  # noqa  - a conformant file must read
        res.violate({'kind': 'sequential_read_raises', 'exc': type(err).__name__}, {'cfg': cfg, 'history': [['read', -1]] * (len(seq) + 1)},
                    'whole-record read %d raised %s: %s' % (len(seq), type(err).__name__, err))
        return 1, len(seq) + 1, True
    if seq != recs:
        res.violate({'kind': 'sequential_read'}, {'cfg': cfg, 'history': [['read', -1]] * (len(recs) + 1)},
                    'whole-record reads gave %d records, %d written' % (len(seq), len(recs)))
    return bfs.search(make, lambda sy: ops_for(sy, sizes), step, System.canon, depth, res, {'cfg': cfg})


# ------------------------------------------------------------------------------------------------
def gen_writer_cfgs(tier):
    for tr in TRAILERS:
        for maxlen in capacities(tr):
            P = maxlen - 4 - tlen(tr)
            lens = record_lengths(P, maxlen == 65535)
            lists = [[a] for a in lens] + [[a, b] for a in lens for b in lens]
            lists += [[a, b, c] for a in lens[:4] for b in lens[-3:] for c in lens[1:3]]
            if maxlen == 65535:
                lists.append([70000, 2])
            if tr[0] and maxlen == 4 + tlen(tr) + 1:
                lists.append([65540, 3])          # more than 65536 physical records: the 16 bit record number in the trailer wraps
            for tif in (None, 'normal'):
                for lengths in lists:
                    yield {'trailer': list(tr), 'maxlen': maxlen, 'tif': tif, 'lengths': lengths}
                if tr[1]:
                    # the file number is a value, not a flag: its boundary values 0 and 65535 are legal
                    for filenum in (0, 1, 65535):
                        for lengths in lists[:12]:
                            yield {'trailer': list(tr), 'maxlen': maxlen, 'tif': tif, 'lengths': lengths, 'filenum': filenum}
                for lengths in lists[:12]:
                    yield {'trailer': list(tr), 'maxlen': maxlen, 'tif': tif, 'lengths': lengths, 'content': 'zeros'}


def gen_reader_cfgs(tier):
    trailers = TRAILERS if tier == 'thorough' else [(0, 0, 0), (1, 1, 1), (1, 0, 0), (0, 0, 1)]
    for tr in trailers:
        for maxlen in capacities(tr):
            P = maxlen - 4 - tlen(tr)
            lens = record_lengths(P, maxlen == 65535)
            if tier == 'thorough':
                lists = [[a] for a in lens] + [[a, b] for a in lens for b in lens]
            else:
                lists = [[a] for a in lens]
                red = [x for x in lens if x in (2, P, P + 1, 2 * P + 1, 300)]
                lists += [[a, b] for a in red for b in red]
            lists += [[a, b, c] for a in lens[:2] for b in lens[-2:] for c in lens[1:3]]
            if maxlen == 65535:
                lists.append([70000, 2])
            for tif in (None, 'normal', 'reversed'):
                for lengths in lists:
                    first_pr = min(lengths[0], P) + 4 + tlen(tr)
                    if tif == 'reversed' and first_pr + 12 == 0x100:
                        continue
                    yield {'trailer': list(tr), 'maxlen': maxlen, 'tif': tif, 'lengths': lengths}
                for lengths in (lists if tier == 'thorough' else lists[:len(lens)] + lists[-2:]):
                    if tif == 'reversed' and min(lengths[0], P) + 4 + tlen(tr) + 12 == 0x100:
                        continue
                    yield {'trailer': list(tr), 'maxlen': maxlen, 'tif': tif, 'lengths': lengths, 'content': 'zeros'}


def shards(tier):
    return [{'gen': 'W', 'part': p, 'of': 16} for p in range(16)] + [{'gen': 'R', 'part': p, 'of': 96} for p in range(96)]


def run_shard(shard, tier):
    res = Result()
    if shard['gen'] == 'W':
        if shard['part'] == 0:
            for sig, msg in check_two_writers():
                res.violate(sig, {'cfg': None, 'writer': 'two'}, msg)
        for i, cfg in enumerate(gen_writer_cfgs(tier)):
            if i % shard['of'] != shard['part']:
                continue
            bad, outcome = check_writer(cfg)
            if cfg['tif'] == 'normal':
                bad += check_strip(cfg)
            P = cfg['maxlen'] - 4 - tlen(cfg['trailer'])
            nontriv = any(cfg['trailer']) or cfg['tif'] is not None or any(n > P for n in cfg['lengths'])
            res.case(h64(repr(cfg)), nontrivial=nontriv, outcome=outcome, sample={'writer_cfg': cfg} if i == 1000 else None)
            res.count('writer_files')
            res.traces += 1
            for sig, msg in bad:
                res.violate(sig, {'cfg': cfg, 'writer': 'one'}, msg)
        return res
    for i, cfg in enumerate(gen_reader_cfgs(tier)):
        if i % shard['of'] != shard['part']:
            continue
        P = cfg['maxlen'] - 4 - tlen(cfg['trailer'])
        small = P <= 7
        depth = (30 if small else 8) if tier == 'quick' else (40 if small else 20)
        st, tr, closed = explore(cfg, depth, res)
        res.case(h64(repr(cfg)), nontrivial=True, outcome=h64((repr(cfg), st, tr)),
                 sample={'reader_cfg': cfg, 'states': st, 'transitions': tr, 'frontier_closed': closed} if i % 211 == 0 else None)
        res.count('reader_files')
        res.count('reader_files_frontier_closed' if closed else 'reader_files_depth_bounded')
    return res


def replay(case):
    if case.get('writer') == 'two':
        bad = check_two_writers()
    elif case.get('writer') == 'one':
        bad, _ = check_writer(case['cfg'])
        if case['cfg']['tif'] == 'normal':
            bad += check_strip(case['cfg'])
    else:
        cfg = case['cfg']
        data, lay, recs = ref_file(cfg)
        bad = bfs.replay_history(lambda: System(data, lay, recs), step, case.get('history', []))
    return [{'sig': s, 'case': case, 'msg': m} for s, m in bad]
