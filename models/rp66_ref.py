"""Reference RP66V1 (DLIS) *producer*, written from the standard (API RP66 V1, sections 2.2 - 2.3, 3.2).

Does not import TotalDepth.  Produces the bytes of a file and a layout map (where every visible record and
logical record segment lies) that the "touches only" and position oracles use.
"""
import struct

SUL_SIZE = 80
PAD_FILL = 0xFC       # value of pad bytes other than the pad count (arbitrary by the standard)
CHK = b'\xfd\xfe'     # checksum bytes (the reader is not required to verify; must never appear in a payload)

# ------------------------------------------------------------------------------------------------
# Storage unit label (2.3.2)
# ------------------------------------------------------------------------------------------------
def sul_bytes(seq=1, maxlen=8192, ident=None, seq_text=None, maxlen_text=None, version=b'V1.00'):
    """seq_text / maxlen_text override the spelling (e.g. b'   1' or b'0001')."""
    if seq_text is None:
        seq_text = b'%4d' % seq
    if maxlen_text is None:
        maxlen_text = b'%05d' % maxlen
    if ident is None:
        ident = b'Default Storage Set'.ljust(60)
    by = seq_text + version + b'RECORD' + maxlen_text + ident
    assert len(seq_text) == 4 and len(maxlen_text) == 5 and len(ident) == 60 and len(by) == SUL_SIZE, by
    return by


# ------------------------------------------------------------------------------------------------
# Logical record segments (2.2.2)
# ------------------------------------------------------------------------------------------------
def position_coded(r, n):
    """Byte i of record r is (r*67 + i*3 + 1) mod 251: any drop, duplicate, reorder or off-by-one shows."""
    return bytes((r * 67 + i * 3 + 1) % 251 for i in range(n))


def segment_bytes(body, is_eflr, lr_type, first, last, encrypted=False, checksum=False, trailing=False,
                  extra_pad=0, enc_pad_flag=False):
    """One logical record segment: header(4) body [pad] [checksum] [trailing length].
    Pads to even length and to the 16 byte minimum (2.2.2.1); extra_pad adds further (even) pad bytes.
    Returns (bytes, pad_count)."""
    tail = (2 if checksum else 0) + (2 if trailing else 0)
    n = 4 + len(body) + tail
    pad = 0
    if n % 2:
        pad += 1
    if n + pad < 16:
        pad += 16 - (n + pad)
    pad += extra_pad
    assert pad < 256
    if encrypted:
        assert pad == 0, 'generators give encrypted segments bodies that need no padding'
    length = n + pad
    assert length % 2 == 0 and length >= 16
    attr = 0
    if is_eflr:
        attr |= 0x80
    if not first:
        attr |= 0x40      # predecessor
    if not last:
        attr |= 0x20      # successor
    if encrypted:
        attr |= 0x10
    if checksum:
        attr |= 0x04
    if trailing:
        attr |= 0x02
    if pad or (encrypted and enc_pad_flag):
        # an encrypted segment may carry the padding bit: its pad bytes are part of the cipher text and stay in the body (2.2.2.1)
        attr |= 0x01
    by = struct.pack('>HBB', length, attr, lr_type) + body
    if pad:
        by += bytes([PAD_FILL]) * (pad - 1) + bytes([pad])
    if checksum:
        by += CHK
    if trailing:
        by += struct.pack('>H', length)
    assert len(by) == length
    return by, pad


class Layout:
    """Where things are."""

    def __init__(self):
        self.vrs = []        # (position, length)
        self.records = []    # per logical record: dict(vr_position, lrsh_position, segments=[(vr_index, pos, length, body_len)])

    def record_vr_spans(self, r):
        """[(start, end)) of every visible record that holds a segment of logical record r."""
        idx = sorted({s[0] for s in self.records[r]['segments']})
        return [(self.vrs[i][0], self.vrs[i][0] + self.vrs[i][1]) for i in idx]


def build_file(records, sul=None):
    """records: list of dicts
         eflr: bool, type: int, payload: bytes, encrypted: bool (default False)
         cuts: sorted cut offsets into payload (k cuts -> k+1 segments), default []
         opts: per segment dict(checksum, trailing, extra_pad), default {}
         newvr: per segment bool "start a new visible record before this segment" (first segment of the
                first record always starts one)
    Returns (bytes, Layout)."""
    if sul is None:
        sul = sul_bytes()
    out = bytearray(sul)
    lay = Layout()
    cur = None  # [position, bytearray] of the open visible record

    def close():
        nonlocal cur
        if cur is not None:
            pos, body = cur
            length = 4 + len(body)
            assert 20 <= length <= 16384, length
            out.extend(struct.pack('>HH', length, 0xFF01))
            out.extend(body)
            lay.vrs.append((pos, length))
            cur = None

    for r, rec in enumerate(records):
        payload = rec['payload']
        cuts = list(rec.get('cuts', []))
        bounds = [0] + cuts + [len(payload)]
        nseg = len(bounds) - 1
        opts = rec.get('opts') or [{}] * nseg
        newvr = rec.get('newvr') or [False] * nseg
        info = {'segments': []}
        for s in range(nseg):
            body = payload[bounds[s]:bounds[s + 1]]
            o = opts[s] if s < len(opts) else {}
            seg, _pad = segment_bytes(body, rec['eflr'], rec['type'], s == 0, s == nseg - 1,
                                      encrypted=rec.get('encrypted', False), checksum=o.get('checksum', False),
                                      trailing=o.get('trailing', False), extra_pad=o.get('extra_pad', 0),
                                      enc_pad_flag=rec.get('enc_pad_flag', False))
            if cur is None or newvr[s] or 4 + len(cur[1]) + len(seg) > 16384:
                close()
                cur = [len(out), bytearray()]
            pos = cur[0] + 4 + len(cur[1])
            cur[1].extend(seg)
            vr_index = len(lay.vrs)
            if s == 0:
                info['vr_position'] = cur[0]
                info['lrsh_position'] = pos
            info['segments'].append((vr_index, pos, len(seg), len(body)))
        lay.records.append(info)
    close()
    return bytes(out), lay


# ------------------------------------------------------------------------------------------------
# Representation code encoders used by the EFLR / IFLR producers (Appendix B)
# ------------------------------------------------------------------------------------------------
def uvari(n):
    if n < 0x80:
        return bytes([n])
    if n < 0x4000:
        return struct.pack('>H', n | 0x8000)
    assert n < 0x40000000
    return struct.pack('>I', n | 0xC0000000)


def ident(b):
    assert len(b) < 256
    return bytes([len(b)]) + b


def ascii_(b):
    return uvari(len(b)) + b


def obname(o, c, i):
    return uvari(o) + bytes([c]) + ident(i)


REP = {'FSHORT': 1, 'FSINGL': 2, 'FSING1': 3, 'FSING2': 4, 'ISINGL': 5, 'VSINGL': 6, 'FDOUBL': 7, 'FDOUB1': 8,
       'FDOUB2': 9, 'CSINGL': 10, 'CDOUBL': 11, 'SSHORT': 12, 'SNORM': 13, 'SLONG': 14, 'USHORT': 15, 'UNORM': 16,
       'ULONG': 17, 'UVARI': 18, 'IDENT': 19, 'ASCII': 20, 'DTIME': 21, 'ORIGIN': 22, 'OBNAME': 23, 'OBJREF': 24,
       'ATTREF': 25, 'STATUS': 26, 'UNITS': 27}


def encode_value(code, v):
    """Encode one value of an RP66V1 representation code.  Value conventions:
    ints for integer codes; float for FSINGL/FDOUBL (must be exactly representable); bytes for IDENT/ASCII/UNITS;
    (o, c, i) for OBNAME; (t, (o, c, i)) for OBJREF; (y, tz, m, d, h, mn, s, ms) for DTIME; raw 4 bytes for ISINGL/VSINGL."""
    if code == 2:
        return struct.pack('>f', v)
    if code in (5, 6):
        assert isinstance(v, (bytes, bytearray)) and len(v) == 4
        return bytes(v)
    if code == 7:
        return struct.pack('>d', v)
    if code == 12:
        return struct.pack('>b', v)
    if code == 13:
        return struct.pack('>h', v)
    if code == 14:
        return struct.pack('>i', v)
    if code in (15, 26):
        return struct.pack('>B', v)
    if code == 16:
        return struct.pack('>H', v)
    if code == 17:
        return struct.pack('>I', v)
    if code in (18, 22):
        return uvari(v)
    if code in (19, 27):
        return ident(v)
    if code == 20:
        return ascii_(v)
    if code == 21:
        y, tz, m, d, h, mn, s, ms = v
        return bytes([y - 1900, (tz << 4) | m, d, h, mn, s]) + struct.pack('>H', ms)
    if code == 23:
        return obname(*v)
    if code == 24:
        return ident(v[0]) + obname(*v[1])
    raise ValueError('no encoder for code %r' % code)


# ------------------------------------------------------------------------------------------------
# EFLR components (3.2.2)
# ------------------------------------------------------------------------------------------------
ROLE_ABSATR, ROLE_ATTRIB, ROLE_INVATR, ROLE_OBJECT, ROLE_RESERVED, ROLE_RDSET, ROLE_RSET, ROLE_SET = range(8)


def set_component(set_type, name=None, role=ROLE_SET):
    d = (role << 5) | 0x10 | (0x08 if name is not None else 0)
    by = bytes([d]) + ident(set_type)
    if name is not None:
        by += ident(name)
    return by


def attr_component(role=ROLE_ATTRIB, label=None, count=None, code=None, units=None, values=None, value_code=None):
    """Attribute / invariant attribute / absent attribute component.  A characteristic that is None is omitted.
    values: list of model values encoded with value_code (the code in force: explicit `code`, else the template's)."""
    d = role << 5
    by = b''
    if label is not None:
        d |= 0x10
        by += ident(label)
    if count is not None:
        d |= 0x08
        by += uvari(count)
    if code is not None:
        d |= 0x04
        by += bytes([code])
    if units is not None:
        d |= 0x02
        by += ident(units)
    if values is not None:
        d |= 0x01
        vc = value_code if value_code is not None else code
        for v in values:
            by += encode_value(vc, v)
    return bytes([d]) + by


def object_component(name):
    return bytes([(ROLE_OBJECT << 5) | 0x10]) + obname(*name)


# ------------------------------------------------------------------------------------------------
# IFLR (3.3): data descriptor reference (OBNAME) + frame number (UVARI) + channel data
# ------------------------------------------------------------------------------------------------
def iflr_payload(frame_obname, frame_number, data):
    return obname(*frame_obname) + uvari(frame_number) + data


# ------------------------------------------------------------------------------------------------
# Exact decoders for the two historic float codes (used for expected cell / frame values)
# ------------------------------------------------------------------------------------------------
def isingl_exact(b):
    """B.5 IBM single: (-1)^S * 16^(E-64) * M, M = 24 bit fraction."""
    from fractions import Fraction
    s, e = b[0] & 0x80, b[0] & 0x7F
    m = (b[1] << 16) | (b[2] << 8) | b[3]
    v = Fraction(m, 1 << 24) * Fraction(16) ** (e - 64)
    return -v if s else v


def vsingl_exact(b):
    """B.6 VAX single as RP66 defines and exemplifies it (0C 44 00 80 = 153): (-1)^S (0.5 + M) 2^(E-128),
    M = 23 bit fraction with the binary point at its left; E = 0 and S = 0 is zero."""
    from fractions import Fraction
    s = b[1] & 0x80
    m = ((b[0] & 0x7F) << 16) | (b[3] << 8) | b[2]
    e = ((b[1] & 0x7F) << 1) | ((b[0] & 0x80) >> 7)
    if e == 0 and not s:
        return Fraction(0)
    v = (Fraction(1, 2) + Fraction(m, 1 << 23)) * Fraction(2) ** (e - 128)
    return -v if s else v
