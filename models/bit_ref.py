"""Reference model of Western Atlas (Dresser Atlas) BIT files.  Independent of TotalDepth.

Written from the layout notes in the docstrings of TotalDepth/BIT/ReadBIT.py and from a dissection of
example_data/BIT/data/29_10-_3Z_dwl_DWL_WIRE_1644659.bit (`produce(dissect(b)) == b` for that file).

File      := pass+  TIF(type 1, empty)                a pair of type-1 markers ends the readable file
pass      := TIF(type 0, header[276])  TIF(type 0, data block)*  TIF(type 1, empty)
TIF       := '<3L' type, prev, next   followed by next - tell - 12 payload bytes
             prev = file position of the previous marker (0 for the first one), next = position of the next one
header    := head[4] description[72] unknown_a[5] unknown_b[75] unknown_c[8]
             '>H' channel count (<= 20)  '>H' 0   20 x name[4] (unused slots blank)
             5 x IBM single float: start, stop, spacing, unknown, unknown      tail[8]
data block:= for each channel in header order: k consecutive IBM single floats (k frames of that channel);
             k = payload length / (4 * channels); the last block of a pass may hold fewer frames than the others.

IBM single precision (System/360 short hexadecimal float, identical to RP66V1 representation code 5 ISINGL):
    byte 0: S EEEEEEE, bytes 1..3: 24 bit fraction M;   value = (-1)^S * (M / 2^24) * 16^(E - 64)

Content model (plain JSON-able dicts so that a case descriptor *is* the model):
    file  = {'passes': [pass, ...]}
    pass  = {'names': [str(4), ...], 'start': word, 'stop': word, 'spacing': word,
             'block_frames': [k0, k1, ...], 'words': [[word per frame] per channel],
             optional 'ua', 'ub' (the two unknown floats, words), and hex strings
             'head', 'description', 'unknown_a', 'unknown_b', 'unknown_c', 'tail'}
    word  = the 32 bit big-endian IBM float as an int
"""
import struct
from fractions import Fraction

TIF = struct.Struct('<3L')
HEADER_LEN = 276
MAX_CHANNELS = 20

DEFAULTS = {
    'head': b'\x00\x02\x00\x00'.hex(),
    'description': b'VERIF C13 REFERENCE PRODUCER'.ljust(72).hex(),
    'unknown_a': b'\x00\x0a\x00\x18\x00'.hex(),
    'unknown_b': b'T'.ljust(75).hex(),
    'unknown_c': b'\x00\x12\x00\x0b\x00\x06\x20\x20'.hex(),
    'tail': b'MN239J 1'.hex(),
    'ua': 0x00000000,
    'ub': 0x42100000,  # 16.0
}
_FIELD_LEN = {'head': 4, 'description': 72, 'unknown_a': 5, 'unknown_b': 75, 'unknown_c': 8, 'tail': 8}


# ---------------------------------------------------------------------------------------------
# IBM single precision, exact
# ---------------------------------------------------------------------------------------------
def ibm_word_to_fraction(word: int) -> Fraction:
    """Exact value of a 32 bit IBM single precision word."""
    if not 0 <= word <= 0xFFFFFFFF:
        raise ValueError('not a 32 bit word: %r' % (word,))
    sign = -1 if word & 0x80000000 else 1
    exponent = (word >> 24) & 0x7F
    mantissa = word & 0x00FFFFFF
    # (M / 2^24) * 16^(E-64) = M * 2^(4E - 280)
    shift = 4 * exponent - 280
    if shift >= 0:
        return Fraction(sign * mantissa * (1 << shift))
    return Fraction(sign * mantissa, 1 << -shift)


def ibm_bytes_to_fraction(b: bytes) -> Fraction:
    if len(b) != 4:
        raise ValueError('need four bytes')
    return ibm_word_to_fraction(int.from_bytes(b, 'big'))


def ibm_encode_exact(value) -> int:
    """The normalised IBM single word whose value is exactly `value`; ValueError if there is none."""
    x = Fraction(value)
    if x == 0:
        return 0
    sign = 0x80000000 if x < 0 else 0
    a = abs(x)
    n, d = a.numerator, a.denominator

    def below(e):   # a < 16^e
        return n < d << (4 * e) if e >= 0 else n << (-4 * e) < d

    e = max(-64, min(63, (n.bit_length() - d.bit_length()) // 4 - 1))   # a lower estimate
    while e > -64 and below(e - 1):
        e -= 1
    while e < 63 and not below(e):   # smallest e >= -64 with a < 16^e
        e += 1
    if not below(e):
        raise ValueError('%r is too large for IBM single precision' % (value,))
    m = a / Fraction(16) ** e * (1 << 24)
    if m.denominator != 1:
        raise ValueError('%r is not exactly representable in IBM single precision' % (value,))
    word = sign | ((e + 64) << 24) | int(m)
    assert ibm_word_to_fraction(word) == x
    return word


def word_bytes(word: int) -> bytes:
    return word.to_bytes(4, 'big')


# ---------------------------------------------------------------------------------------------
# producer
# ---------------------------------------------------------------------------------------------
def split_frames(frames: int, frames_per_block: int):
    """Block sizes of `frames` frames written `frames_per_block` at a time; the last block may be short."""
    out = [frames_per_block] * (frames // frames_per_block)
    if frames % frames_per_block:
        out.append(frames % frames_per_block)
    return out


def _field(p, key) -> bytes:
    b = bytes.fromhex(p.get(key, DEFAULTS[key]))
    if len(b) != _FIELD_LEN[key]:
        raise ValueError('%s must be %d bytes' % (key, _FIELD_LEN[key]))
    return b


def header_block(p) -> bytes:
    names = p['names']
    if not 0 <= len(names) <= MAX_CHANNELS:
        raise ValueError('0..20 channels')
    out = [_field(p, 'head'), _field(p, 'description'), _field(p, 'unknown_a'), _field(p, 'unknown_b'),
           _field(p, 'unknown_c'), struct.pack('>H', len(names)), struct.pack('>H', p.get('null', 0))]
    for n in names:
        b = n.encode('ascii')
        if len(b) != 4:
            raise ValueError('channel names are four bytes: %r' % (n,))
        out.append(b)
    out.append(b' ' * (4 * (MAX_CHANNELS - len(names))))
    for key in ('start', 'stop', 'spacing'):
        out.append(word_bytes(p[key]))
    out.append(word_bytes(p.get('ua', DEFAULTS['ua'])))
    out.append(word_bytes(p.get('ub', DEFAULTS['ub'])))
    out.append(_field(p, 'tail'))
    ret = b''.join(out)
    assert len(ret) == HEADER_LEN
    return ret


def data_blocks(p):
    """The data block payloads of a pass: channel-major, block_frames[i] frames each."""
    words = p['words']
    nframes = len(words[0]) if words else 0
    if any(len(w) != nframes for w in words) or len(words) != len(p['names']):
        raise ValueError('every channel needs the same number of values')
    if sum(p['block_frames']) != nframes or any(k < 1 for k in p['block_frames']):
        raise ValueError('block_frames must add up to the frame count')
    out = []
    f0 = 0
    for k in p['block_frames']:
        out.append(b''.join(word_bytes(words[c][f]) for c in range(len(words)) for f in range(f0, f0 + k)))
        f0 += k
    return out


def produce(model) -> bytes:
    """The bytes of a BIT file with this content."""
    payloads = []   # (tif type, payload)
    for p in model['passes']:
        payloads.append((0, header_block(p)))
        for blk in data_blocks(p):
            payloads.append((0, blk))
        payloads.append((1, b''))
    payloads.append((1, b''))
    out = []
    tell = 0
    prev = 0
    for typ, payload in payloads:
        nxt = tell + TIF.size + len(payload)
        out.append(TIF.pack(typ, prev, nxt))
        out.append(payload)
        prev = tell
        tell = nxt
    return b''.join(out)


# ---------------------------------------------------------------------------------------------
# dissector (only used to validate the producer against a real file and to read that file's content)
# ---------------------------------------------------------------------------------------------
def tif_blocks(data: bytes):
    """[(tell, type, prev, next, payload)] walking the markers from 0 to the end of the data."""
    out = []
    tell = 0
    while tell + TIF.size <= len(data):
        typ, prev, nxt = TIF.unpack_from(data, tell)
        if nxt < tell + TIF.size or nxt > len(data):
            raise ValueError('bad TIF marker at 0x%x' % tell)
        out.append((tell, typ, prev, nxt, data[tell + TIF.size:nxt]))
        tell = nxt
    if tell != len(data):
        raise ValueError('trailing bytes after the last TIF marker')
    return out


def dissect_header(b: bytes):
    if len(b) != HEADER_LEN:
        raise ValueError('header block of %d bytes' % len(b))
    p = {'head': b[0:4].hex(), 'description': b[4:76].hex(), 'unknown_a': b[76:81].hex(),
         'unknown_b': b[81:156].hex(), 'unknown_c': b[156:164].hex()}
    count, null = struct.unpack('>HH', b[164:168])
    if count > MAX_CHANNELS:
        raise ValueError('more than 20 channels')
    p['null'] = null
    p['names'] = [b[168 + 4 * i:172 + 4 * i].decode('ascii') for i in range(count)]
    if b[168 + 4 * count:248].strip(b' '):
        raise ValueError('unused channel slots are not blank')
    fl = [int.from_bytes(b[248 + 4 * i:252 + 4 * i], 'big') for i in range(5)]
    p['start'], p['stop'], p['spacing'], p['ua'], p['ub'] = fl
    p['tail'] = b[268:276].hex()
    return p


def dissect(data: bytes):
    """Content model of a well-formed BIT file (raises ValueError on anything else)."""
    passes = []
    cur = None
    blocks = tif_blocks(data)
    ended = False
    for i, (tell, typ, prev, nxt, payload) in enumerate(blocks):
        if ended:
            raise ValueError('data after the end-of-file marker')
        want_prev = blocks[i - 1][0] if i else 0
        if prev != want_prev:
            raise ValueError('TIF prev of marker %d' % i)
        if typ == 0:
            if cur is None:
                cur = dissect_header(payload)
                cur['block_frames'] = []
                cur['words'] = [[] for _ in cur['names']]
            else:
                nch = len(cur['names'])
                if nch == 0 or len(payload) == 0 or len(payload) % (4 * nch):
                    raise ValueError('data block length')
                k = len(payload) // (4 * nch)
                cur['block_frames'].append(k)
                for c in range(nch):
                    for f in range(k):
                        o = 4 * (c * k + f)
                        cur['words'][c].append(int.from_bytes(payload[o:o + 4], 'big'))
        elif typ == 1:
            if payload:
                raise ValueError('type 1 marker with a payload')
            if cur is None:
                if not passes:
                    raise ValueError('file starts with an end marker')
                ended = True
            else:
                passes.append(cur)
                cur = None
        else:
            raise ValueError('TIF type %d' % typ)
    if not ended:
        raise ValueError('no end-of-file marker pair')
    return {'passes': passes}


# ---------------------------------------------------------------------------------------------
# what a reader has to deliver for a pass
# ---------------------------------------------------------------------------------------------
def pass_frames(p) -> int:
    return sum(p['block_frames'])


def expected_values(p):
    """[[Fraction per frame] per channel]"""
    return [[ibm_word_to_fraction(w) for w in ch] for ch in p['words']]


def x_direction(p) -> int:
    """+1 when the stop depth is greater than the start depth, -1 when smaller, 0 when the header gives no direction."""
    a, b = ibm_word_to_fraction(p['start']), ibm_word_to_fraction(p['stop'])
    return (b > a) - (b < a)


def expected_x(p, direction=None):
    """X[i] = start + direction * i * |spacing| as Fractions."""
    d = x_direction(p) if direction is None else direction
    a = ibm_word_to_fraction(p['start'])
    s = abs(ibm_word_to_fraction(p['spacing']))
    return [a + d * i * s for i in range(pass_frames(p))]
