"""Reference LIS-79 *producer* written from the standard (LIS-79 sections 2.2 - 2.3, 3.x, 4.1) and the TIF
description in TotalDepth's documentation.  Does not import TotalDepth.

Layer 1 (this part): physical records, trailers, checksum, TIF markers in both byte orders, with a layout map.
Layer 2 (below): logical record bodies - reel/tape/file headers and trailers, component-block tables,
entry blocks, datum specification blocks, type 0 / 1 data records.
"""
import struct

TIF_LEN = 12


def position_coded(r, n):
    return bytes((r * 67 + i * 3 + 1) % 251 for i in range(n))


def checksum16(by):
    """LIS-79 / RP66 16 bit cyclic checksum: add each 16 bit word with end-around carry, then rotate left one bit."""
    c = 0
    for i in range(0, len(by) - 1, 2):
        c += (by[i] << 8) | by[i + 1]
        if c > 0xFFFF:
            c = (c & 0xFFFF) + 1
        c <<= 1
        if c > 0xFFFF:
            c = (c & 0xFFFF) + 1
    return c & 0xFFFF


class Layout:
    def __init__(self):
        self.records = []   # per logical record: dict(start, prs=[(pr_start_incl_tif, header_pos, total_len, payload_pos, payload_len)])
        self.eof_pos = None

    def record_span(self, r):
        """(start, end) file byte range that holds logical record r (TIF markers, headers, trailers included)."""
        prs = self.records[r]['prs']
        return prs[0][0], prs[-1][1] + prs[-1][2] + (self.records[r].get('pads') or [0])[-1]


def physical_records(payload, max_pr_len, rec_num=False, file_num=None, check=False, rec_counter=None):
    """Split one logical record into physical records (2.3.1).  Yields (bytes, payload_len).
    rec_counter: one-element list holding the next record number (shared across a file)."""
    tlen = (2 if rec_num else 0) + (2 if file_num is not None else 0) + (2 if check else 0)
    cap = max_pr_len - 4 - tlen
    assert cap >= 1
    chunks = [payload[i:i + cap] for i in range(0, len(payload), cap)]
    for i, chunk in enumerate(chunks):
        attr = 0
        if i + 1 < len(chunks):
            attr |= 1 << 0       # successor
        if i > 0:
            attr |= 1 << 1       # predecessor
        if rec_num:
            attr |= 1 << 9
        if file_num is not None:
            attr |= 1 << 10
        if check:
            attr |= 1 << 12
        by = struct.pack('>HH', 4 + len(chunk) + tlen, attr) + chunk
        if rec_num:
            by += struct.pack('>H', rec_counter[0] & 0xFFFF)
            rec_counter[0] += 1
        if file_num is not None:
            by += struct.pack('>H', file_num)
        if check:
            by += struct.pack('>H', checksum16(by))
        yield by, len(chunk)


def build_file(records, max_pr_len=65535, rec_num=False, file_num=None, check=False, tif=None, eof_markers=True, pad_to=None):
    """records: list of logical record payloads (bytes).  tif: None | 'normal' (little-endian words) | 'reversed'.
    pad_to: 2 | 4 - every physical record is followed by null bytes up to the next file position that is a multiple of it
    (2.3.1.1: "a Physical Record may be padded with null characters"); a TIF marker's next word counts the padding.
    Returns (bytes, Layout)."""
    out = bytearray()
    lay = Layout()
    counter = [0]
    fmt = {'normal': '<3L', 'reversed': '>3L'}.get(tif)
    prev = 0
    for payload in records:
        info = {'start': len(out), 'prs': [], 'pads': []}
        off = 0
        for pr, plen in physical_records(payload, max_pr_len, rec_num, file_num, check, counter):
            start = len(out)
            npad = 0
            if pad_to:
                end = start + (TIF_LEN if tif else 0) + len(pr)
                npad = (-end) % pad_to
            if tif:
                out += struct.pack(fmt, 0, prev, start + TIF_LEN + len(pr) + npad)
                prev = start
            hdr = len(out)
            out += pr
            out += b'\x00' * npad
            info['prs'].append((start, hdr, len(pr), hdr + 4, plen))
            info['pads'].append(npad)
            off += plen
        lay.records.append(info)
    lay.eof_pos = len(out)
    if tif and eof_markers:
        for _ in range(2):
            start = len(out)
            out += struct.pack(fmt, 1, prev, start + TIF_LEN)
            prev = start
    return bytes(out), lay


# =================================================================================================
# Layer 2: representation codes (LIS-79 Appendix B) - exact encoders/decoders for representable values
# =================================================================================================
from fractions import Fraction


def _frexp_exact(v):
    """v (Fraction, non-zero) = f * 2**e with 1/2 <= |f| < 1."""
    v = Fraction(v)
    e = 0
    a = abs(v)
    while a >= 1:
        a /= 2
        e += 1
    while a < Fraction(1, 2):
        a *= 2
        e -= 1
    return (a if v > 0 else -a), e


def enc68(v):
    """32 bit floating point: S EEEEEEEE M(23).  Positive: M/2^23 * 2^(E-128).  Negative numbers hold the one's
    complement of the exponent and the two's complement of the fraction (153 = 0x444C8000, -153 = 0xBBB38000)."""
    v = Fraction(v)
    if v == 0:
        return struct.pack('>I', 0x40000000)      # zero: exponent 128, fraction 0 (the canonical LIS zero)
    f, e = _frexp_exact(v)
    m = abs(f) * (1 << 23)
    assert m.denominator == 1 and 0 <= e + 128 <= 255, 'not representable in code 68: %r' % v
    m = int(m)
    E = e + 128
    if v > 0:
        w = (E << 23) | m
    else:
        w = 0x80000000 | ((255 - E) << 23) | (((1 << 23) - m) & 0x7FFFFF)
    return struct.pack('>I', w)


def enc68_nearest(v):
    """Nearest code 68 word for a positive or negative rational (round half to even on the 23 bit fraction)."""
    v = Fraction(v)
    if v == 0:
        return enc68(0)
    f, e = _frexp_exact(v)
    m = abs(f) * (1 << 23)
    mi = int(m)
    r = m - mi
    if r > Fraction(1, 2) or (r == Fraction(1, 2) and mi % 2):
        mi += 1
    q = Fraction(mi, 1 << 23) * Fraction(2) ** e
    return enc68(q if v > 0 else -q)


def dec68(by):
    w = struct.unpack('>I', by)[0]
    E = (w >> 23) & 0xFF
    m = w & 0x7FFFFF
    if w & 0x80000000:
        return Fraction(m - (1 << 23), 1 << 23) * Fraction(2) ** (127 - E)
    return Fraction(m, 1 << 23) * Fraction(2) ** (E - 128)


def enc49(v):
    """16 bit floating point: 12 bit two's complement fraction, 4 bit exponent (153 = 0x4C88)."""
    v = Fraction(v)
    for E in range(16):
        m12 = v / (Fraction(2) ** E) * (1 << 11)
        if m12.denominator == 1 and -2048 <= m12 <= 2047:
            return struct.pack('>H', ((int(m12) & 0xFFF) << 4) | E)
    raise AssertionError('not representable in code 49: %r' % v)


def dec49(by):
    w = struct.unpack('>H', by)[0]
    m = w >> 4
    if m & 0x800:
        m -= 0x1000
    return Fraction(m, 1 << 11) * Fraction(2) ** (w & 0xF)


def enc50(v):
    """32 bit low resolution floating point: 16 bit two's complement exponent, 16 bit two's complement fraction
    (153 = 0x00084C80)."""
    v = Fraction(v)
    if v == 0:
        return struct.pack('>I', 0)
    f, e = _frexp_exact(v)
    M = f * (1 << 15)
    assert M.denominator == 1 and -32768 <= e <= 32767, 'not representable in code 50: %r' % v
    return struct.pack('>HH', e & 0xFFFF, int(M) & 0xFFFF)


def dec50(by):
    e, m = struct.unpack('>hh', by)
    return Fraction(m, 1 << 15) * Fraction(2) ** e


def enc70(v):
    """32 bit fixed point, binary point in the middle."""
    i = Fraction(v) * 65536
    assert i.denominator == 1 and -2 ** 31 <= i < 2 ** 31
    return struct.pack('>i', int(i))


def dec70(by):
    return Fraction(struct.unpack('>i', by)[0], 65536)


RC_SIZE = {49: 2, 50: 4, 56: 1, 66: 1, 68: 4, 70: 4, 73: 4, 77: 1, 79: 2}
_INT_FMT = {56: '>b', 66: '>B', 73: '>i', 77: '>B', 79: '>h'}


def encode(code, v):
    if code in _INT_FMT:
        assert Fraction(v).denominator == 1, 'code %d holds integers, not %r' % (code, v)
        return struct.pack(_INT_FMT[code], int(v))
    return {49: enc49, 50: enc50, 68: enc68, 70: enc70}[code](v)


def decode(code, by):
    if code in _INT_FMT:
        return Fraction(struct.unpack(_INT_FMT[code], by)[0])
    return {49: dec49, 50: dec50, 68: dec68, 70: dec70}[code](by)


def frame_value(code, k):
    """k-th position-coded value of a code, exactly representable, sign alternating."""
    sign = -1 if k % 3 == 2 else 1
    k = k % 180
    if code in (49, 50):
        v = Fraction(2 * k + 1, 2)
    elif code == 68:
        v = Fraction(4 * k + 1, 4)
    elif code == 70:
        v = Fraction(16 * k + 3, 16)
    elif code == 56:
        return ((k * 7) % 256) - 128
    elif code in (66, 77):
        return (k * 7 + 1) % 256
    elif code == 73:
        return sign * (k * 65537 + 5)
    elif code == 79:
        return sign * (k * 129 + 3)
    else:
        raise ValueError(code)
    return sign * v


# =================================================================================================
# Layer 2: logical record bodies
# =================================================================================================
def lr_header(lr_type, attr=0):
    return bytes([lr_type, attr])


def _fixed(b, n):
    assert len(b) <= n, (b, n)
    return b.ljust(n)


def file_head_tail(lr_type, file_name=b'RUNOne.S01', service_sub=b'SUBLEV', version=b'VERS 1.0', date=b'78/03/15',
                   max_pr_len=b' 1024', file_type=b'LO', other_name=b''):
    """File header (128) / trailer (129), 58 bytes (LIS-79 3.3.1.3 / 3.3.1.4)."""
    by = lr_header(lr_type) + _fixed(file_name, 10) + b'  ' + _fixed(service_sub, 6) + _fixed(version, 8) + \
        _fixed(date, 8) + b' ' + _fixed(max_pr_len, 5) + b'  ' + _fixed(file_type, 2) + b'  ' + _fixed(other_name, 10)
    assert len(by) == 58
    return by


def reel_tape_head_tail(lr_type, service=b'SERVCE', date=b'79/06/15', origin=b'ORGN', name=b'REELNAME', cont=b'01',
                        other_name=b'', comments=b'comments'):
    """Reel (132/133) and tape (130/131) header / trailer, 128 bytes (LIS-79 3.3.1.1 / 3.3.1.2)."""
    by = lr_header(lr_type) + _fixed(service, 6) + b' ' * 6 + _fixed(date, 8) + b'  ' + _fixed(origin, 4) + b'  ' + \
        _fixed(name, 8) + b'  ' + _fixed(cont, 2) + b'  ' + _fixed(other_name, 8) + b'  ' + _fixed(comments, 74)
    assert len(by) == 128
    return by


def component_block(cb_type, rep_code, category, mnem, units, value_bytes):
    """12 byte preamble (type, rep code, size, category, mnemonic, units) + value (LIS-79 3.3.2)."""
    assert len(mnem) == 4 and len(units) == 4 and len(value_bytes) < 256
    return bytes([cb_type, rep_code, len(value_bytes), category]) + mnem + units + value_bytes


def cell_bytes(v):
    """(rep code, value bytes) for a table cell value: bytes -> 65; int -> smallest of 66/79/73; float -> 68."""
    if isinstance(v, bytes):
        return 65, v
    if isinstance(v, bool):
        raise TypeError
    if isinstance(v, int):
        if 0 <= v <= 255:
            return 66, struct.pack('>B', v)
        if -32768 <= v <= 32767:
            return 79, struct.pack('>h', v)
        return 73, struct.pack('>i', v)
    return 68, enc68_nearest(Fraction(v))


def table_record(lr_type, name, columns, rows):
    """Table record (types 32, 34, 39): a type 73 block naming the table, then per row a type 0 block (first column)
    and type 69 blocks.  rows: list of lists of cell; cell = value or (value, units)."""
    by = lr_header(lr_type) + component_block(73, 65, 0, b'TYPE', b'    ', name)
    for row in rows:
        for c, cell in enumerate(row):
            v, u = cell if isinstance(cell, tuple) else (cell, b'    ')
            rc, vb = cell_bytes(v)
            by += component_block(0 if c == 0 else 69, rc, 0, columns[c], u, vb)
    return by


def entry_block(eb_type, rep_code, value_bytes):
    return bytes([eb_type, len(value_bytes), rep_code]) + value_bytes


def dsb(mnem, units, size, samples, rep_code, service_id=b'SERVID', service_order=b'ORDER   ', api=45310011, file_number=1):
    """Datum specification block, 40 bytes (LIS-79 3.3.2.4, sub-type 0)."""
    by = _fixed(mnem, 4) + _fixed(service_id, 6) + _fixed(service_order, 8) + _fixed(units, 4) + \
        struct.pack('>IhH', api, file_number, size) + b'\0' * 3 + bytes([samples, rep_code]) + b'\0' * 5
    assert len(by) == 40
    return by


def dfsr(entry_blocks, dsbs):
    """Data format specification record (type 64): entry blocks ending with a terminator (type 0) sized to make the
    entry block section even, then datum specification blocks.  entry_blocks: list of (type, rep_code, value_bytes)."""
    by = b''
    for t, rc, vb in entry_blocks:
        by += entry_block(t, rc, vb)
    if (len(by) + 3) % 2:
        by += entry_block(0, 66, b'\x00')
    else:
        by += entry_block(0, 66, b'')
    return lr_header(64) + by + b''.join(dsbs)


def data_record(lr_type, frames, indirect_x=None):
    """Type 0 / 1 data record: optional leading depth (recording mode 1) then whole frames."""
    return lr_header(lr_type) + (indirect_x or b'') + b''.join(frames)
