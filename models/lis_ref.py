"""Reference LIS-79 *producer* written from the standard (LIS-79 sections 2.2 - 2.3, 3.x, 4.1) and the TIF
description in TotalDepth's documentation.  Does not import TotalDepth.

Layer 1 (this part): physical records, trailers, checksum, TIF markers in both byte orders, with a layout map.
Layer 2 (below): logical record bodies - reel/tape/file headers and trailers, component-block tables,
entry blocks, datum specification blocks, type 0 / 1 data records.
"""
import struct

TIF_LEN = 12


def position_coded(r, n):
    return bytes((r * 67 + i * 3 + 1) % 251 for i in range(n))


def checksum16(by):
    """LIS-79 / RP66 16 bit cyclic checksum: add each 16 bit word with end-around carry, then rotate left one bit."""
    c = 0
    for i in range(0, len(by) - 1, 2):
        c += (by[i] << 8) | by[i + 1]
        if c > 0xFFFF:
            c = (c & 0xFFFF) + 1
        c <<= 1
        if c > 0xFFFF:
            c = (c & 0xFFFF) + 1
    return c & 0xFFFF


class Layout:
    def __init__(self):
        self.records = []   # per logical record: dict(start, prs=[(pr_start_incl_tif, header_pos, total_len, payload_pos, payload_len)])
        self.eof_pos = None

    def record_span(self, r):
        """(start, end) file byte range that holds logical record r (TIF markers, headers, trailers included)."""
        prs = self.records[r]['prs']
        return prs[0][0], prs[-1][1] + prs[-1][2]


def physical_records(payload, max_pr_len, rec_num=False, file_num=None, check=False, rec_counter=None):
    """Split one logical record into physical records (2.3.1).  Yields (bytes, payload_len).
    rec_counter: one-element list holding the next record number (shared across a file)."""
    tlen = (2 if rec_num else 0) + (2 if file_num is not None else 0) + (2 if check else 0)
    cap = max_pr_len - 4 - tlen
    assert cap >= 1
    chunks = [payload[i:i + cap] for i in range(0, len(payload), cap)]
    for i, chunk in enumerate(chunks):
        attr = 0
        if i + 1 < len(chunks):
            attr |= 1 << 0       # successor
        if i > 0:
            attr |= 1 << 1       # predecessor
        if rec_num:
            attr |= 1 << 9
        if file_num is not None:
            attr |= 1 << 10
        if check:
            attr |= 1 << 12
        by = struct.pack('>HH', 4 + len(chunk) + tlen, attr) + chunk
        if rec_num:
            by += struct.pack('>H', rec_counter[0] & 0xFFFF)
            rec_counter[0] += 1
        if file_num is not None:
            by += struct.pack('>H', file_num)
        if check:
            by += struct.pack('>H', checksum16(by))
        yield by, len(chunk)


def build_file(records, max_pr_len=65535, rec_num=False, file_num=None, check=False, tif=None, eof_markers=True):
    """records: list of logical record payloads (bytes).  tif: None | 'normal' (little-endian words) | 'reversed'.
    Returns (bytes, Layout)."""
    out = bytearray()
    lay = Layout()
    counter = [0]
    fmt = {'normal': '<3L', 'reversed': '>3L'}.get(tif)
    prev = 0
    for payload in records:
        info = {'start': len(out), 'prs': []}
        off = 0
        for pr, plen in physical_records(payload, max_pr_len, rec_num, file_num, check, counter):
            start = len(out)
            if tif:
                out += struct.pack(fmt, 0, prev, start + TIF_LEN + len(pr))
                prev = start
            hdr = len(out)
            out += pr
            info['prs'].append((start, hdr, len(pr), hdr + 4, plen))
            off += plen
        lay.records.append(info)
    lay.eof_pos = len(out)
    if tif and eof_markers:
        for _ in range(2):
            start = len(out)
            out += struct.pack(fmt, 1, prev, start + TIF_LEN)
            prev = start
    return bytes(out), lay
