"""Independent model of DAT mud-log text files (property C14).  Imports nothing from TotalDepth.

Three parts:

* a *content model* (plain data: declarations, separator style, header names, rows holding
  datetime objects and (text, float) pairs), a *producer* ``produce(model)`` that renders it
  as DAT text and ``expected(model)`` that states - from the model, without reading the text
  back - what a parse has to deliver;
* a *reference reader* ``ref_parse(text)`` that decides for any text of the language spanned
  by the producer and the single-line corruptions of props/c14.py whether the text has to be
  rejected, or what a parse has to deliver, and which points of it the statement leaves
  open (``doubts``);
* ``compare(observed, ref)``: is an observed parse consistent with the reference reading.

What the statement fixes, and therefore what the reader treats as certain:

  section 1   lines ``A B C``: A an upper-case/digit word, C a word, B the words between
              (at least one), separated by blanks or tabs
  section 2   the first line whose first three words are UTIM DATE TIME: the header
  section 3   every following line is a data line with one field per header name
  types       (UTIM, sec) -> datetime.datetime (seconds since 1970-01-01, UTC, naive),
              (DATE, ddmmyy) -> datetime.date from ``[d]dMonyy`` or ``[d]d-Mon-yy``,
              (TIME, hhmmss) -> datetime.time from ``hh-mm-ss``, everything else -> float
  must reject a header name that has no declaration; a data line whose number of fields is not
              the number of header names; a data field that cannot be read as the type of
              its column (a column has no other reading: such a line "does not match the
              header"); a text with no header line at all (nothing to parse)

What it leaves open (recorded in ``Ref.doubts``; a reader may reject such a text, but if it
returns a result the result must still agree with the text):

  blank lines anywhere; lines in section 1 that are not ``A B C`` (skipped here); a header that
  names nothing after UTIM DATE TIME; a header naming a channel twice; a name declared twice
  with different content (either declaration may be used); UTIM/DATE/TIME declared with
  other units than sec/ddmmyy/hhmmss (date/time reading or float reading); numbers before
  1970; two-digit years 51..54 (the repository's tests pin 50 -> 2050 and 55 -> 1955 only);
  floats written in a way only Python accepts (inf, nan, 1_0).

Descriptions are compared after whitespace normalisation (words joined by one blank).
"""
import datetime
import re
import string

MONTHS = ['Jan', 'Feb', 'Mar', 'Apr', 'May', 'Jun', 'Jul', 'Aug', 'Sep', 'Oct', 'Nov', 'Dec']
SPECIAL_UNITS = {'UTIM': 'sec', 'DATE': 'ddmmyy', 'TIME': 'hhmmss'}
SPECIAL_KIND = {'UTIM': 'datetime', 'DATE': 'date', 'TIME': 'time'}
EPOCH = datetime.datetime(1970, 1, 1)
EPOCH_ORDINAL = 719163  # proleptic Gregorian ordinal of 1970-01-01

RE_MNEMONIC = re.compile(r'^[A-Z0-9]+$')
RE_INT = re.compile(r'^[+-]?[0-9]+$')
RE_DECIMAL = re.compile(r'^[+-]?(?:[0-9]+\.?[0-9]*|\.[0-9]+)(?:[eE][+-]?[0-9]+)?$')
RE_DATE_A = re.compile(r'^([0-9]{1,2})([A-Z][a-z]{2})([0-9]{1,2})$')
RE_DATE_B = re.compile(r'^([0-9]{1,2})-([A-Z][a-z]{2})-([0-9]{1,2})$')
RE_TIME = re.compile(r'^([0-9]{1,2})-([0-9]{1,2})-([0-9]{1,2})$')

_PLAIN = set(string.ascii_letters + string.digits + string.punctuation + ' \t\n')


def norm_ws(s):
    return ' '.join(s.split())


# =============================================================================================
# content model -> text, and content model -> what a parse has to deliver
# =============================================================================================
def days_from_civil(y, m, d):
    """Days since 1970-01-01 of a proleptic Gregorian date (integer arithmetic only)."""
    y -= m <= 2
    era = (y if y >= 0 else y - 399) // 400
    yoe = y - era * 400
    doy = (153 * (m + (-3 if m > 2 else 9)) + 2) // 5 + d - 1
    doe = yoe * 365 + yoe // 4 - yoe // 100 + doy
    return era * 146097 + doe - 719468


def utim_text(when):
    """Unix time of a naive UTC datetime, as the decimal text a logger would write."""
    secs = days_from_civil(when.year, when.month, when.day) * 86400 + when.hour * 3600 + when.minute * 60 + when.second
    return '%d' % secs


def date_text(d, spelling, pad):
    """spelling 'A': 09Dec06, 'B': 09-Dec-06; pad False drops the leading zero of the day."""
    assert 1951 <= d.year <= 2050, 'two digit year with the 50/51 pivot'
    dd = ('%02d' if pad else '%d') % d.day
    yy = '%02d' % (d.year % 100)
    mon = MONTHS[d.month - 1]
    return dd + mon + yy if spelling == 'A' else '%s-%s-%s' % (dd, mon, yy)


def time_text(t):
    return '%02d-%02d-%02d' % (t.hour, t.minute, t.second)


def produce_lines(model):
    """model = {'decls': [(name, [description words], units)], 'sep': (between, within),
                'header': [names], 'rows': [{'when': datetime, 'date': (spelling, pad), 'values': {name: (text, float)}}]}
    Returns (lines, sections) where sections[i] in {'decl', 'hdr', 'data'}."""
    between, within = model['sep']
    lines, sections = [], []
    for name, words, units in model['decls']:
        lines.append(between.join([name, within.join(words), units]))
        sections.append('decl')
    lines.append(between.join(model['header']))
    sections.append('hdr')
    for row in model['rows']:
        fields = []
        for name in model['header']:
            if name == 'UTIM':
                fields.append(utim_text(row.get('utim_when', row['when'])))
            elif name == 'DATE':
                fields.append(date_text(row['when'].date(), *row['date']))
            elif name == 'TIME':
                fields.append(time_text(row['when'].time()))
            else:
                fields.append(row['values'][name][0])
        lines.append(between.join(fields))
        sections.append('data')
    return lines, sections


def join_lines(lines):
    return ''.join(line + '\n' for line in lines)


def produce(model):
    return join_lines(produce_lines(model)[0])


def expected(model):
    """What the statement promises for the uncorrupted text - taken from the model, not from the text."""
    declared = {}
    for name, words, units in model['decls']:
        declared[name] = (' '.join(words), units)
    channels, kinds, columns = [], [], []
    for name in model['header']:
        desc, units = declared[name]
        channels.append((name, desc, units))
        if name == 'UTIM':
            kinds.append('datetime')
            columns.append([row.get('utim_when', row['when']) for row in model['rows']])
        elif name == 'DATE':
            kinds.append('date')
            columns.append([row['when'].date() for row in model['rows']])
        elif name == 'TIME':
            kinds.append('time')
            columns.append([row['when'].time() for row in model['rows']])
        else:
            kinds.append('float')
            columns.append([row['values'][name][1] for row in model['rows']])
    return {'channels': channels, 'kinds': kinds, 'columns': columns, 'frames': len(model['rows'])}


# =============================================================================================
# reference reader
# =============================================================================================
def read_utim(tok):
    """-> (list of acceptable datetimes, doubt or None)"""
    if not RE_INT.match(tok):
        return [], None
    n = int(tok)
    try:
        v = EPOCH + datetime.timedelta(seconds=n)
    except OverflowError:
        return [], None
    return [v], ('Unix time before 1970' if n < 0 else None)


def read_date(tok):
    m = RE_DATE_B.match(tok) if '-' in tok else RE_DATE_A.match(tok)
    if m is None or m.group(2) not in MONTHS:
        return [], None
    day, mon, yy = int(m.group(1)), MONTHS.index(m.group(2)) + 1, int(m.group(3))
    if yy <= 50:
        years, doubt = [2000 + yy], None
    elif yy >= 55:
        years, doubt = [1900 + yy], None
    else:
        years, doubt = [1900 + yy, 2000 + yy], 'two digit year 51..54'
    out = []
    for y in years:
        try:
            out.append(datetime.date(y, mon, day))
        except ValueError:
            pass
    return out, doubt if out else None


def read_time(tok):
    m = RE_TIME.match(tok)
    if m is None:
        return [], None
    h, mi, s = (int(g) for g in m.groups())
    if h > 23 or mi > 59 or s > 59:
        return [], None   # (61 leap seconds are not a datetime.time)
    doubt = None if all(len(g) == 2 for g in m.groups()) else 'time field without leading zero'
    return [datetime.time(h, mi, s)], doubt


def read_float(tok):
    if RE_DECIMAL.match(tok):
        return [float(tok)], None
    try:
        v = float(tok)
    except ValueError:
        return [], None
    return [v], 'number in a spelling only Python reads'


READERS = {'datetime': read_utim, 'date': read_date, 'time': read_time, 'float': read_float}


class Alt:
    """One admissible reading of a column: declaration used, value kind, per row the acceptable values."""
    __slots__ = ('desc', 'units', 'kind', 'values')

    def __init__(self, desc, units, kind, values):
        self.desc, self.units, self.kind, self.values = desc, units, kind, values


class Ref:
    """status 'reject': has to be refused (``why`` = class of the reason, ``field`` = column of the first
    unreadable value or None).  status 'noheader': nothing to parse (refuse, or deliver no channels).
    status 'ok': ``names`` in header order, ``alts[i]`` the admissible readings of column i, ``frames``.
    status 'outside': characters outside the modelled alphabet - nothing is claimed.
    ``doubts`` non-empty: the statement leaves the text open, refusal is also admissible."""

    def __init__(self):
        self.status = 'ok'
        self.why = None
        self.field = None
        self.detail = ''
        self.doubts = []
        self.names = []
        self.alts = []
        self.frames = 0

    def reject(self, why, detail, field=None):
        if self.status != 'reject':
            self.status, self.why, self.detail, self.field = 'reject', why, detail, field
        return self

    @property
    def certain(self):
        return self.status == 'ok' and not self.doubts

    def summary(self):
        if self.status == 'reject':
            return 'reject(%s: %s)' % (self.why, self.detail)
        if self.status != 'ok':
            return self.status
        return 'parse(%s, %d frames%s)' % (' '.join(self.names), self.frames,
                                           ', open: ' + '; '.join(sorted(set(self.doubts))) if self.doubts else '')


def split_lines(text):
    lines = text.split('\n')
    if lines and lines[-1] == '':
        lines.pop()
    return lines


def ref_parse(text, max_data_lines=None):
    """Reference reading of `text`.  max_data_lines=1 reads what a one-row discovery probe sees:
    everything up to and including the first line after the header."""
    ref = Ref()
    text = text.replace('\r\n', '\n')      # carriage return + line feed is a line end (a lone carriage return is outside the model)
    if not set(text) <= _PLAIN:
        ref.status = 'outside'
        return ref
    lines = split_lines(text)
    declared = {}       # name -> list of distinct (description, units), file order
    header = None
    data_lines = []
    for number, line in enumerate(lines, 1):
        toks = line.split()
        if header is None:
            if not toks:
                ref.doubts.append('blank line in section 1')
            elif toks[:3] == ['UTIM', 'DATE', 'TIME']:
                header = toks
                if len(toks) == 3:
                    ref.doubts.append('header names no further channel')
            elif len(toks) >= 3 and RE_MNEMONIC.match(toks[0]):
                entry = (' '.join(toks[1:-1]), toks[-1])
                if entry not in declared.setdefault(toks[0], []):
                    declared[toks[0]].append(entry)
            else:
                ref.doubts.append('line %d in section 1 is not a declaration' % number)
        else:
            if max_data_lines is not None and len(data_lines) >= max_data_lines:
                break
            data_lines.append((number, toks))
    if header is None:
        ref.status = 'noheader'
        ref.why = 'no_header'
        return ref
    ref.names = header
    for name in header:
        if name not in declared:
            return ref.reject('undeclared_channel', 'header names %r which has no declaration' % name)
    if len(set(header)) != len(header):
        ref.doubts.append('header names a channel twice')
    rows = []
    for number, toks in data_lines:
        # a blank line after the header is a data line with no fields: it does not match the header
        if len(toks) != len(header):
            return ref.reject('field_count', 'line %d has %d fields, the header %d names' % (number, len(toks), len(header)))
        rows.append((number, toks))
    ref.frames = len(rows)
    for col, name in enumerate(header):
        readings = []   # (desc, units, kind)
        if len(declared[name]) > 1:
            ref.doubts.append('%s declared twice with different content' % name)
        for desc, units in declared[name]:
            if name in SPECIAL_UNITS:
                readings.append((desc, units, SPECIAL_KIND[name]))
                if units != SPECIAL_UNITS[name]:
                    ref.doubts.append('%s declared with units %r' % (name, units))
                    readings.append((desc, units, 'float'))
            else:
                readings.append((desc, units, 'float'))
        alive = []
        first_bad = None
        for desc, units, kind in readings:
            reader = READERS[kind]
            values, ok = [], True
            for number, toks in rows:
                acc, doubt = reader(toks[col])
                if not acc:
                    ok = False
                    if first_bad is None:
                        first_bad = (number, toks[col], kind)
                    break
                if doubt:
                    ref.doubts.append(doubt)
                values.append(acc)
            if ok:
                alive.append(Alt(desc, units, kind, values))
        if not alive:
            return ref.reject('unreadable_value',
                              'line %d: %r in column %s is not a %s' % (first_bad[0], first_bad[1], name, first_bad[2]),
                              field=name)
        if len(alive) < len(readings):
            ref.doubts.append('%s: one reading of the column fails' % name)
        ref.alts.append(alive)
    return ref


def _same_value(kind, got, acceptable):
    for want in acceptable:
        if kind == 'float':
            if isinstance(got, float) and (got == want or (got != got and want != want)):
                return True
        elif kind == 'datetime':
            if type(got) is datetime.datetime and got == want and got.tzinfo is None:
                return True
        elif kind == 'date':
            if type(got) is datetime.date and got == want:
                return True
        elif kind == 'time':
            if type(got) is datetime.time and got == want:
                return True
    return False


def _kind_ok(observed_kind, kind):
    """'object0' is an empty object column: it can hold any of the date/time kinds."""
    return observed_kind == kind or (observed_kind == 'object0' and kind in ('datetime', 'date', 'time'))


def compare(observed, ref):
    """observed = {'channels': [(name, description, units)], 'kinds': [...], 'columns': [[python values]], 'frames': [n per channel]}
    ref: Ref with status 'ok'.  Returns [] or [(what, message)] (first difference only)."""
    names = [c[0] for c in observed['channels']]
    if names != list(ref.names):
        return [('channels', 'channels %r, the header names %r' % (names, list(ref.names)))]
    for i, (name, desc, units) in enumerate(observed['channels']):
        frames = observed['frames'][i]
        if frames != ref.frames:
            return [('frames', 'channel %s has %r frames, the text has %d data lines' % (name, frames, ref.frames))]
        alts = ref.alts[i]
        if not isinstance(desc, str) or norm_ws(desc) not in [a.desc for a in alts]:
            return [('description', 'channel %s description %r, declared %r' % (name, desc, [a.desc for a in alts]))]
        alts = [a for a in alts if a.desc == norm_ws(desc)]
        if units not in [a.units for a in alts]:
            return [('units', 'channel %s units %r, declared %r' % (name, units, [a.units for a in alts]))]
        alts = [a for a in alts if a.units == units]
        kind = observed['kinds'][i]
        if not any(_kind_ok(kind, a.kind) for a in alts):
            return [('type', 'channel %s holds %s, expected %s' % (name, kind, ' or '.join(a.kind for a in alts)))]
        alt = [a for a in alts if _kind_ok(kind, a.kind)][0]
        column = observed['columns'][i]
        for j, got in enumerate(column):
            if not _same_value(kind, got, alt.values[j]):
                return [('values', 'channel %s frame %d is %r, the text says %r' % (name, j, got, alt.values[j]))]
    return []


def compare_expected(observed, exp):
    """Exact comparison with expected(model)."""
    if observed['channels'] != exp['channels']:
        # descriptions are compared modulo whitespace
        a = [(n, norm_ws(d) if isinstance(d, str) else d, u) for n, d, u in observed['channels']]
        if a != exp['channels']:
            if [c[0] for c in a] != [c[0] for c in exp['channels']]:
                return [('channels', 'channels %r expected %r' % ([c[0] for c in a], [c[0] for c in exp['channels']]))]
            for got, want in zip(a, exp['channels']):
                if got[1] != want[1]:
                    return [('description', 'channel %s description %r expected %r' % (got[0], got[1], want[1]))]
                if got[2] != want[2]:
                    return [('units', 'channel %s units %r expected %r' % (got[0], got[2], want[2]))]
    for i, (name, _d, _u) in enumerate(exp['channels']):
        if observed['frames'][i] != exp['frames']:
            return [('frames', 'channel %s has %r frames expected %d' % (name, observed['frames'][i], exp['frames']))]
        if not _kind_ok(observed['kinds'][i], exp['kinds'][i]):
            return [('type', 'channel %s holds %s expected %s' % (name, observed['kinds'][i], exp['kinds'][i]))]
        for j, got in enumerate(observed['columns'][i]):
            if not _same_value(exp['kinds'][i], got, [exp['columns'][i][j]]):
                return [('values', 'channel %s frame %d is %r expected %r' % (name, j, got, exp['columns'][i][j]))]
    return []


def ref_as_expected(ref):
    """A certain Ref in the shape of expected(model) (used to cross-check producer and reader)."""
    assert ref.certain
    return {'channels': [(n, a[0].desc, a[0].units) for n, a in zip(ref.names, ref.alts)],
            'kinds': [a[0].kind for a in ref.alts],
            'columns': [[v[0] for v in a[0].values] for a in ref.alts],
            'frames': ref.frames}


def selftest():
    """Facts pinned by the repository's unit tests and by the calendar, not by the implementation."""
    assert utim_text(datetime.datetime(2006, 12, 9, 11, 50, 17)) == '1165665017'
    assert utim_text(datetime.datetime(1970, 1, 1)) == '0'
    assert days_from_civil(2006, 12, 9) == datetime.date(2006, 12, 9).toordinal() - EPOCH_ORDINAL
    assert days_from_civil(1975, 2, 28) == datetime.date(1975, 2, 28).toordinal() - EPOCH_ORDINAL
    assert read_utim('1165665017')[0] == [datetime.datetime(2006, 12, 9, 11, 50, 17)]
    assert read_utim('99999999999999999999')[0] == [] and read_utim('x')[0] == []
    assert read_utim('253402300799')[0] == [datetime.datetime(9999, 12, 31, 23, 59, 59)]
    assert read_utim('253402300800')[0] == []
    assert read_date('09Dec06')[0] == [datetime.date(2006, 12, 9)]
    assert read_date('9-Oct-11')[0] == [datetime.date(2011, 10, 9)]
    assert read_date('09Dec55')[0] == [datetime.date(1955, 12, 9)]
    assert read_date('09-Dec-50')[0] == [datetime.date(2050, 12, 9)]
    assert read_date('32Dec06')[0] == [] and read_date('09XXX06')[0] == [] and read_date('-5')[0] == []
    assert read_time('11-50-17')[0] == [datetime.time(11, 50, 17)] and read_time('115017')[0] == []
    assert read_float('8.50') == ([8.5], None) and read_float('x')[0] == [] and read_float('-0')[0] == [0.0]
    return True
