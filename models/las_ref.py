"""Reference model for LAS 1.2 / 2.0 text (property C09).  Independent of TotalDepth: nothing is imported from it.

Three parts:

* a *content model* (what a LAS file says): version, NULL, the lines of the version / well / curve / parameter
  sections as (mnemonic, units, value text, description) and the frames as rows of cell texts;
* a *layout model* (how it is typed): wrapped or not, comments / blank lines between lines, space padding inside
  header lines, blank/tab separation in data lines, section titles, final newline;
* `render(content, layout)` -> text, `expected(content, layout)` -> what a reader has to report, with the value typing
  rule written from the standard (integer syntax -> int, decimal/exponent syntax -> float, yes/no -> bool,
  else the text without surrounding blanks).

Grammar produced (CWLS LAS 2.0, sections 5.x; LAS 1.2 is the same for every line generated here):

    ~V... / ~W... / ~C... / ~P... / ~A...          section title: only the letter after '~' is significant
    [blanks] MNEM [blanks] . UNITS [blanks+ VALUE] [blanks] : [blanks] DESCRIPTION [blanks]
        MNEM          no blanks, dots, colons
        UNITS         directly after the first dot, no blanks, no colons (dots allowed: '.1IN')
        VALUE         after the first blank that follows the dot, up to the LAST colon; may contain blanks, dots, colons
        DESCRIPTION   after the last colon; no colons
    # ...             comment (may be indented); blank lines are ignored
    ~A unwrapped      one line per frame, values separated by blanks/tabs
    ~A wrapped        index value alone on a line, the other values on following line(s)

LAS 1.2 writes the *value after the colon* for the well lines COMP, WELL, FLD, LOC, PROV, SRVC, DATE, UWI; those lines
are therefore not generated for version 1.2 (see ASSUMPTIONS in props/c09.py): a 1.2 well section holds only
STRT, STOP, STEP, NULL, whose layout is the same in both versions.
"""
import itertools
import re

# ---------------------------------------------------------------------------------------------------------------
# value typing rule
# ---------------------------------------------------------------------------------------------------------------
_RE_INT = re.compile(r'^[+-]?[0-9]+$')
_RE_FLOAT = re.compile(r'^[+-]?([0-9]+\.[0-9]*|\.[0-9]+|[0-9]+)([eE][+-]?[0-9]+)?$')


def type_value(text):
    """The typing rule for a header value: ('int', n) | ('float', x) | ('bool', b) | ('str', s)."""
    s = text.strip(' \t\r\n')
    if _RE_INT.match(s):
        return ('int', int(s))
    if _RE_FLOAT.match(s):
        return ('float', float(s))
    if s.lower() == 'yes':
        return ('bool', True)
    if s.lower() == 'no':
        return ('bool', False)
    return ('str', s)


def text_value(text):
    """Mnemonics, units and descriptions are text: the field without surrounding blanks."""
    return ('str', text.strip(' \t\r\n'))


def tag(value):
    """Observed python value -> the same (type name, value) form; bool before int, floats by repr (nan, -0.0)."""
    if isinstance(value, bool):
        return ('bool', value)
    if isinstance(value, int):
        return ('int', value)
    if isinstance(value, float):
        return ('float', value)
    if isinstance(value, str):
        return ('str', value)
    return (type(value).__name__, repr(value))


def same(a, b):
    """Equality of two tagged values that distinguishes 7 / 7.0 / True and treats nan == nan."""
    if a[0] != b[0]:
        return False
    if a[0] == 'float':
        return repr(float(a[1])) == repr(float(b[1]))
    return a[1] == b[1]


# ---------------------------------------------------------------------------------------------------------------
# data cells
# ---------------------------------------------------------------------------------------------------------------
NULL_TEXTS = {'-999.25': ('-999.25', '-999.2500'), '-9999': ('-9999', '-9999.00'), '0': ('0', '0.00')}
CELL_NULL = '<NULL>'         # placeholder in a frame: the file's NULL written as a number


def cell_text(cell, null):
    return NULL_TEXTS[null][1] if cell == CELL_NULL else cell


_IEEE_WORDS = ('nan', 'inf', 'infinity')


def cell_expected(cell, null):
    """Set of acceptable float reprs for one cell text.  A LAS number is decimal with optional exponent; anything
    else is unparseable and must read as the FILE's null.  'NaN'/'inf' are not LAS numbers but are IEEE names, so
    either reading (the IEEE value or null) is accepted for them."""
    nul = repr(float(null))
    if cell == CELL_NULL:
        return {nul}
    if _RE_FLOAT.match(cell):
        return {repr(float(cell))}
    if cell.lstrip('+-').lower() in _IEEE_WORDS:
        return {nul, repr(float(cell))}
    return {nul}


def cell_unparseable(cell):
    return cell != CELL_NULL and not _RE_FLOAT.match(cell) and cell.lstrip('+-').lower() not in _IEEE_WORDS


# ---------------------------------------------------------------------------------------------------------------
# content model
# ---------------------------------------------------------------------------------------------------------------
def make_content(vers='2.0', null='-9999', well_extra=(), curves=(('DEPT', 'M', '', '1 DEPTH'),), params=None,
                 frames=(('100.0',),), vdesc=('CWLS LOG ASCII STANDARD - VERSION 2.0', 'ONE LINE PER DEPTH STEP'),
                 well_head=None, dups=False):
    """All fields are strings; JSON-able.  params None = no ~P section, [] = an empty one."""
    index = [fr[0] for fr in frames]
    unit0 = curves[0][1]
    if well_head is None:
        step = '0.0' if len(index) < 2 else repr(float(index[1]) - float(index[0]))
        well_head = [
            ['STRT', unit0, index[0], 'START DEPTH'],
            ['STOP', unit0, index[-1], 'STOP DEPTH'],
            ['STEP', unit0, step, 'STEP'],
            ['NULL', '', NULL_TEXTS[null][0], 'NULL VALUE'],
        ]
    c = {
        'vers': vers,
        'null': null,
        'vdesc': list(vdesc),
        'well': [list(x) for x in well_head] + [list(x) for x in well_extra],
        'curves': [list(x) for x in curves],
        'params': None if params is None else [list(x) for x in params],
        'frames': [list(fr) for fr in frames],
    }
    if dups:
        c['dups'] = True
    validate(c)
    return c


_RE_MNEM = re.compile(r'^[^ \t.:~#]+$')
_RE_UNIT = re.compile(r'^[^ \t:]*$')


def validate(c):
    """The content must be representable by a LAS header line and stay inside the statement's domain."""
    assert c['vers'] in ('1.2', '2.0') and c['null'] in NULL_TEXTS
    if c['vers'] == '1.2':
        assert [w[0] for w in c['well']] == ['STRT', 'STOP', 'STEP', 'NULL'], 'LAS 1.2: only the lines common to both versions'
    for sect in ('well', 'curves', 'params'):
        lines = c[sect] or []
        mn = [ln[0] for ln in lines]
        # a mnemonic may come twice in the well and parameter sections (a file recording two runs) when the content says so;
        # curves stay unique: the reader drops a repeated curve on purpose
        assert (c.get('dups') and sect != 'curves') or len(set(m.strip() for m in mn)) == len(mn), 'duplicate mnemonic'
        for m, u, v, d in lines:
            assert _RE_MNEM.match(m), m
            assert _RE_UNIT.match(u), u
            assert v == v.strip() and '\n' not in v
            assert ':' not in d and d == d.strip() and '\n' not in d
            # a value that starts right after the dot would be read as units: values are always preceded by a blank
    for d in c['vdesc']:
        assert ':' not in d
    n = len(c['curves'])
    assert n >= 1 and len(c['frames']) >= 1
    for m, u, _v, _d in c['curves']:
        assert not (m == 'DATE' and u == 'D') and not (m == 'TIME' and u == 'HHMMSS'), 'date/time channels are outside C09'
    xs = []
    for fr in c['frames']:
        assert len(fr) == n
        assert _RE_FLOAT.match(fr[0]), 'index values are numbers'
        xs.append(float(fr[0]))
        for cell in fr:
            assert cell == CELL_NULL or (cell and not re.search(r'[\s~#]', cell))
    assert len(set(xs)) == len(xs), 'index values are distinct'


# ---------------------------------------------------------------------------------------------------------------
# layout model
# ---------------------------------------------------------------------------------------------------------------
CANONICAL = {
    'wrap': None,        # None = WRAP NO; 'all' | 1 | 2 = WRAP YES with that many non-index values per line
    'lead': 0,           # blanks before the mnemonic
    'predot': 0,         # blanks between mnemonic and dot
    'uv': 1,             # blanks between units and value (>= 1, only when there is a value)
    'precolon': 1,       # blanks before the last colon
    'postcolon': 1,      # blanks after it
    'trail': 0,          # blanks at the end of header lines
    'sep': ' ',          # between data values
    'dlead': '',         # before the first data value of a line
    'dtrail': '',        # after the last
    'titles': 'long',    # 'long' ~Version Information ... | 'short' ~V ... | 'cols' ~A followed by the curve names
    'eol': True,         # final newline present
    'wrapcase': 'upper', # spelling of the WRAP value: YES / Yes / yes
    'nl': '\n',          # line end: line feed, or carriage return + line feed as files written on DOS / Windows have
    'gaps': [],          # [[gap index, filler kind], ...]: gap g is before line g; gap len(lines) is after the last
}

FILLERS = {
    'c': '# a comment',
    'b': '',                                  # empty line
    'i': '   # indented comment: with a.dot ~A',
    's': '   ',                               # blank line made of blanks
}
FILLER_KINDS = ['c', 'b', 'i', 's']

DEVIATIONS = [  # single non-gap deviations, simplest first
    ('wrap', 'all'), ('wrap', 1), ('wrap', 2),
    ('predot', 1), ('predot', 7), ('uv', 7), ('precolon', 0), ('precolon', 7), ('postcolon', 0), ('postcolon', 7),
    ('lead', 1), ('lead', 7), ('trail', 1), ('trail', 7),
    ('sep', '\t'), ('sep', '  \t '), ('dlead', ' '), ('dlead', '\t '), ('dtrail', '  '), ('dtrail', ' \t'),
    ('titles', 'short'), ('titles', 'cols'), ('eol', False), ('nl', '\r\n'),
    ('wrapcase', 'title'), ('wrapcase', 'lower'),
]

TITLES = {
    'long': {'V': '~Version Information', 'W': '~Well Information', 'C': '~Curve Information',
             'P': '~Parameter Information', 'A': '~ASCII Log Data'},
    'short': {'V': '~V', 'W': '~W', 'C': '~C', 'P': '~P', 'A': '~A'},
}


def full_layout(layout):
    out = dict(CANONICAL)
    out.update(layout or {})
    assert set(out) == set(CANONICAL), sorted(set(out) - set(CANONICAL))
    assert out['uv'] >= 1
    return out


def header_line(fields, lay):
    m, u, v, d = fields
    return (' ' * lay['lead'] + m + ' ' * lay['predot'] + '.' + u + ((' ' * lay['uv'] + v) if v else '')
            + ' ' * lay['precolon'] + ':' + ' ' * lay['postcolon'] + d + ' ' * lay['trail'])


def content_lines(content, layout):
    """The lines of the file without gap fillers."""
    lay = full_layout(layout)
    titles = dict(TITLES['short' if lay['titles'] == 'short' else 'long'])
    if lay['titles'] == 'cols':
        titles['A'] = '~A  ' + '  '.join(c[0] for c in content['curves'])
    wrap = lay['wrap'] is not None
    lines = [titles['V'],
             header_line(['VERS', '', content['vers'], content['vdesc'][0]], lay),
             header_line(['WRAP', '', {'upper': str.upper, 'title': str.title, 'lower': str.lower}[lay['wrapcase']]('YES' if wrap else 'NO'),
                          content['vdesc'][1]], lay),
             titles['W']]
    lines += [header_line(ln, lay) for ln in content['well']]
    lines.append(titles['C'])
    lines += [header_line(ln, lay) for ln in content['curves']]
    if content['params'] is not None:
        lines.append(titles['P'])
        lines += [header_line(ln, lay) for ln in content['params']]
    lines.append(titles['A'])
    null = content['null']
    for fr in content['frames']:
        cells = [cell_text(c, null) for c in fr]
        if not wrap:
            lines.append(lay['dlead'] + lay['sep'].join(cells) + lay['dtrail'])
        else:
            lines.append(lay['dlead'] + cells[0] + lay['dtrail'])
            rest = cells[1:]
            per = len(rest) if lay['wrap'] == 'all' else lay['wrap']
            for i in range(0, len(rest), max(per, 1)):
                lines.append(lay['dlead'] + lay['sep'].join(rest[i:i + per]) + lay['dtrail'])
    return lines


def render(content, layout=None):
    lay = full_layout(layout)
    lines = content_lines(content, lay)
    fill = {}
    for g, kind in lay['gaps']:
        assert 0 <= g <= len(lines)
        fill.setdefault(g, []).append(FILLERS[kind])
    out = []
    for i, ln in enumerate(lines):
        out.extend(fill.get(i, []))
        out.append(ln)
    out.extend(fill.get(len(lines), []))
    text = lay['nl'].join(out)
    return text + lay['nl'] if lay['eol'] else text


def n_gaps(content, layout=None):
    return len(content_lines(content, layout)) + 1


# ---------------------------------------------------------------------------------------------------------------
# what a reader has to report
# ---------------------------------------------------------------------------------------------------------------
def expected(content, layout=None):
    """Flat dict key -> tagged value, or for data cells key -> set of acceptable float reprs.

    keys: ('sections',); (S, 'n'); (S, i, 'mnem'|'unit'|'valu'|'desc'); ('A','nchan'); ('A','nframes');
          ('A', c, 'ident'|'units'); ('A', c, f)
    """
    lay = full_layout(layout)
    exp = {}
    sects = [('V', [['VERS', '', content['vers'], content['vdesc'][0]],
                    ['WRAP', '', 'YES' if lay['wrap'] is not None else 'NO', content['vdesc'][1]]]),
             ('W', content['well']), ('C', content['curves'])]
    if content['params'] is not None:
        sects.append(('P', content['params']))
    exp[('sections',)] = ('str', ''.join(s for s, _ in sects) + 'A')
    for s, lines in sects:
        exp[(s, 'n')] = ('int', len(lines))
        for i, (m, u, v, d) in enumerate(lines):
            exp[(s, i, 'mnem')] = text_value(m)
            exp[(s, i, 'unit')] = text_value(u)
            exp[(s, i, 'valu')] = type_value(v)
            exp[(s, i, 'desc')] = text_value(d)
    exp[('A', 'nchan')] = ('int', len(content['curves']))
    exp[('A', 'nframes')] = ('int', len(content['frames']))
    for c, (m, u, _v, _d) in enumerate(content['curves']):
        exp[('A', c, 'ident')] = text_value(m)
        exp[('A', c, 'units')] = text_value(u)
        for f, fr in enumerate(content['frames']):
            exp[('A', c, f)] = cell_expected(fr[c], content['null'])
            # a cell that is a LAS number other than the file's NULL is data: the array has to hold it (not mask it)
            cell = fr[c]
            if cell != CELL_NULL and _RE_FLOAT.match(cell) and float(cell) != float(content['null']):
                exp[('A', c, f, 'masked')] = {'False'}
    return exp


WRAP_KEY = ('V', 1, 'valu')   # the one observation that legitimately depends on the layout


# ---------------------------------------------------------------------------------------------------------------
# layout enumeration
# ---------------------------------------------------------------------------------------------------------------
def relevant(dev, content):
    """Drop deviations that cannot change the text of this content (keeps the enumeration free of duplicates)."""
    k, v = dev
    ncur = len(content['curves'])
    if k == 'wrap' and v != 'all' and (ncur - 1) <= v:
        return False   # same text as 'all'
    if k == 'sep' and ncur < 2:
        return False
    return True


def single_deviations(content, base=None):
    """All layouts one deviation away from `base` (default canonical): list of layout patches (dicts)."""
    base = dict(base or {})
    out = []
    for k, v in DEVIATIONS:
        if k in base or not relevant((k, v), content):
            continue
        lay = dict(base)
        lay[k] = v
        out.append(lay)
    used = {g for g, _ in base.get('gaps', [])}
    for g in range(n_gaps(content, base)):
        if g in used:
            continue
        for kind in FILLER_KINDS:
            lay = dict(base)
            lay['gaps'] = sorted(base.get('gaps', []) + [[g, kind]])
            out.append(lay)
    return out


def layouts_upto(content, k, base=None):
    """`base` (default canonical) plus every layout with <= k further deviations, fewest deviations first; two
    layouts that give the same text are the same layout (kept once)."""
    seen = set()
    level = [dict(base or {})]
    out = []
    for depth in range(k + 1):
        nxt = []
        for lay in level:
            text = render(content, lay)
            if text in seen:
                continue
            seen.add(text)
            out.append(lay)
            if depth < k:
                nxt.extend(single_deviations(content, lay))
        level = nxt
    return out


def layout_key(lay):
    return repr(sorted((k, v) for k, v in lay.items() if v != CANONICAL[k]))


def n_deviations(lay):
    return sum(1 for k, v in lay.items() if k != 'gaps' and v != CANONICAL[k]) + len(lay.get('gaps', []))


def product_layouts(content, dims, fills):
    """Full product of the given {dimension: values} with every gap filled by the same filler kind (None = no filler)."""
    names = sorted(dims)
    for combo in itertools.product(*[dims[n] for n in names]):
        base = {n: v for n, v in zip(names, combo) if v != CANONICAL[n]}
        ng = n_gaps(content, base)
        for fk in fills:
            lay = dict(base)
            if fk is not None:
                lay['gaps'] = [[g, fk] for g in range(ng)]
            yield lay
