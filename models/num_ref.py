"""num_ref - exact reference decoders (and, where the standard defines one, encoders) for the numeric and
compound representation codes of LIS-79 and RP66V1 (appendix B), and the IBM single used by Western Atlas BIT.

Written from the standards, boring on purpose, does NOT import TotalDepth.

Conventions
-----------
* A fixed length code takes the *unsigned big-endian word* (``int.from_bytes(b, 'big')``) and returns the exact
  value: an ``int`` for the integer codes, a ``fractions.Fraction`` for the real codes, ``None`` where the
  standard's value is not a number (IEEE infinities / NaN) or is undefined (VAX S=1, E=0).
* ``as_double(x)`` says whether an exact value is exactly representable as a finite IEEE double (every in-range
  value of these formats is); values that are not are outside any value oracle.
* Variable length codes are decoded by ``decode(name, data, index)`` which returns a ``Decoded`` (status 'ok' with
  the number of bytes the standard consumes, the value and whether the content is *conforming*, i.e. the standard
  actually assigns it a value) or status 'short' when the data end before the standard's length.
* ``*_array`` functions are numpy twins of the scalar decoders used only for 2^32 sweeps; they are defined
  independently from bit fields and are tied to the scalar (Fraction) definitions by ``self_test()`` and by the
  checks that use them (every cover word is compared scalar against array).

Worked examples from the standards (asserted in self_test()):
  LIS 49  0x4C88 -> 153, 0xB388 -> -153          LIS 50  0x00084C80 -> 153, 0x0008B380 -> -153
  LIS 68  0x444C8000 -> 153, 0xBBB38000 -> -153  LIS 70  0x00994000 -> 153.25, 0xFF66C000 -> -153.25
  FSINGL  43 19 00 00 -> 153                     ISINGL  42 99 00 00 -> 153, C2 76 A0 00 -> -118.625
  VSINGL  0C 44 00 80 -> 153, 0C C4 00 80 -> -153 FDOUBL  40 63 20 00 00 00 00 00 -> 153
"""
import math
from fractions import Fraction

TWO = Fraction(2)


# ----------------------------------------------------------------------------------------------------------
# helpers
# ----------------------------------------------------------------------------------------------------------
def sint(v: int, bits: int) -> int:
    """Two's complement reading of the low `bits` bits of v."""
    v &= (1 << bits) - 1
    if v >> (bits - 1):
        v -= 1 << bits
    return v


def dyadic(m: int, e: int) -> Fraction:
    """m * 2**e exactly."""
    if e >= 0:
        return Fraction(m << e)
    return Fraction(m, 1 << -e)


def dyadic_as_double(n: int, e: int):
    """The finite IEEE-754 double that is exactly n * 2**e, or None when there is none."""
    if n == 0:
        return 0.0
    t = (n & -n).bit_length() - 1
    n >>= t
    e += t
    nb = abs(n).bit_length()
    if nb > 53 or e < -1074 or nb + e > 1024:
        return None
    return math.ldexp(n, e)


def as_double(x):
    """The finite IEEE-754 double that is *exactly* x, or None when there is none (too big, too small, too
    many significant bits, not a dyadic rational, or x is None)."""
    if x is None:
        return None
    if isinstance(x, int):
        return dyadic_as_double(x, 0)
    n, d = x.numerator, x.denominator
    if d & (d - 1):
        return None
    return dyadic_as_double(n, -(d.bit_length() - 1))


def word(b: bytes) -> int:
    return int.from_bytes(b, 'big')


# ----------------------------------------------------------------------------------------------------------
# LIS-79 fixed length codes (argument: unsigned word)
# ----------------------------------------------------------------------------------------------------------
LIS_SIZE = {49: 2, 50: 4, 56: 1, 66: 1, 68: 4, 70: 4, 73: 4, 77: 1, 79: 2}


def lis49(w: int) -> Fraction:
    """16 bit floating point: 12 bit two's complement fraction (bits 15..4), 4 bit unsigned exponent."""
    return dyadic(sint(w >> 4, 12), (w & 0xF) - 11)


def lis50(w: int) -> Fraction:
    """32 bit floating point: 16 bit two's complement exponent (high half), 16 bit two's complement fraction."""
    return dyadic(sint(w & 0xFFFF, 16), sint(w >> 16, 16) - 15)


def lis50_fields(w: int):
    """(signed 16 bit mantissa numerator, signed exponent): value = m * 2**(e - 15)."""
    return sint(w & 0xFFFF, 16), sint(w >> 16, 16)


def lis50_double(w: int):
    """as_double(lis50(w)) without building the (possibly 32 k bit) rational."""
    m, e = lis50_fields(w)
    return dyadic_as_double(m, e - 15)


def lis56(w: int) -> int:
    return sint(w, 8)


def lis66(w: int) -> int:
    return w & 0xFF


def lis68(w: int) -> Fraction:
    """32 bit floating point: sign, 8 bit exponent, 23 bit fraction.  Positive: M * 2**(E-128) with
    M = m/2**23.  Negative: the fraction S.M is two's complement ((m - 2**23)/2**23) and the exponent field is
    one's complemented, i.e. the power is 127 - E."""
    s = (w >> 31) & 1
    e = (w >> 23) & 0xFF
    m = w & 0x7FFFFF
    if s:
        return dyadic(m - (1 << 23), (127 - e) - 23)
    return dyadic(m, (e - 128) - 23)


def lis70(w: int) -> Fraction:
    """32 bit fixed point: two's complement, binary point after bit 16."""
    return Fraction(sint(w, 32), 1 << 16)


def lis73(w: int) -> int:
    return sint(w, 32)


def lis77(w: int) -> int:
    return w & 0xFF


def lis79(w: int) -> int:
    return sint(w, 16)


LIS_DECODE = {49: lis49, 50: lis50, 56: lis56, 66: lis66, 68: lis68, 70: lis70, 73: lis73, 77: lis77, 79: lis79}

# Extremes of code 68 by the standard
LIS68_MAX = lis68(0x7FFFFFFF)          # (1 - 2**-23) * 2**127
LIS68_MIN = lis68(0x80000000)          # -2**127
LIS68_SMALLEST_NORMAL = Fraction(1, 2) * TWO ** -128   # fraction 0.5, lowest exponent
LIS68_ULP_MIN = TWO ** -151            # weight of the last fraction bit at the lowest exponent


def lis68_encode(x, rounding='trunc'):
    """Reference encoder: the normalised code 68 word of the representable value nearest to x in the direction
    of zero ('trunc') or x itself ('exact': returns None when x is not representable).  None when x is outside
    [LIS68_MIN, LIS68_MAX].  Zero is 0x40000000 (fraction 0, exponent excess 128 = 0)."""
    x = Fraction(x)
    if x > LIS68_MAX or x < LIS68_MIN:
        return None
    if x == 0:
        return 0x40000000
    if x > 0:
        # fraction in [0.5, 1): find p with 2**(p-1) <= x < 2**p
        p = x.numerator.bit_length() - x.denominator.bit_length()
        while TWO ** p <= x:
            p += 1
        while TWO ** (p - 1) > x:
            p -= 1
        p = max(p, -128)
        q = x / TWO ** (p - 23)            # m exactly, possibly fractional
        m = q.numerator // q.denominator
        if rounding == 'exact' and m != q:
            return None
        if m == 0:
            return 0x40000000
        return ((p + 128) << 23) | m
    # negative: fraction in [-1, -0.5): find p with -2**p <= x < -2**(p-1)
    a = -x
    p = a.numerator.bit_length() - a.denominator.bit_length()
    while TWO ** p < a:
        p += 1
    while TWO ** (p - 1) >= a:
        p -= 1
    p = max(p, -128)
    q = x / TWO ** (p - 23)                # signed numerator of the fraction in units of 2**-23, in [-2**23, 0)
    n = -((-q.numerator) // q.denominator)  # toward zero
    if rounding == 'exact' and n != q:
        return None
    if n == 0:
        return 0x40000000
    return (1 << 31) | ((127 - p) << 23) | (n + (1 << 23))


# ----------------------------------------------------------------------------------------------------------
# RP66V1 appendix B fixed length codes (argument: unsigned big-endian word of the bytes as stored)
# ----------------------------------------------------------------------------------------------------------
RP66_FIXED_SIZE = {2: 4, 5: 4, 6: 4, 7: 8, 12: 1, 13: 2, 14: 4, 15: 1, 16: 2, 17: 4, 21: 8, 26: 1}
RP66_NAME = {2: 'FSINGL', 5: 'ISINGL', 6: 'VSINGL', 7: 'FDOUBL', 12: 'SSHORT', 13: 'SNORM', 14: 'SLONG', 15: 'USHORT',
             16: 'UNORM', 17: 'ULONG', 18: 'UVARI', 19: 'IDENT', 20: 'ASCII', 21: 'DTIME', 22: 'ORIGIN', 23: 'OBNAME',
             24: 'OBJREF', 26: 'STATUS', 27: 'UNITS'}
RP66_CODE = {v: k for k, v in RP66_NAME.items()}


def fsingl(w: int):
    """B.2 IEEE single.  None for E=255 (infinities, NaN)."""
    s, e, m = (w >> 31) & 1, (w >> 23) & 0xFF, w & 0x7FFFFF
    if e == 255:
        return None
    v = dyadic(m, -149) if e == 0 else dyadic((1 << 23) | m, e - 150)
    return -v if s else v


def isingl(w: int) -> Fraction:
    """B.5 IBM single: (-1)**S * 16**(E-64) * 0.M, M 24 bits."""
    s, e, m = (w >> 31) & 1, (w >> 24) & 0x7F, w & 0xFFFFFF
    v = dyadic(m, 4 * (e - 64) - 24)
    return -v if s else v


def vsingl_fields(w: int):
    """B.6 byte layout: byte 1 = E0 M(7 high bits), byte 2 = S E7..E1, byte 3 = M low 8 bits, byte 4 = M middle 8 bits."""
    b0, b1, b2, b3 = (w >> 24) & 0xFF, (w >> 16) & 0xFF, (w >> 8) & 0xFF, w & 0xFF
    s = b1 >> 7
    e = ((b1 & 0x7F) << 1) | (b0 >> 7)
    m = ((b0 & 0x7F) << 16) | (b3 << 8) | b2
    return s, e, m


def vsingl(w: int):
    """B.6 VAX single as RP66V1 states it: (-1)**S * (0.5 + M) * 2**(E-128), M = m/2**23; E=0, S=0 is zero
    whatever M; E=0, S=1 is undefined (None).  The standard's example 0C 44 00 80 = 153 fixes both the byte
    layout and the scaling of M."""
    s, e, m = vsingl_fields(w)
    if e == 0:
        return None if s else Fraction(0)
    v = dyadic((1 << 22) + m, (e - 128) - 23)
    return -v if s else v


def fdoubl(w: int):
    """B.7 IEEE double.  None for E=2047."""
    s, e, m = (w >> 63) & 1, (w >> 52) & 0x7FF, w & ((1 << 52) - 1)
    if e == 2047:
        return None
    v = dyadic(m, -1074) if e == 0 else dyadic((1 << 52) | m, e - 1075)
    return -v if s else v


def sshort(w): return sint(w, 8)
def snorm(w): return sint(w, 16)
def slong(w): return sint(w, 32)
def ushort(w): return w & 0xFF
def unorm(w): return w & 0xFFFF
def ulong(w): return w & 0xFFFFFFFF


RP66_FIXED_DECODE = {2: fsingl, 5: isingl, 6: vsingl, 7: fdoubl, 12: sshort, 13: snorm, 14: slong, 15: ushort,
                     16: unorm, 17: ulong, 26: ushort}


# ----------------------------------------------------------------------------------------------------------
# RP66V1 variable length and compound codes
# ----------------------------------------------------------------------------------------------------------
class Short(Exception):
    """The data end before the number of bytes the standard requires."""


class Decoded:
    __slots__ = ('status', 'consumed', 'value', 'conforming')

    def __init__(self, status, consumed=None, value=None, conforming=None):
        self.status, self.consumed, self.value, self.conforming = status, consumed, value, conforming

    def __repr__(self):
        return 'Decoded(%r, consumed=%r, value=%r, conforming=%r)' % (self.status, self.consumed, self.value, self.conforming)


# B.19: identifiers use ISO 646 codes 33-96 and 123-126 (no blank, no lower case, no control characters)
IDENT_CHARS = frozenset(list(range(33, 97)) + list(range(123, 127)))
# B.27: lower case, upper case, digits, blank, hyphen, dot, slash, parentheses
UNITS_CHARS = frozenset(b'abcdefghijklmnopqrstuvwxyzABCDEFGHIJKLMNOPQRSTUVWXYZ0123456789 -./()')
# B.20: 7 bit characters; kept to the printable ones plus HT LF CR (conservative: anything else is "not conforming",
# which only ever *relaxes* an oracle)
ASCII_CHARS = frozenset([9, 10, 13] + list(range(32, 127)))


def _take(data, i, n):
    if i + n > len(data):
        raise Short()
    return data[i:i + n], i + n


def _uvari(data, i):
    """B.18: first two bits 0x -> 1 byte (0..2**7-1), 10 -> 2 bytes (14 bit value), 11 -> 4 bytes (30 bit value).
    Returns value, next index, minimal (the standard assigns each form its own value range)."""
    b, j = _take(data, i, 1)
    v = b[0]
    if v & 0x80 == 0:
        return v, j, True
    if v & 0xC0 == 0x80:
        b, j = _take(data, i, 2)
        v = word(b) & 0x3FFF
        return v, j, v >= 1 << 7
    b, j = _take(data, i, 4)
    v = word(b) & 0x3FFFFFFF
    return v, j, v >= 1 << 14


def _ident(data, i, chars=IDENT_CHARS):
    b, j = _take(data, i, 1)
    s, j = _take(data, j, b[0])
    return bytes(s), j, all(c in chars for c in s)


def _obname(data, i):
    o, j, ok1 = _uvari(data, i)
    c, j = _take(data, j, 1)
    ident, j, ok2 = _ident(data, j)
    return (o, c[0], ident), j, ok1 and ok2


def _decode(name, data, i):
    if name in ('UVARI', 'ORIGIN'):
        return _uvari(data, i)
    if name == 'IDENT':
        return _ident(data, i)
    if name == 'UNITS':
        return _ident(data, i, UNITS_CHARS)
    if name == 'ASCII':
        n, j, ok = _uvari(data, i)
        s, j = _take(data, j, n)
        return bytes(s), j, ok and all(c in ASCII_CHARS for c in s)
    if name == 'OBNAME':
        return _obname(data, i)
    if name == 'OBJREF':
        t, j, ok1 = _ident(data, i)
        n, j, ok2 = _obname(data, j)
        return (t, n), j, ok1 and ok2
    if name == 'DTIME':
        b, j = _take(data, i, 8)
        year, tz, month = 1900 + b[0], b[1] >> 4, b[1] & 0xF
        day, hour, minute, second, ms = b[2], b[3], b[4], b[5], (b[6] << 8) | b[7]
        ok = tz in (0, 1, 2) and 1 <= month <= 12 and 1 <= day <= 31 and hour <= 23 and minute <= 59 and second <= 59 and ms <= 999
        return (year, tz, month, day, hour, minute, second, ms), j, ok
    if name == 'STATUS':
        b, j = _take(data, i, 1)
        return b[0], j, b[0] in (0, 1)
    code = RP66_CODE[name]
    size = RP66_FIXED_SIZE[code]
    b, j = _take(data, i, size)
    v = RP66_FIXED_DECODE[code](word(b))
    return v, j, v is not None


def decode(name: str, data: bytes, index: int = 0) -> Decoded:
    """Decode one RP66V1 value of representation code `name` from data[index:]."""
    try:
        v, j, ok = _decode(name, data, index)
    except Short:
        return Decoded('short')
    return Decoded('ok', j - index, v, ok)


def uvari_encode(v: int) -> bytes:
    """B.18 reference encoder (shortest form, which is the form the standard assigns to the range)."""
    if v < 0 or v >= 1 << 30:
        raise ValueError(v)
    if v < 1 << 7:
        return bytes([v])
    if v < 1 << 14:
        return (v | 0x8000).to_bytes(2, 'big')
    return (v | 0xC0000000).to_bytes(4, 'big')


def ident_encode(b: bytes) -> bytes:
    if len(b) > 255:
        raise ValueError(len(b))
    return bytes([len(b)]) + bytes(b)


def int_encode(v: int, size: int, signed: bool) -> bytes:
    """Big-endian two's complement / unsigned: LIS 56, 66, 73, 77, 79 and the RP66V1 integer codes."""
    return int(v).to_bytes(size, 'big', signed=signed)


# ----------------------------------------------------------------------------------------------------------
# numpy twins for exhaustive sweeps (uint32 words in, float64 out, plus a mask of words inside the value oracle)
# ----------------------------------------------------------------------------------------------------------
def lis68_array(w):
    """Arbitrary uint32 words -> float64 (exact: 24 bit integers scaled by powers of two within +-151)."""
    import numpy as np
    wi = np.ascontiguousarray(w, dtype=np.uint32).view(np.int32)
    neg = wi < 0
    m = wi & 0x7FFFFF
    m = m - (neg.astype(np.int32) << 23)
    e = (wi >> 23) & 0xFF
    power = np.where(neg, (127 - 23) - e, e - (128 + 23))
    return np.ldexp(m.astype(np.float64), power.astype(np.int32))


def lis68_block(w0: int, n: int):
    """The n consecutive words w0 .. w0+n-1, which must share sign and exponent fields -> float64."""
    import numpy as np
    s, e, m0 = (w0 >> 31) & 1, (w0 >> 23) & 0xFF, w0 & 0x7FFFFF
    if m0 + n > 1 << 23:
        raise ValueError('block crosses an exponent boundary')
    m = np.arange(m0, m0 + n, dtype=np.float64)
    if s:
        return np.ldexp(m - float(1 << 23), (127 - e) - 23)
    return np.ldexp(m, (e - 128) - 23)


def lis50_array(w):
    """Returns (values, valid); valid is False where the standard's value is not exactly a finite double."""
    import numpy as np
    w = w.astype(np.int64)
    m = w & 0xFFFF
    m = np.where(m >= 0x8000, m - 0x10000, m)
    e = (w >> 16) & 0xFFFF
    e = np.where(e >= 0x8000, e - 0x10000, e) - 15
    # exactly representable iff m == 0, or with m = odd * 2**t: e + t >= -1074 and bitlen(odd) + e + t <= 1024
    am = np.abs(m)
    low = am & -am                                          # 2**t (0 for m == 0)
    t = np.where(am == 0, 0, np.log2(np.maximum(low, 1)).astype(np.int64))
    nb = np.where(am == 0, 0, np.floor(np.log2(np.maximum(am, 1))).astype(np.int64) + 1)   # exact for < 2**16
    valid = (am == 0) | ((e + t >= -1074) & (nb + e <= 1024))
    ee = np.clip(e, -1200, 1100).astype(np.int32)
    with np.errstate(over='ignore', under='ignore'):
        vals = np.ldexp(m.astype(np.float64), ee)
    vals = np.where(am == 0, 0.0, vals)
    return vals, valid


def lis70_array(w):
    import numpy as np
    v = w.astype(np.int64)
    v = np.where(v >= 1 << 31, v - (1 << 32), v)
    return v.astype(np.float64) / 65536.0                   # exact: 32 bit integers, power of two divisor


def isingl_array(w):
    import numpy as np
    w = w.astype(np.int64)
    s = (w >> 31) & 1
    e = (w >> 24) & 0x7F
    m = (w & 0xFFFFFF).astype(np.float64)
    v = np.ldexp(m, (4 * (e - 64) - 24).astype(np.int32))
    return np.where(s == 1, -v, v)


def fsingl_array(w):
    """(values, valid): IEEE single words; valid is False for E = 255 (infinities, NaN)."""
    import numpy as np
    w = np.ascontiguousarray(w, dtype=np.uint32)
    return w.view(np.float32).astype(np.float64), ((w >> 23) & 0xFF) != 255


def vsingl_array(w):
    """(values, valid): RP66V1 B.6 words (see vsingl); valid is False for E = 0 with S = 1 (undefined)."""
    import numpy as np
    w = w.astype(np.int64)
    b0, b1, b2, b3 = (w >> 24) & 0xFF, (w >> 16) & 0xFF, (w >> 8) & 0xFF, w & 0xFF
    s = b1 >> 7
    e = ((b1 & 0x7F) << 1) | (b0 >> 7)
    m = ((b0 & 0x7F) << 16) | (b3 << 8) | b2
    v = np.ldexp(((1 << 22) + m).astype(np.float64), ((e - 128) - 23).astype(np.int32))
    v = np.where(s == 1, -v, v)
    v = np.where(e == 0, 0.0, v)
    return v, ~((e == 0) & (s == 1))


# ----------------------------------------------------------------------------------------------------------
def self_test():
    """Worked examples quoted from the standards, and scalar/array agreement on a small pattern set."""
    F = Fraction
    assert lis49(0x4C88) == 153 and lis49(0xB388) == -153 and lis49(0x0010) == F(1, 2048)
    assert lis49(0x800F) == -32768 and lis49(0x7FFF) == 32752
    assert lis50(0x00084C80) == 153 and lis50(0x0008B380) == -153 and lis50(0xFFFF4000) == F(1, 4)
    assert lis68(0x444C8000) == 153 and lis68(0xBBB38000) == -153 and lis68(0x40000000) == 0
    assert lis68(0x7FFFFFFF) == (1 - F(1, 1 << 23)) * TWO ** 127 and lis68(0x80000000) == -TWO ** 127
    assert lis68(0x00000001) == TWO ** -151 and lis68(0xFFC00000) == -TWO ** -129
    assert lis70(0x00994000) == F(15325, 100) and lis70(0xFF66C000) == -F(15325, 100)
    assert lis70(0x80000000) == -32768 and lis70(0x7FFFFFFF) == 32768 - F(1, 65536)
    assert lis73(0xFFFFFF67) == -153 and lis79(0xFF67) == -153 and lis56(0xA7) == -89 and lis66(0xD9) == 217
    assert fsingl(0x43190000) == 153 and fsingl(0xC3190000) == -153 and fsingl(0) == 0 and fsingl(0x7F800000) is None
    assert fsingl(0x00000001) == TWO ** -149
    assert isingl(0x42990000) == 153 and isingl(0xC2990000) == -153 and isingl(0xC276A000) == -F(118625, 1000)
    assert isingl(0x40400000) == F(1, 4) and isingl(0x42100000) == 16 and isingl(0x443A6600) == 14950
    assert vsingl(0x0C440080) == 153 and vsingl(0x0CC40080) == -153 and vsingl(0) == 0 and vsingl(0x00800000) is None
    assert fdoubl(0x4063200000000000) == 153 and fdoubl(0xC063200000000000) == -153 and fdoubl(0x7FF0000000000000) is None
    assert snorm(0xFF67) == -153 and slong(0xFFFFFF67) == -153 and unorm(0x8099) == 32921 and sshort(0x80) == -128
    d = decode('UVARI', b'\x81\x00')
    assert (d.status, d.consumed, d.value, d.conforming) == ('ok', 2, 256, True)
    d = decode('UVARI', b'\xc0\x00\x40\x00')
    assert (d.consumed, d.value, d.conforming) == (4, 16384, True)
    assert decode('UVARI', b'\x80\x01').conforming is False and decode('UVARI', b'\xc0\x00').status == 'short'
    assert decode('IDENT', b'\x03ABCD').value == b'ABC' and decode('IDENT', b'\x03AB').status == 'short'
    assert decode('OBNAME', b'\x01\x02\x03ABCD').value == (1, 2, b'ABC')
    assert decode('OBJREF', b'\x01T\x01\x02\x03ABCD').value == (b'T', (1, 2, b'ABC'))
    assert decode('DTIME', b'\x57\x14\x13\x15\x14\x0f\x02\x6c').value == (1987, 1, 4, 19, 21, 20, 15, 620)
    assert decode('ASCII', b'\x02AB').value == b'AB' and decode('ASCII', b'\x80\x82' + b'A' * 130).consumed == 132
    for v in (0, 1, 127, 128, 16383, 16384, (1 << 30) - 1):
        d = decode('UVARI', uvari_encode(v))
        assert d.value == v and d.conforming and d.consumed == len(uvari_encode(v))
    # encoder inverts the decoder on representable values
    for w in (0x444C8000, 0xBBB38000, 0x7FFFFFFF, 0x80000000, 0x40000000, 0x00400000, 0x00000001, 0xFFFFFFFF,
              0xFFC00000, 0xBF800000, 0x40C00000, 0x80000001, 0x12345678, 0x9ABCDEF0):
        x = lis68(w)
        ww = lis68_encode(x, 'exact')
        assert ww is not None and lis68(ww) == x, hex(w)
    assert lis68_encode(-TWO ** 127) == 0x80000000 and lis68_encode(TWO ** 127) is None
    assert lis68_encode(F(153)) == 0x444C8000 and lis68_encode(F(-153)) == 0xBBB38000
    assert as_double(lis68(0x00000001)) == math.ldexp(1.0, -151) and as_double(TWO ** 1024) is None
    assert as_double(dyadic(1, -1074)) == 5e-324 and as_double(dyadic(1, -1075)) is None and as_double(F(1, 3)) is None
    assert as_double((1 << 53) + 1) is None and as_double(dyadic((1 << 53) - 1, 971)) == 1.7976931348623157e308
    import numpy as np
    ws = [0, 1, 0x7FFF, 0x8000, 0xFFFF, 0x5555, 0x00084C80, 0x0008B380, 0xFFFF4000, 0x04000001, 0x03FF7FFF, 0x7FFF8000,
          0x80000000, 0xFBCE0001, 0xFBCD0001, 0x03F10001, 0x03F07FFF, 0x03F18000, 0x444C8000, 0xBBB38000, 0xFFFFFFFF,
          0x7FFFFFFF, 0xC276A000, 0x42990000, 0x00100000, 0x7FFFFFFE, 0x00994000, 0xFF66C000]
    arr = np.array(ws, dtype=np.uint32)
    a68, a70, ai = lis68_array(arr), lis70_array(arr), isingl_array(arr)
    for w0 in (0, 0x444C8000, 0xBBB38000, 0xFFF00000, 0x80000000, 0x7FF00000):
        blk = lis68_block(w0, 4096)
        assert all(as_double(lis68(w0 + k)) == blk[k] for k in (0, 1, 2047, 4095)), hex(w0)
    a50, ok50 = lis50_array(arr)
    for k, w in enumerate(ws):
        assert as_double(lis68(w)) == a68[k] and as_double(lis70(w)) == a70[k] and as_double(isingl(w)) == ai[k], hex(w)
        d = as_double(lis50(w))
        assert d == lis50_double(w), hex(w)
        assert (d is not None) == bool(ok50[k]), hex(w)
        assert d is None or d == a50[k], hex(w)
    return True


if __name__ == '__main__':
    self_test()
    print('num_ref self test passed')
