"""Reference notions of XML 1.0 (Fifth Edition) used by the C18 check.  Does not import TotalDepth.

* the `Char` production (2.2), `Name` rules (2.3),
* what a conforming parser does to literal white space (2.11 end-of-line handling, 3.3.3 attribute-value
  normalisation), so the check can tell "the writer changed the string" from "the writer wrote a character
  literally that XML can only carry as a character reference",
* a strict, non-namespace-aware well-formedness parse built on pyexpat that returns a small tree, and that
  for XHTML documents supplies the XHTML 1.0 entity set as the external DTD subset (the XHTML writers emit
  `&nbsp;` and declare the XHTML 1.0 Strict DOCTYPE: with the external subset that reference is declared;
  a parser that does not read the subset would call it undefined, which is not the writer's fault),
* a lexical classifier saying in which construct (attribute value, text, comment, ...) a byte offset of a
  document lies, and which character reference starts there - used to attribute a parse failure to its cause.
"""
import html.entities
import re
from xml.parsers import expat

# ------------------------------------------------------------------------------------------------
# 2.2 Characters
# ------------------------------------------------------------------------------------------------
def is_char(cp: int) -> bool:
    """Char ::= #x9 | #xA | #xD | [#x20-#xD7FF] | [#xE000-#xFFFD] | [#x10000-#x10FFFF]"""
    return (cp in (0x9, 0xA, 0xD) or 0x20 <= cp <= 0xD7FF or 0xE000 <= cp <= 0xFFFD
            or 0x10000 <= cp <= 0x10FFFF)


def all_chars(s: str) -> bool:
    return all(is_char(ord(c)) for c in s)


def non_chars(s: str):
    """Sorted code points of s that are outside Char."""
    return sorted({ord(c) for c in s if not is_char(ord(c))})


# ------------------------------------------------------------------------------------------------
# 2.3 Names
# ------------------------------------------------------------------------------------------------
_NAME_START = [(0x3A, 0x3A), (0x41, 0x5A), (0x5F, 0x5F), (0x61, 0x7A), (0xC0, 0xD6), (0xD8, 0xF6), (0xF8, 0x2FF),
               (0x370, 0x37D), (0x37F, 0x1FFF), (0x200C, 0x200D), (0x2070, 0x218F), (0x2C00, 0x2FEF),
               (0x3001, 0xD7FF), (0xF900, 0xFDCF), (0xFDF0, 0xFFFD), (0x10000, 0xEFFFF)]
_NAME_MORE = [(0x2D, 0x2E), (0x30, 0x39), (0xB7, 0xB7), (0x300, 0x36F), (0x203F, 0x2040)]


def is_name_start_char(cp: int) -> bool:
    return any(lo <= cp <= hi for lo, hi in _NAME_START)


def is_name_char(cp: int) -> bool:
    return is_name_start_char(cp) or any(lo <= cp <= hi for lo, hi in _NAME_MORE)


def is_name(s: str) -> bool:
    return bool(s) and is_name_start_char(ord(s[0])) and all(is_name_char(ord(c)) for c in s[1:])


# ------------------------------------------------------------------------------------------------
# What a parser hands to the application for *literally written* white space
# ------------------------------------------------------------------------------------------------
def normalize_line_ends(s: str) -> str:
    """2.11: the two-character sequence #xD #xA and any #xD not followed by #xA become a single #xA."""
    return s.replace('\r\n', '\n').replace('\r', '\n')


def normalize_attribute_literal(s: str) -> str:
    """3.3.3 for a CDATA attribute whose value was written with literal white space: after end-of-line
    handling every #x9, #xA (and #xD) is replaced by a space.  White space written as a character reference
    is *not* touched - which is why a writer has to use references to carry these characters."""
    return re.sub('[\t\n\r]', ' ', normalize_line_ends(s))


# ------------------------------------------------------------------------------------------------
# XHTML 1.0 entity sets (xhtml-lat1.ent, xhtml-symbol.ent, xhtml-special.ent) as an external subset
# ------------------------------------------------------------------------------------------------
_PREDEFINED = ('lt', 'gt', 'amp', 'quot', 'apos')      # 4.6: always available, must not be naively redeclared
XHTML_ENTITY_DTD = ''.join('<!ENTITY %s "&#%d;">\n' % (name, cp)
                           for name, cp in sorted(html.entities.name2codepoint.items())
                           if name not in _PREDEFINED).encode('ascii')
XHTML_PUBLIC_IDS = ('-//W3C//DTD XHTML 1.0 Strict//EN', '-//W3C//DTD XHTML 1.0 Transitional//EN',
                    '-//W3C//DTD XHTML 1.0 Frameset//EN', '-//W3C//DTD XHTML 1.1//EN')
_DOCTYPE_RE = re.compile(rb'<!DOCTYPE\s+html\s+PUBLIC\s+(?:"([^"]*)"|\'([^\']*)\')')


def is_xhtml_document(doc: bytes) -> bool:
    """True when the prolog declares one of the XHTML DOCTYPEs."""
    m = _DOCTYPE_RE.search(doc[:2048])
    return bool(m) and (m.group(1) or m.group(2) or b'').decode('ascii', 'replace') in XHTML_PUBLIC_IDS


# ------------------------------------------------------------------------------------------------
# Tree + strict parse
# ------------------------------------------------------------------------------------------------
class Node:
    """Element: name, attrs (dict), children: list of str (text, adjacent runs coalesced) | Node |
    ('comment', text) | ('pi', target, data)."""
    __slots__ = ('name', 'attrs', 'children')

    def __init__(self, name, attrs):
        self.name = name
        self.attrs = attrs
        self.children = []

    def elements(self, name=None):
        return [c for c in self.children if isinstance(c, Node) and (name is None or c.name == name)]

    def find(self, name):
        e = self.elements(name)
        return e[0] if e else None

    def iter(self):
        yield self
        for c in self.children:
            if isinstance(c, Node):
                yield from c.iter()

    def text(self):
        return ''.join(c for c in self.children if isinstance(c, str))

    def gaps(self):
        """Text between consecutive non-text children: len(non-text children) + 1 strings."""
        out = ['']
        for c in self.children:
            if isinstance(c, str):
                out[-1] += c
            else:
                out.append('')
        return out

    def nontext(self):
        return [c for c in self.children if not isinstance(c, str)]

    def to_tuple(self):
        return (self.name, tuple(sorted(self.attrs.items())),
                tuple(c.to_tuple() if isinstance(c, Node) else c for c in self.children))


class ParseResult:
    __slots__ = ('ok', 'root', 'prolog', 'epilog', 'error', 'code', 'code_name', 'index', 'line', 'column',
                 'xhtml', 'doc')

    def __init__(self):
        self.ok = False
        self.root = None
        self.prolog = []        # comments / PIs before the root
        self.epilog = []        # ... after it
        self.error = None
        self.code = None
        self.code_name = None
        self.index = None
        self.line = None
        self.column = None
        self.xhtml = False
        self.doc = b''


def _code_name(code):
    """Symbolic name of an expat error code, e.g. 14 -> 'BAD_CHAR_REF'."""
    try:
        msg = expat.ErrorString(code)
    except Exception:  # noqa
        return str(code)
    for name in dir(expat.errors):
        if name.startswith('XML_ERROR_') and getattr(expat.errors, name) == msg:
            return name[len('XML_ERROR_'):]
    return msg


def to_bytes(doc):
    """The writers produce text whose declaration says utf-8: encode as utf-8.  Returns (bytes, problem)."""
    if isinstance(doc, (bytes, bytearray)):
        return bytes(doc), None
    try:
        return doc.encode('utf-8'), None
    except UnicodeEncodeError as err:
        return doc.encode('utf-8', 'surrogatepass'), 'document text is not encodable as UTF-8: %s' % err


def parse(doc, xhtml=None) -> ParseResult:
    """Strict non-namespace-aware well-formedness parse.  doc: str or bytes.
    xhtml: None = decide from the DOCTYPE; True = supply the XHTML 1.0 entity set as the external subset."""
    res = ParseResult()
    data, problem = to_bytes(doc)
    res.doc = data
    if xhtml is None:
        xhtml = is_xhtml_document(data)
    res.xhtml = bool(xhtml)
    if problem:
        res.error, res.code_name, res.index = problem, 'UNENCODABLE', 0
        return res
    p = expat.ParserCreate()
    p.buffer_text = True
    p.ordered_attributes = False
    stack = []
    state = {'root': None, 'closed': False}

    def add(item):
        if stack:
            ch = stack[-1].children
            if isinstance(item, str) and ch and isinstance(ch[-1], str):
                ch[-1] += item
            else:
                ch.append(item)
        elif not isinstance(item, str):
            (res.epilog if state['closed'] else res.prolog).append(item)

    def start(name, attrs):
        n = Node(name, dict(attrs))
        if stack:
            add(n)
        else:
            state['root'] = n
        stack.append(n)

    def end(_name):
        stack.pop()
        if not stack:
            state['closed'] = True

    p.StartElementHandler = start
    p.EndElementHandler = end
    p.CharacterDataHandler = add
    p.CommentHandler = lambda s: add(('comment', s))
    p.ProcessingInstructionHandler = lambda t, d: add(('pi', t, d))
    if xhtml:
        p.SetParamEntityParsing(expat.XML_PARAM_ENTITY_PARSING_ALWAYS)
        p.UseForeignDTD(True)

        def external(context, _base, _system_id, _public_id):
            sub = p.ExternalEntityParserCreate(context)
            sub.Parse(XHTML_ENTITY_DTD, True)
            return 1
        p.ExternalEntityRefHandler = external
    try:
        p.Parse(data, True)
    except expat.ExpatError as err:
        res.error = str(err)
        res.code = err.code
        res.code_name = _code_name(err.code)
        res.index = p.ErrorByteIndex
        res.line, res.column = err.lineno, err.offset
        res.root = state['root']
        return res
    res.ok = True
    res.root = state['root']
    return res


# ------------------------------------------------------------------------------------------------
# Lexical context of a byte offset (the document is known to be well formed *up to* that offset)
# ------------------------------------------------------------------------------------------------
def context_at(doc: bytes, index: int) -> str:
    """One of 'text', 'attribute', 'tag', 'comment', 'pi', 'cdata', 'doctype', 'outside' (before/after root)."""
    i = 0
    n = len(doc)
    depth = 0
    seen_root = False
    while i < n:
        if doc.startswith(b'<!--', i):
            j = doc.find(b'-->', i + 4)
            j = n if j < 0 else j + 3
            if index < j:
                return 'comment'
            i = j
        elif doc.startswith(b'<?', i):
            j = doc.find(b'?>', i + 2)
            j = n if j < 0 else j + 2
            if index < j:
                return 'pi'
            i = j
        elif doc.startswith(b'<![CDATA[', i):
            j = doc.find(b']]>', i + 9)
            j = n if j < 0 else j + 3
            if index < j:
                return 'cdata'
            i = j
        elif doc.startswith(b'<!', i):
            # DOCTYPE: skip to the matching '>' (quoted literals and an internal subset may contain '>')
            j = i + 2
            quote = None
            bracket = 0
            while j < n:
                c = doc[j:j + 1]
                if quote:
                    if c == quote:
                        quote = None
                elif c in (b'"', b"'"):
                    quote = c
                elif c == b'[':
                    bracket += 1
                elif c == b']':
                    bracket -= 1
                elif c == b'>' and bracket <= 0:
                    break
                j += 1
            j += 1
            if index < j:
                return 'doctype'
            i = j
        elif doc.startswith(b'<', i):
            closing = doc.startswith(b'</', i)
            j = i + 1
            quote = None
            while j < n:
                c = doc[j:j + 1]
                if quote:
                    if j == index:
                        return 'attribute'
                    if c == quote:
                        quote = None
                elif c in (b'"', b"'"):
                    quote = c
                elif c == b'>':
                    break
                if j == index and not quote:
                    return 'tag'
                j += 1
            if index <= j:
                return 'attribute' if quote else 'tag'
            empty = doc[j - 1:j] == b'/'
            if closing:
                depth -= 1
            elif not empty:
                depth += 1
                seen_root = True
            else:
                seen_root = True
            i = j + 1
        else:
            j = doc.find(b'<', i)
            j = n if j < 0 else j
            if index < j:
                return 'text' if depth > 0 else 'outside'
            i = j
    return 'text' if depth > 0 and seen_root else 'outside'


_REF_RE = re.compile(rb'&#(?:([0-9]+)|x([0-9A-Fa-f]+));')


def char_ref_at(doc: bytes, index: int):
    """Code point of the numeric character reference that starts at (or encloses) index, else None."""
    if index is None:
        return None
    lo = max(0, index - 12)
    for m in _REF_RE.finditer(doc, lo, min(len(doc), index + 16)):
        if m.start() <= index < m.end():
            return int(m.group(1)) if m.group(1) is not None else int(m.group(2), 16)
    return None
