#!/bin/sh
# Offline setup: compile the three LIS extensions from /repo's current sources into scratch (outside /repo and /verif).
# Checks rebuild them on demand as well, so this only warms the cache.
cd "$(dirname "$0")" || exit 1
export PYTHONHASHSEED=0 PYTHONDONTWRITEBYTECODE=1
/venv/bin/python -c "
import sys; sys.path.insert(0, '.')
from mc import seams
print('extensions built in', seams.build_ext())
"
