#!/bin/bash
# tools/try_seed.sh <Cxx> <worktree> <k> [suite]   - verify a seeded change and run the check against it
P=$1; WT=$2; K=$3
M=$WT/${SEED_DIR:-MUTANTS}/$K
cd $WT || exit 2
git checkout -q -- . 
echo "== demo on clean tree (expect 0)"; PYTHONPATH=$WT/src /venv/bin/python -W ignore $M/demo.py > /tmp/seed_demo_clean.txt 2>&1; echo "exit=$?"
git apply $M/patch.diff || { echo "PATCH DOES NOT APPLY"; exit 2; }
echo "== demo with change (expect 1)"; PYTHONPATH=$WT/src /venv/bin/python -W ignore $M/demo.py > /tmp/seed_demo_mut.txt 2>&1; echo "exit=$?"; tail -3 /tmp/seed_demo_mut.txt
if [ "$4" = "suite" ]; then echo "== suite with change"; PYTHONPATH=$WT/src /venv/bin/python -m pytest -q -p no:cacheprovider -n 8 tests 2>&1 | tail -1; fi
echo "== check $P against the changed tree"
cd /verif && VERIF_REPO=$WT VERIF_OUT=/var/tmp/td-verif/seedout VERIF_SCRATCH=/var/tmp/td-verif/seedscratch ./check $P --tier quick 2>&1 | grep -v conda | grep -E "^C[0-9]+ tier|VIOLATION|HARNESS|^  " | cut -c1-260 | head -${5:-12}
cd $WT && git checkout -q -- .
