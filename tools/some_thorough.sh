#!/bin/sh
# tools/some_thorough.sh Cxx ... - the thorough tier of the named checks in turn (summary lines only).
cd "$(dirname "$0")/.." || exit 1
for p in "$@"; do
  s=$(date +%s)
  ./check $p --tier thorough 2>&1 | grep -v conda | grep -E "^C[0-9]+ tier|VIOLATION|HARNESS" | cut -c1-300
  echo "   rc=$? elapsed=$(( $(date +%s) - s ))s"
done
