#!/bin/sh
# Runs every thorough tier in turn and prints the summary lines (evidence goes to $VERIF_OUT if set).
cd "$(dirname "$0")/.." || exit 1
for p in C15 C16 C01 C02 C03 C04 C05 C06 C08 C09 C10 C13 C14 C17 C18 C19 C20 C11 C12 C07; do
  s=$(date +%s)
  ./check $p --tier thorough 2>&1 | grep -v conda | grep -E "^C[0-9]+ tier|VIOLATION|HARNESS" | cut -c1-300
  echo "   rc=$? elapsed=$(( $(date +%s) - s ))s"
done
