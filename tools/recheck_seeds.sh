#!/bin/bash
# tools/recheck_seeds.sh [ids...] - applies every kept seeded change to a scratch worktree of /repo HEAD and runs the quick check of
# its property against it; prints one line per seed (CAUGHT / MISSED / NOAPPLY).  Results: /var/tmp/td-verif/recheck.txt
cd "$(dirname "$0")/.." || exit 1
WT=/tmp/wt-recheck
git -C /repo worktree remove --force $WT 2>/dev/null; rm -rf $WT
git -C /repo worktree add --detach $WT HEAD >/dev/null 2>&1 || exit 2
cp /repo/src/TotalDepth/LIS/core/*.so $WT/src/TotalDepth/LIS/core/ 2>/dev/null
OUT=/var/tmp/td-verif/recheck.txt; : > $OUT
ids="$@"; [ -z "$ids" ] && ids=$(ls seeded | grep '^S')
for id in $ids; do
  d=seeded/$id; [ -f $d/patch.diff ] || continue
  prop=$(/venv/bin/python -c "import json;print(json.load(open('$d/meta.json'))['breaks_property'])")
  git -C $WT checkout -q -- . ; git -C $WT clean -fdq src >/dev/null 2>&1
  if ! git -C $WT apply $PWD/$d/patch.diff 2>/dev/null; then echo "$id $prop NOAPPLY" | tee -a $OUT; continue; fi
  res=$(VERIF_REPO=$WT VERIF_OUT=/var/tmp/td-verif/recheck-out VERIF_SCRATCH=/var/tmp/td-verif/recheck-scratch ./check $prop --tier quick 2>&1 | grep -c "^VIOLATION")
  if [ "$res" -gt 0 ]; then echo "$id $prop CAUGHT" | tee -a $OUT; else echo "$id $prop MISSED" | tee -a $OUT; fi
done
git -C $WT checkout -q -- .
git -C /repo worktree remove --force $WT
