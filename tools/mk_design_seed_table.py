#!/venv/bin/python
"""Rewrites the table between the seeded-table markers of DESIGN.md section 6.1 from seeded/*/meta.json."""
import glob, json, os
HERE = os.path.dirname(os.path.dirname(os.path.abspath(__file__)))
rows = []
n = {'yes': 0, 'after-strengthening': 0, 'no': 0}
for m in sorted(glob.glob(os.path.join(HERE, 'seeded', '*', 'meta.json'))):
    d = json.load(open(m))
    n[d['caught_by_quick_check']] = n.get(d['caught_by_quick_check'], 0) + 1
    rows.append('| %s | %s | %s | %s | %s |' % (d['id'], d['breaks_property'], ', '.join(os.path.basename(f) for f in d['files_changed']),
                                             d['caught_by_quick_check'], d['notes'].replace('|', '/').replace('\n', ' ')))
text = ('%d changes kept: %d caught by the quick check as it stood when the change arrived, %d caught only after the check was '
        'strengthened (what was added is in the last column), %d not caught.\n\n'
        '| id | property | file(s) | caught by `./check <property>` (quick) | mechanism; what catches it / what had to be added |\n|---|---|---|---|---|\n'
        % (len(rows), n.get('yes', 0), n.get('after-strengthening', 0), n.get('no', 0))) + '\n'.join(rows) + '\n'
p = os.path.join(HERE, 'DESIGN.md')
s = open(p).read()
a, b = '<!-- seeded-table-begin -->\n', '<!-- seeded-table-end -->'
i, j = s.index(a) + len(a), s.index(b)
open(p, 'w').write(s[:i] + text + s[j:])
print(len(rows), 'rows', n)
