#!/venv/bin/python
"""Run the quick tier of the given checks under several VERIF_SEED values (fresh processes) and compare the evidence
(everything except seed, wall time and slowest shard time must be identical)."""
import json, os, subprocess, sys, shutil
HERE = os.path.dirname(os.path.dirname(os.path.abspath(__file__)))
props = sys.argv[1:] or [l.strip() for l in open(os.path.join(HERE, 'props', 'ENABLED.txt')) if l.strip()]
rc = 0
for p in props:
    seen = []
    for seed in (0, 1, 7):
        out = '/var/tmp/td-verif/seedcheck-%d' % seed
        env = dict(os.environ, VERIF_SEED=str(seed), VERIF_OUT=out)
        r = subprocess.run([os.path.join(HERE, 'check'), p, '--tier', 'quick'], env=env, stdout=subprocess.PIPE, stderr=subprocess.STDOUT, text=True)
        e = json.load(open(os.path.join(out, 'evidence', p + '.json')))
        e.pop('wall_s'); e.pop('seed'); e['coverage'].pop('slowest_shard_s', None)
        e['coverage'].get('counters', {}).pop('shard_seconds_max', None)
        if 'F31' in e['coverage'].get('known_findings_seen', []):
            # F31 prints uninitialised memory: how many of its instances happen to look right varies from run to run
            e['coverage'].pop('violation_instances', None)
        seen.append((r.returncode, json.dumps(e, sort_keys=True)))
    same = all(s == seen[0] for s in seen)
    print(p, 'rc=%s' % [s[0] for s in seen], 'identical evidence' if same else 'EVIDENCE DIFFERS BETWEEN SEEDS')
    if not same or any(s[0] for s in seen):
        rc = 1
        if not same:
            a, b = json.loads(seen[0][1]), json.loads(seen[1][1])
            for k in a['coverage']:
                if a['coverage'][k] != b['coverage'].get(k):
                    print('   differs:', k, str(a['coverage'][k])[:150], '|', str(b['coverage'].get(k))[:150])
for seed in (0, 1, 7):
    shutil.rmtree('/var/tmp/td-verif/seedcheck-%d' % seed, ignore_errors=True)
sys.exit(rc)
