#!/usr/bin/env python3-vt
"""Validate MANIFEST.json and every evidence file against the schemas (run with python3-vt)."""
import glob, json, sys, os
import jsonschema
HERE = os.path.dirname(os.path.dirname(os.path.abspath(__file__)))
rc = 0
m = json.load(open(os.path.join(HERE, 'MANIFEST.json')))
try:
    jsonschema.validate(m, json.load(open('/root/.vp/MANIFEST.schema.json')))
    print('MANIFEST ok:', len(m['checks']), 'checks;', len(m.get('not_applicable', [])), 'not_applicable')
except jsonschema.ValidationError as e:
    print('MANIFEST INVALID', e.message); rc = 1
es = json.load(open('/root/.vp/EVIDENCE.schema.json'))
for c in m['checks']:
    p = c['evidence_file']
    if not os.path.exists(p):
        print('evidence missing', p); rc = 1; continue
    e = json.load(open(p))
    try:
        jsonschema.validate(e, es)
        if e['level'] != c['level_claimed']['category']:
            print('level mismatch', p); rc = 1
    except jsonschema.ValidationError as err:
        print('evidence INVALID', p, err.message); rc = 1
print('evidence checked')
sys.exit(rc)
