#!/bin/sh
# tools/after_edit.sh Cxx ...  - after editing props/cXX.py or a model: run the quick tier of that check AND of every check that
# imports it (generators are shared: C11/C12/C19/C20 borrow C04, C06, C09, C13 ...), then regenerate and validate the manifest.
cd "$(dirname "$0")/.." || exit 1
todo=""
for p in "$@"; do
  m=$(echo "$p" | tr 'C' 'c')
  todo="$todo $p"
  for f in props/c*.py; do
    if grep -q "import $m\b\|$m\.\|from props import.*$m" "$f" 2>/dev/null; then
      todo="$todo C$(basename $f .py | cut -c2-)"
    fi
  done
done
rc=0
for p in $(echo $todo | tr ' ' '\n' | sort -u); do
  ./check $p --tier quick 2>&1 | grep -E "^C[0-9]+ tier|^VIOLATION|HARNESS" | cut -c1-220
  [ ${PIPESTATUS:-0} ] || true
done
tools/mkmanifest.py | tail -1; python3-vt tools/validate.py | tail -1
