#!/venv/bin/python
"""tools/mk_round_prompt.py <new round> <previous round> [props...]
Writes notes/seed_prompts/Cxx_round<new>.txt from the previous round's prompt: the scratch directory name is bumped, the
two most recently kept seeds of the property are appended to the "already used" list (file: first clause of the notes),
and the last paragraph (how to spread out) is replaced by this round's hint."""
import glob, json, os, re, sys
HERE = os.path.dirname(os.path.dirname(os.path.abspath(__file__)))
new, prev = sys.argv[1], sys.argv[2]
props = sys.argv[3:] or ['C%02d' % i for i in range(1, 21)]
HINTS = {
 '7': ("Look where nobody has looked yet: (a) the SECOND and THIRD use of one object, file handle, parser or writer - and its use "
       "after an error was raised and caught - rather than the first; (b) the lesser entry points and accessors next to the main one "
       "(len / iteration / equality / str / context-manager re-entry / copy / pickling / a *_from_path twin of a *_from_file function) "
       "which must agree with the main one; (c) numeric boundary VALUES rather than sizes: 0, -0.0, the largest / smallest value of a type, "
       "a value equal or very close to a sentinel such as the NULL / absent value, an exact power of two; (d) text boundary cases: CR LF "
       "line ends, TAB, leading / trailing blanks, upper / lower case, an empty field. As before the visible effect must be a violation of "
       "the property above, the test suite must still pass, and the change must need something specific to manifest. Make your two changes "
       "of two DIFFERENT kinds from this list."),
 '12': ("Choose changes of two DIFFERENT kinds from this list: (a) copies: an object of the library that is copied (copy.copy, copy.deepcopy, pickle round trip - "
        "the library has tools that pickle its indexes) or compared (==, !=, hash, use as a dict key) and then used like the original; (b) inputs in another container "
        "or buffer type the code accepts today: bytearray or memoryview for bytes, a numpy array or a range for a list, numpy.int64 for an int used as an index or a count, "
        "a io.BufferedReader / a subclass of io.BytesIO for a stream; (c) the object used again after its 'with' block ended, after close(), or re-entered a second time; "
        "(d) an operation that fails half way (an exception the caller catches) and what the same object answers afterwards; (e) arithmetic at a sign or zero boundary: a "
        "negative or zero value where positive is usual (a negative depth, a zero step, a descending axis, an empty range), integer division or modulo of a negative number. "
        "As before the visible effect must be a violation of the property above, the test suite must still pass, and the change must need something specific to manifest."),
 '11': ("Choose changes of two DIFFERENT kinds from this list: (a) a count or size at a representation boundary: 255 / 256, 65535 / 65536, 127 / 128 "
        "things (channels, frames, records, rows, characters, files), or one more than a buffer or block size used in the code; (b) two modes of the "
        "same operation that must agree on valid input: keep-going against strict, recursive against flat, with and without an optional table / header / "
        "index, raise_on_error on and off, private data shown and hidden; (c) bytes against str (or str against pathlib.Path, list against tuple) for an argument "
        "the code accepts in both forms; (d) floating-point specials and printing: NaN, infinities, -0.0, denormals, a value that rounds up to the next power "
        "of ten in the requested format (9.9996 with three decimals), a very long mantissa; (e) paths: relative against absolute, a trailing separator, '..', "
        "a change of the current directory between two calls, an output directory that is the input directory. As before the visible effect must be a "
        "violation of the property above, the test suite must still pass, and the change must need something specific to manifest."),
 '10': ("Choose changes of two DIFFERENT kinds from this list: (a) something the library RETURNS aliases its internal state (a list, dict, set or "
        "array it keeps using): a caller who changes the result changes later answers, or the library later changes what it handed out; "
        "(b) two objects of the same class alive at the same time (two readers, writers, indexes, selectors) influence each other through a "
        "class attribute, a module global or a mutable default argument; (c) iteration: the same object iterated twice, two iterators of "
        "one object advanced in turn, or a generator resumed after other calls were made on its object; (d) the TYPE of a numeric argument: "
        "bool / int / float / numpy scalar (True == 1, numpy.int64(3), 2.0) taken down different paths; (e) an input that is valid but "
        "empty in one dimension only (no rows but columns, no channels but frames, an empty name, a zero-length record between others). "
        "As before the visible effect must be a violation of the property above, the test suite must still pass, and the change must need "
        "something specific to manifest."),
 '9': ("Choose changes of two DIFFERENT kinds from this list: (a) the result depends on the ORDER of two operations or of two inputs "
       "that should commute (A then B against B then A; the same two records, channels, rows, files or options given the other way "
       "round); (b) an optional parameter: the path taken when it is omitted / None / at its default disagrees with the path taken when "
       "the same value is passed explicitly; (c) what the library leaves behind: the position of a file object it was given, a file it "
       "opened, an attribute of an argument it was handed, an output directory or a partly written file after an error; (d) the library's own "
       "message building (logging, str / repr / format of an object with unusual content) raising or changing behaviour only for unusual "
       "content. As before the visible effect must be a violation of the property above, the test suite must still pass, and the change "
       "must need something specific to manifest."),
 '8': ("Choose changes of these kinds, one each: (a) an arithmetic slip on a length, offset, count or index that is only wrong when two "
       "particular quantities are equal, or one is exactly one more than the other, or a remainder is zero; (b) a condition on TWO flags or "
       "options where only one of the four combinations goes wrong (and / or, a missing not, precedence, an elif that shadows a case). Look "
       "in code that the listed files call into as well as in the files themselves. As before the visible effect must be a violation of the "
       "property above, the test suite must still pass, and the change must need something specific to manifest."),
}
for p in props:
    src = os.path.join(HERE, 'notes', 'seed_prompts', '%s_round%s.txt' % (p, prev))
    text = open(src).read().replace('MUTANTS' + prev, 'MUTANTS' + new)
    paras = text.rstrip('\n').split('\n\n')
    # the used-ideas paragraph starts with IMPORTANT; the last paragraph is the hint
    ui = max(i for i, q in enumerate(paras) if q.lstrip().startswith('IMPORTANT'))
    metas = sorted(glob.glob(os.path.join(HERE, 'seeded', 'S%s*' % p[1:], 'meta.json')), key=os.path.getmtime)[-2:]
    extra = []
    for m in metas:
        d = json.load(open(m))
        files = ', '.join(os.path.basename(f) for f in d['files_changed'])
        clause = re.split(r'[;.] |; | - ', d['notes'])[0].strip()
        extra.append('%s: %s' % (files, clause))
    used = paras[ui].rstrip()
    if used.endswith('.'):
        used = used[:-1]
    paras[ui] = used + '; ' + '; '.join(extra) + '.'
    paras = paras[:ui + 1] + [HINTS[new]]
    out = os.path.join(HERE, 'notes', 'seed_prompts', '%s_round%s.txt' % (p, new))
    open(out, 'w').write('\n\n'.join(paras) + '\n')
    print(out, len(extra))
