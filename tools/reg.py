#!/venv/bin/python
"""tools/reg.py fixed F1 C01,C20 c2d2eaa "what failed"   |   tools/reg.py known F5 C07 '{"kind":..}' "what fails" """
import json, sys, os
p = os.path.join(os.path.dirname(os.path.dirname(os.path.abspath(__file__))), 'known_findings.json')
d = json.load(open(p))
status, fid, props = sys.argv[1], sys.argv[2], sys.argv[3].split(',')
d['findings'] = [f for f in d['findings'] if f['id'] != fid]
if status == 'fixed':
    commit, what = sys.argv[4], sys.argv[5]
    d['findings'].append({'id': fid, 'status': 'fixed', 'properties': props, 'commit': commit, 'what': what,
                          'line': 'fixed: property=%s %s %s' % (props[0], commit, what)})
else:
    match, what = json.loads(sys.argv[4]), sys.argv[5]
    d['findings'].append({'id': fid, 'status': 'known', 'properties': props, 'match': match, 'what': what})
json.dump(d, open(p, 'w'), indent=1)
print('register now has', len(d['findings']), 'entries')
