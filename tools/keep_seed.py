#!/venv/bin/python
"""tools/keep_seed.py <id> <Cxx> <worktree> <k> <caught: yes|no|after-strengthening> "<needs>" "<notes>"
Copies MUTANTS/<k>/{patch.diff,demo.py,README.txt} to /verif/seeded/<id>/ and writes meta.json; regenerates INDEX.md."""
import json, os, shutil, sys, glob
sid, prop, wt, k, caught, needs, notes = sys.argv[1:8]
HERE = os.path.dirname(os.path.dirname(os.path.abspath(__file__)))
src = os.path.join(wt, os.environ.get('SEED_DIR', 'MUTANTS'), k)
dst = os.path.join(HERE, 'seeded', sid)
if os.path.exists(dst) and not os.environ.get('KEEP_OVERWRITE'):
    sys.exit('seeded/%s exists already - choose a free id (or set KEEP_OVERWRITE=1 to replace it on purpose)' % sid)
os.makedirs(dst, exist_ok=True)
for f in ('patch.diff', 'demo.py', 'README.txt'):
    if os.path.exists(os.path.join(src, f)):
        shutil.copy(os.path.join(src, f), dst)
files = [l[6:].strip() for l in open(os.path.join(dst, 'patch.diff')) if l.startswith('+++ b/')]
meta = {
    'id': sid, 'breaks_property': prop, 'files_changed': files, 'needs_to_manifest': needs,
    'origin': 'fresh sub-agent given only the property text and a scratch worktree of /repo',
    'confirmed': ['patch applies to the worktree HEAD', 'repository suite passes with the change (2927 passed / 611 skipped / 13 xfailed)',
                  'demo.py exits 1 with the change and 0 without it'],
    'what_i_ran': 'tools/try_seed.sh %s %s %s suite  (apply, demo, suite, VERIF_REPO=<worktree> ./check %s --tier quick, revert, demo)' % (prop, wt, k, prop),
    'caught_by_quick_check': caught, 'notes': notes,
}
json.dump(meta, open(os.path.join(dst, 'meta.json'), 'w'), indent=1)
rows = []
for m in sorted(glob.glob(os.path.join(HERE, 'seeded', '*', 'meta.json'))):
    d = json.load(open(m))
    rows.append('| %s | %s | %s | %s | %s | %s |' % (d['id'], d['breaks_property'], ', '.join(os.path.basename(f) for f in d['files_changed']),
                                                  d['needs_to_manifest'].replace('|', '/'), d['caught_by_quick_check'], d['notes'].replace('|', '/')))
with open(os.path.join(HERE, 'seeded', 'INDEX.md'), 'w') as f:
    f.write('# Seeded property-breaking changes\n\nEach directory holds patch.diff, demo.py (exit 1 with the change, 0 without), README.txt (the author\'s notes) and meta.json.\n'
            'None of these is ever committed to /repo.  "caught" = `./check <prop> --tier quick` run against the changed tree prints VIOLATION.\n\n'
            '| id | property | file(s) | needs, to manifest | caught by quick check | notes |\n|---|---|---|---|---|---|\n' + '\n'.join(rows) + '\n')
print('kept', sid, '->', dst)
