#!/bin/sh
# tools/mk_worktree.sh c01  -> /tmp/wt-c01 : detached worktree of /repo HEAD with the built extensions copied in
set -e
d=/tmp/wt-$1
git -C /repo worktree remove --force $d 2>/dev/null || true
rm -rf $d
git -C /repo worktree add --detach $d HEAD >/dev/null 2>&1
cp /repo/src/TotalDepth/LIS/core/*.so $d/src/TotalDepth/LIS/core/
echo $d
