#!/bin/sh
# tools/cov.sh Cxx  - line coverage of the library under one quick check run in a single process (analysis aid, not a check)
P=$1
cd "$(dirname "$0")/.." || exit 1
export PYTHONHASHSEED=0 PYTHONWARNINGS=ignore PYTHONDONTWRITEBYTECODE=1 VERIF_OUT=/var/tmp/td-verif/cov/out-$P
/venv/bin/python -m coverage run --source=/repo/src/TotalDepth --data-file=/var/tmp/td-verif/cov/$P.cov ./check $P --jobs 1 > /var/tmp/td-verif/cov/$P.log 2>&1
/venv/bin/python - "$P" <<'PY'
import json, sys, subprocess
p = sys.argv[1]
anchors = [json.loads(l) for l in open('/verif/properties.jsonl')]
files = [d for d in anchors if d['id'] == p][0]['anchors']['files']
inc = ','.join('/repo/' + f for f in files if f.endswith('.py'))
r = subprocess.run(['/venv/bin/python', '-m', 'coverage', 'report', '--data-file=/var/tmp/td-verif/cov/%s.cov' % p, '--include=' + inc, '-m'],
                   stdout=subprocess.PIPE, text=True)
open('/var/tmp/td-verif/cov/%s.report' % p, 'w').write(r.stdout)
PY
