#!/venv/bin/python
"""Regenerate MANIFEST.json from the property modules that exist (props/cNN.py) and validate it."""
import importlib
import json
import os
import sys

HERE = os.path.dirname(os.path.dirname(os.path.abspath(__file__)))
sys.path.insert(0, HERE)
sys.dont_write_bytecode = True
from mc import seams  # noqa
seams.use_repo()

props = [json.loads(l) for l in open(os.path.join(HERE, 'properties.jsonl'))]
hooks_commits = []
hp = os.path.join(HERE, 'hooks_commits.txt')
if os.path.exists(hp):
    hooks_commits = [l.split()[0] for l in open(hp) if l.strip()]

ENABLED = set(open(os.path.join(HERE, 'props', 'ENABLED.txt')).read().split())
checks, na = [], []
for p in props:
    pid = p['id']
    path = os.path.join(HERE, 'props', pid.lower() + '.py')
    if not os.path.exists(path) or pid not in ENABLED:
        na.append({'property_id': pid, 'reason': 'check not built yet in this tree (planned in DESIGN.md section 4, %s); '
                                                 'no claim is made' % pid})
        continue
    mod = importlib.import_module('props.' + pid.lower())
    checks.append({
        'property_id': pid,
        'quick_cmd': './check %s --tier quick' % pid,
        'thorough_cmd': './check %s --tier thorough' % pid,
        'evidence_file': '/verif/evidence/%s.json' % pid,
        'replay_cmd_template': './check %s --replay {path}' % pid,
        'engine': getattr(mod, 'ENGINE', 'E1 small-scope enumerator'),
        'level_claimed': {
            'category': mod.LEVEL,
            'text': getattr(mod, 'LEVEL_TEXT', mod.RULE),
            'design_ref': mod.DESIGN_REF,
        },
        'level_note': getattr(mod, 'LEVEL_NOTE', '; '.join(mod.ASSUMPTIONS)),
        'technique': getattr(mod, 'TECHNIQUE', 'bounded exhaustive enumeration of inputs against the real implementation '
                                                'with an independent reference model'),
    })

manifest = {
    'version': 1,
    'setup_cmd': './setup.sh',
    'hooks': {
        'guard': 'TOTALDEPTH_VERIF',
        'enable': 'no source hooks are needed: every seam is reachable from outside (file objects are parameters, '
                  'the pool is a module attribute); checks put $VERIF_REPO/src (default /repo/src) first on sys.path '
                  'and rebuild the C/Cython extensions from the current sources into /var/tmp/td-verif',
        'baseline_off_cmd': 'cd /repo && /venv/bin/python -m pytest -ra -q -p no:cacheprovider --timeout=900 '
                            '--continue-on-collection-errors',
        'source_commits': hooks_commits,
        'add_only': True,
    },
    'engines': [
        {'name': 'E1 small-scope enumerator', 'path': 'mc/enum.py, mc/run.py', 'kind_free_text':
            'exhaustive enumeration of finite content x layout models, simplest first, sharded over 16 forked workers'},
        {'name': 'E2 explicit-state search', 'path': 'mc/bfs.py', 'kind_free_text':
            'breadth-first search whose transition function is the real method call on a freshly rebuilt object; '
            'states deduplicated by a canonical abstraction that includes the implementation cursor fields'},
        {'name': 'E3 environment enumeration', 'path': 'mc/env.py', 'kind_free_text':
            'all truncations / byte substitutions of a file; all task-to-worker assignments of a virtual process pool'},
    ],
    'checks': checks,
    'not_applicable': na,
    'notes': 'See DESIGN.md. Known defects that are not repaired are in known_findings.json; checks print KNOWN-FINDING '
             'lines for them and still report any other violation.',
}
for e in manifest['engines']:
    e['serves_properties'] = [c['property_id'] for c in checks if c['engine'].startswith(e['name'][:2])]
out = os.path.join(HERE, 'MANIFEST.json')
with open(out, 'w') as f:
    json.dump(manifest, f, indent=1)
    f.write('\n')
try:
    import jsonschema
    jsonschema.validate(manifest, json.load(open('/root/.vp/MANIFEST.schema.json')))
    print('MANIFEST.json valid: %d checks, %d not_applicable' % (len(checks), len(na)))
except ImportError:
    print('MANIFEST.json written (jsonschema not importable here): %d checks' % len(checks))
